"""C07 - an object's id is the hash of its manifest; integrity checking is exact
(model.py 453-548: _compute_hash_from_manifest, BaseHashableModel,
HashableObjectWithManifest; the per-class _compute_hash_from_attributes and
swhid() of the seven identified kinds).

Tie.  Objects of the seven kinds are built with the REAL classes (generators of
C02/C05/C04/C03 for directories/snapshots/releases/revisions, own generators for
origins, external ids, raw extrinsic metadata).  The manifest of the attributes
is taken from the library's own function (git_objects.<kind>_git_object,
url.encode()), and (kind, attrs manifest, raw manifest, id argument[, change])
is sent to the extracted generic model, run with the executable SHA-1 of
lib/Sha1.v as the hash.  For every built / evolved object both sides are
compared on: id, compute_hash(), check() verdict class, swhid(), and on the
exception class when construction or evolve raises.  Independently (oracle) the property is evaluated on the
implementation with hashlib only.

One case = one object + one family of scenarios:
  ids     built without id; explicit right id; each of the 160 single-bit flips
          of the right id; 19-byte truncation; 21-byte extension; random ids;
          zero id; empty id (= no id)
  raw     raw manifests: junk / empty / attrs+LF (needed), the attributes'
          manifest itself (unneeded: must be rejected), each with no id, the
          right id, the attributes' id, a random id, bit flips; raw_manifest on
          a class without the field (TypeError)
  evolve  evolve() on every field returned by attr.fields(cls) with a new value
          of the right type (and None for optional ones), evolve() without
          argument on an object with a wrong id, evolve on an object carrying a
          raw manifest, evolve(id=...) (TypeError)
  shapes  every container-valued argument (tuple / mapping attributes: entries,
          parents, extra_headers, branches, metadata ...) GIVEN as tuple, list,
          generator, iter(), filter / map / zip / chain / islice / reversed
          object, deque, tuple / list / dict subclasses, an own one-shot iterator
          class, an own re-iterable class, dict, OrderedDict, defaultdict,
          MappingProxyType, ImmutableDict, items view, pairs ... - keeping, per
          field and per route, exactly the shapes the code accepts today
          (observed first with an explicit id) - in the constructor, in
          from_dict and in evolve(); evolve of hashed and non-hashed fields,
          alone, with another field, with raw_manifest, two shaped containers
          together, on objects built without id / with the right id / with a
          wrong id / under a raw manifest.  One-shot iterables are created
          afresh for every call.  The object must be the one built from the
          materialised tuple / dict and satisfy id == compute_hash(), check(),
          swhid()
"""
import datetime
import hashlib
import os
import random

from .core import exc_class, hx

ID = "C07"
PROPS = "Props/C07.v"
EXTRACT = "extract/ExC07.v"
OBLIGATION = "hashable-object-id-and-check"
REQUESTS_NEED_IMPL = True
CASE_TIMEOUT = 60
THEOREMS = ["C07_init_id", "C07_construct_id", "C07_explicit_id_kept", "C07_check_iff", "C07_check_ok_iff",
            "C07_check_verdicts", "C07_wrong_id_rejected", "C07_wrong_id_value_error", "C07_right_id_accepted",
            "C07_unneeded_raw_rejected", "C07_needed_raw_accepted", "C07_built_checks", "C07_evolve",
            "C07_evolve_id_refused", "C07_evolve_raw_refused", "C07_evolve_no_manifest", "C07_swhid",
            "C07_swhid_of_built", "C07_swhid_table", "C07_swhid_extid_none", "C07_init_id_directory",
            "C07_init_id_snapshot", "C07_init_id_release", "C07_release_no_target", "C07_init_id_revision",
            "C07_init_id_origin", "C07_needed_raw_passes_example", "C07_unneeded_raw_fails_example",
            "C07_satisfiable", "C07_init_id_extid", "C07_init_id_emd"]
RULE = ("per kind (origin, snapshot, release, revision, directory, raw extrinsic metadata, external id) objects from "
        "the C02-C05 generators and own generators (non-ASCII URLs, all context combinations, payloads); per object "
        "three cases: ids (no id, right id, all 160 single-bit flips, truncated, extended, random, zero id), raw "
        "(needed / empty / unneeded raw manifests x no id, right id, attributes' id, random id, flips), evolve (every "
        "attrs field with a changed value and None where optional, no-argument evolve on a wrong id, evolve under a raw "
        "manifest, evolve(id=)), shapes (every tuple- or mapping-valued argument given as tuple / list / generator / iter / "
        "filter / map / zip / chain / islice / reversed / deque / subclasses / own one-shot and re-iterable classes / dict / "
        "OrderedDict / defaultdict / MappingProxyType / ImmutableDict / items view / pairs - only the shapes the constructor "
        "resp. from_dict accept today, observed at run time - through the constructor, from_dict and evolve (alone, with "
        "another field, with raw_manifest, two containers together; base without id, right id, wrong id, under a raw "
        "manifest); the result must equal the object built from the materialised value and satisfy the property); "
        "non-trivial = the case contains an id different from the right one or an evolve that "
        "changes the manifest; distinct = distinct (kind, object, family)")
TRUSTED = ["the manifest of the attributes is obtained from the library's own git_objects.<kind>_git_object / url.encode() "
           "(their content is the subject of C02-C05, C15); hashlib.sha1 as reference for the oracle",
           "lib/Sha1.v is only the executable instance of the hash variable (validated against hashlib on every case)",
           "attrs: attr.evolve / generated __init__ call the constructor with every field (modelled by attr_evolve / construct)"]
ASSUMPTIONS = ["objects pass their attrs validators (check() first runs attr.validate; objects that cannot be "
               "constructed are outside the property)",
               "ExtID has no swhid() in the code and no SWHID type exists for it: the SWHID clause is stated for the six "
               "kinds that have one (C07_swhid_extid_none records the absence)",
               "container arguments: only the shapes the current constructor / from_dict accept without error and store "
               "unchanged are exercised (e.g. today only Revision.extra_headers takes arbitrary iterables in the constructor; "
               "parents / entries only tuples; branches / metadata only dict subclasses and ImmutableDict); a shape that "
               "starts or stops being accepted is not a C07 matter",
               "a SWHID can only carry a 20-byte id (the SWHID constructor raises ValidationError otherwise): swhid() of an "
               "object built with a truncated/extended explicit id raises"]

KINDS = ["origin", "snapshot", "release", "revision", "directory", "raw_extrinsic_metadata", "extid"]
TAGS = {"origin": "ori", "snapshot": "snp", "release": "rel", "revision": "rev", "directory": "dir",
        "raw_extrinsic_metadata": "emd", "extid": None}          # the SWHID specification; cross-checked in pre_checks


def _cls(kind):
    from swh.model import model as M
    return {"origin": M.Origin, "snapshot": M.Snapshot, "release": M.Release, "revision": M.Revision,
            "directory": M.Directory, "raw_extrinsic_metadata": M.RawExtrinsicMetadata, "extid": M.ExtID}[kind]


def _has_raw(kind):
    import attr
    return any(a.name == "raw_manifest" for a in attr.fields(_cls(kind)))


def _manifest_fn(kind):
    from swh.model import git_objects as G
    return {"origin": lambda o: o.url.encode("utf-8"),
            "snapshot": lambda o: G.snapshot_git_object(o, ignore_unresolved=True),
            "release": G.release_git_object, "revision": G.revision_git_object,
            "directory": G.directory_git_object,
            "raw_extrinsic_metadata": G.raw_extrinsic_metadata_git_object,
            "extid": G.extid_git_object}[kind]


# ------------------------------------------------------------------ generators
def _sha(rng):
    return bytes(rng.randrange(256) for _ in range(20))


URLS = ["https://example.org/été", "http://例え.jp/パス", "", "a", "git://host/\U0001f600.git",
        "https://example.org/with space", "https://example.org/line\nbreak", "swh:1:ori:" + "0" * 40,
        "http://xn--e1afmkfd.xn--p1ai/", "ÿ", "https://example.org/" + "é" * 1013]     # 20+2026 = 2046 bytes


def gen_origin(rng):
    r = rng.random()
    if r < 0.6:
        return {"url": rng.choice(URLS)}
    return {"url": "".join(rng.choice(["a", "/", ":", "é", "Ж", "中", "\U0001f40d", " ", "%", "\x00", "\x7f"])
                           for _ in range(rng.randrange(0, 30)))}


CORE_T = ["cnt", "dir", "rev", "rel", "snp"]


def gen_extid(rng):
    pl = rng.random() < 0.4
    return {"extid_type": rng.choice(["hg-nodeid", "git-sha1", "x", "", "tarball-sha256"]),
            "extid": bytes(rng.randrange(256) for _ in range(rng.choice([0, 1, 20, 32]))).hex() if rng.random() < 0.8
            else rng.choice([b"a\nb", b" lead", b"\n"]).hex(),
            "target": "swh:1:%s:%s" % (rng.choice(CORE_T), _sha(rng).hex()),
            "version": rng.choice([0, 0, 1, 2, 10 ** 12]),
            "payload_type": rng.choice(["disk-history", "p"]) if pl else None,
            "payload": _sha(rng).hex() if pl else None}


def gen_rem(rng):
    tt = rng.choice(CORE_T + ["ori", "emd"])
    spec = {"target": "swh:1:%s:%s" % (tt, _sha(rng).hex()),
            "ts": rng.choice([0, 1, -1, 1600000000, rng.randrange(-10 ** 9, 4 * 10 ** 9)]),
            "us": rng.choice([0, 0, 1, 999999, rng.randrange(10 ** 6)]),
            "tzmin": rng.choice([0, 0, 60, -330, 840, -720, rng.randrange(-1439, 1440)]),
            "authority": [rng.choice(["deposit_client", "forge", "registry"]),
                          rng.choice(["https://forge.example/", "http://é.example/a b", "", "x\ny"])],
            "fetcher": [rng.choice(["swh-loader", "näme", "", "two words"]), rng.choice(["1.0", "", "v 2", "0.0.1\n"])],
            "format": rng.choice(["json", "", "sword-v2-atom-codemeta", "förmat"]),
            "metadata": rng.choice([b"", b"{}", b'{"a": 1}\n', b"\n\nx", bytes(rng.randrange(256) for _ in range(rng.randrange(1, 30)))]).hex(),
            "origin": None, "visit": None, "snapshot": None, "release": None, "revision": None, "path": None,
            "directory": None}
    allowed = {"origin": CORE_T, "snapshot": ["rel", "rev", "dir", "cnt"], "release": ["rev", "dir", "cnt"],
               "revision": ["dir", "cnt"], "path": ["dir", "cnt"], "directory": ["cnt"]}
    p = rng.choice([0.0, 0.4, 0.4, 1.0])
    if tt in allowed["origin"] and rng.random() < p:
        spec["origin"] = rng.choice(["https://example.org/é", "http://o/\n x", "o"])
        if rng.random() < 0.6:
            spec["visit"] = rng.choice([1, 2, 42, 10 ** 10])
    for k, t in (("snapshot", "snp"), ("release", "rel"), ("revision", "rev"), ("directory", "dir")):
        if tt in allowed[k] and rng.random() < p:
            spec[k] = "swh:1:%s:%s" % (t, _sha(rng).hex())
    if tt in allowed["path"] and rng.random() < p:
        spec["path"] = rng.choice([b"/a/b", b"", b"p\nq", b"\xff\x00"]).hex()
    return spec


def _valid_rev(c):
    return not (c["author"] is None and c["date"] is not None) and not (c["committer"] is None and c["committer_date"] is not None)


def gen_specs(rng, kind, n):
    from . import c02, c03, c04, c05
    if kind == "directory":
        return [{"entries": c02.gen_entries(rng, rng.choice([0, 1, 2, 3, 3, 5, 8]), "ok")} for _ in range(n)]
    if kind == "snapshot":
        out = []
        while len(out) < n:
            b = c05.gen_map(rng, rng.choice([0, 1, 2, 3, 3, 5]), "ok")
            if sum(len(t or "") for _, _, t in b) <= 600:         # keep the executable SHA-1 cheap
                out.append({"branches": b})
        return out
    if kind in ("release", "revision"):
        sub = random.Random(rng.getrandbits(64))
        pool = (c04 if kind == "release" else c03).gen(sub, "quick")
        if kind == "release":
            pool = [c for c in pool if not (c["author"] is None and c["date"] is not None)]
            # make sure some releases without target (no manifest) are present
            notarget = [c for c in pool if c["target"] is None][: max(2, n // 12)]
            pool = notarget + [c for c in pool if c["target"] is not None]
        else:
            pool = [c for c in pool if _valid_rev(c)]
        return pool[:n] if n <= len(pool) else [pool[i % len(pool)] for i in range(n)]
    g = {"origin": gen_origin, "extid": gen_extid, "raw_extrinsic_metadata": gen_rem}[kind]
    return [g(rng) for _ in range(n)]


def gen(rng, tier):
    n_obj = 48 if tier == "quick" else 450
    specs = {kind: gen_specs(rng, kind, n_obj) for kind in KINDS}
    cases = []
    # round-robin over the kinds, so that every prefix of the stream covers all seven; per object the two
    # small families first, then the 170-id family
    for i in range(n_obj):
        for kind in KINDS:
            for what in ("evolve", "raw", "shapes", "ids"):
                case = {"kind": kind, "spec": specs[kind][i], "what": what, "seed": rng.getrandbits(32)}
                if what == "shapes" and tier != "quick":
                    case["full"] = True          # every accepted shape in every context
                cases.append(case)
    # the evidence samples are taken from the head of the stream: keep them small
    head = [c for c in cases[:4 * len(KINDS)] if c["what"] in ("evolve", "raw")][:6]
    return head + [c for c in cases if not any(c is h for h in head)]


def nontrivial(c):
    return c.get("what") in ("ids", "raw", "evolve", "shapes")


def classify(c):
    ks = ["kind=" + c["kind"], "family=" + c["what"]]
    if c["kind"] == "release" and c["spec"].get("target") is None:
        ks.append("no-manifest(release without target)")
    if c["what"] == "shapes":
        ks.append("shapes:" + ("all" if c.get("full") else "sampled"))
    if c["what"] == "raw":
        ks.append("raw:needed+unneeded" if c["kind"] in ("release", "revision", "directory") else "raw:class-without-field")
    return ks


# ------------------------------------------------------------------ building the real objects
def base_kwargs(kind, spec):
    """constructor keyword arguments (without id / raw_manifest)"""
    import attr
    from swh.model import model as M
    from swh.model.swhids import CoreSWHID, ExtendedSWHID
    from . import c02, c03, c05
    from .gitobj_common import mk_person, mk_tstz
    if kind == "release":
        c = spec
        return dict(name=bytes.fromhex(c["name"]), message=None if c["message"] is None else bytes.fromhex(c["message"]),
                    target=None if c["target"] is None else bytes.fromhex(c["target"]),
                    target_type=M.ReleaseTargetType(c["ttype"]), synthetic=c["synthetic"],
                    author=mk_person(c["author"]), date=mk_tstz(c["date"]), metadata=None)
    if kind == "origin":
        return {"url": spec["url"]}
    if kind == "extid":
        return dict(extid_type=spec["extid_type"], extid=bytes.fromhex(spec["extid"]),
                    target=CoreSWHID.from_string(spec["target"]), extid_version=spec["version"],
                    payload_type=spec["payload_type"],
                    payload=None if spec["payload"] is None else bytes.fromhex(spec["payload"]))
    if kind == "raw_extrinsic_metadata":
        s = spec
        tz = datetime.timezone(datetime.timedelta(minutes=s["tzmin"]))
        date = datetime.datetime.fromtimestamp(s["ts"], tz=tz).replace(microsecond=s["us"])
        kw = dict(target=ExtendedSWHID.from_string(s["target"]), discovery_date=date,
                  authority=M.MetadataAuthority(type=M.MetadataAuthorityType(s["authority"][0]), url=s["authority"][1]),
                  fetcher=M.MetadataFetcher(name=s["fetcher"][0], version=s["fetcher"][1]),
                  format=s["format"], metadata=bytes.fromhex(s["metadata"]), origin=s["origin"], visit=s["visit"],
                  path=None if s["path"] is None else bytes.fromhex(s["path"]))
        for k in ("snapshot", "release", "revision", "directory"):
            kw[k] = None if s[k] is None else CoreSWHID.from_string(s[k])
        return kw
    if kind == "revision":
        # the caller's own keyword arguments (legacy revisions carry their extra headers inside metadata: the id
        # is computed BEFORE __attrs_post_init__ moves them to the attribute)
        kw = c03._kwargs(spec)
        kw.pop("id", None)
        return kw
    o = {"directory": lambda: c02._build(spec["entries"]), "snapshot": lambda: c05._build(spec["branches"])}[kind]()
    return {a.name: getattr(o, a.name) for a in attr.fields(type(o)) if a.name not in ("id", "raw_manifest")}


def attrs_manifest(kind, obj):
    """the library's own manifest of the attributes; None when it raises TypeError"""
    try:
        return _manifest_fn(kind)(obj)
    except TypeError:
        return None


def observe(x):
    o = {"id": x.id.hex()}
    try:
        o["ch"] = x.compute_hash().hex()
    except Exception as e:
        o["ch"] = "!" + exc_class(e)
    try:
        x.check()
        o["check"] = "ok"
    except Exception as e:
        o["check"] = "!" + exc_class(e)
    try:
        o["swhid"] = str(x.swhid())
    except Exception as e:
        o["swhid"] = "!" + exc_class(e)
    return o


def _flip(b, k):
    return b[:k // 8] + bytes([b[k // 8] ^ (0x80 >> (k % 8))]) + b[k // 8 + 1:]


_ABSENT = object()


def _construct(cls, kw, raw=_ABSENT, idv=b""):
    extra = {}
    if raw is not _ABSENT:
        extra["raw_manifest"] = raw
    if idv != b"" or raw is _ABSENT:
        extra["id"] = idv          # id=b"" is passed explicitly in one half of the no-id cases, left out in the other
    return cls(**kw, **extra)


def _enc_rawarg(raw):
    return "=" if raw is _ABSENT else hx(raw)


# ------------------------------------------------------------------ shapes of container arguments
class _Shaped:
    """a container value to be GIVEN in a particular shape (list, generator, filter object, dict view ...): `fresh()`
    makes a new value of that shape on every call (one-shot iterators are consumed by whoever reads them first),
    `mat` is the materialised tuple / dict the resulting attribute must be equal to"""

    def __init__(self, shape, make, mat):
        self.shape, self.make, self.mat = shape, make, mat

    def fresh(self):
        return self.make()


def _mat(v):
    return v.mat if isinstance(v, _Shaped) else v


def _fresh(v):
    return v.fresh() if isinstance(v, _Shaped) else v


def _differs(x, ref, names):
    """names of the fields on which x differs from the reference object (built from materialised values)"""
    out = []
    for n in names:
        try:
            if getattr(x, n) != getattr(ref, n):
                out.append(n)
        except Exception:
            out.append(n)
    return out


class _OneShot:
    """an iterator class of our own (neither generator nor builtin)"""

    def __init__(self, items):
        self._l, self._i = list(items), 0

    def __iter__(self):
        return self

    def __next__(self):
        if self._i >= len(self._l):
            raise StopIteration
        self._i += 1
        return self._l[self._i - 1]


class _ReIterable:
    """an iterable (not a sequence) that can be iterated any number of times"""

    def __init__(self, items):
        self._l = list(items)

    def __iter__(self):
        return iter(list(self._l))


class _TupleSub(tuple):
    pass


class _ListSub(list):
    pass


class _DictSub(dict):
    pass


def seq_shapes(mat):
    """[(shape name, factory)] for a tuple value"""
    import collections
    import itertools
    mat = tuple(mat)
    k = len(mat) // 2
    sh = [("tuple", lambda: tuple(mat)), ("list", lambda: list(mat)), ("generator", lambda: (x for x in mat)),
          ("iter", lambda: iter(list(mat))), ("filter", lambda: filter(lambda x: True, mat)),
          ("map", lambda: map(lambda x: x, mat)), ("chain", lambda: itertools.chain(mat[:k], mat[k:])),
          ("islice", lambda: itertools.islice(mat, len(mat))), ("reversed", lambda: reversed(mat[::-1])),
          ("deque", lambda: collections.deque(mat)), ("tuple-subclass", lambda: _TupleSub(mat)),
          ("list-subclass", lambda: _ListSub(mat)), ("one-shot-iterator", lambda: _OneShot(mat)),
          ("re-iterable", lambda: _ReIterable(mat))]
    if mat and all(isinstance(x, tuple) and len(x) == 2 for x in mat):
        ks, vs = [a for a, _ in mat], [b for _, b in mat]
        sh += [("zip", lambda: zip(ks, vs)), ("list-of-lists", lambda: [list(x) for x in mat]),
               ("generator-of-generators", lambda: ((y for y in x) for x in mat))]
        try:
            if len(set(ks)) == len(ks):
                sh.append(("dict-items", lambda: dict(zip(ks, vs)).items()))
        except TypeError:
            pass
    return sh


def map_shapes(mat):
    """[(shape name, factory)] for a mapping value"""
    import collections
    import types
    from swh.model.collections import ImmutableDict
    items = list(mat.items())
    return [("dict", lambda: dict(items)), ("ImmutableDict", lambda: ImmutableDict(dict(items))),
            ("OrderedDict", lambda: collections.OrderedDict(items)), ("dict-subclass", lambda: _DictSub(items)),
            ("defaultdict", lambda: collections.defaultdict(lambda: None, items)),
            ("MappingProxyType", lambda: types.MappingProxyType(dict(items))), ("items-view", lambda: dict(items).items()),
            ("list-of-pairs", lambda: list(items)), ("tuple-of-pairs", lambda: tuple(items)),
            ("generator-of-pairs", lambda: (x for x in items)), ("iter-of-pairs", lambda: iter(list(items))),
            ("zip", lambda: zip([a for a, _ in items], [b for _, b in items])),
            ("ImmutableDict-from-generator", lambda: ImmutableDict(x for x in items))]


def shapes_of(value):
    from swh.model.collections import ImmutableDict
    if isinstance(value, (tuple, list)):
        return seq_shapes(value)
    if isinstance(value, (dict, ImmutableDict)):
        return map_shapes(dict(value.items()))
    return []


def alt_values(kind, name, cur, a, rng):
    """new values 'of the right type' for a field, chosen from the current value's
    type (and the field's name for containers), so that a field added to a class
    is exercised without touching this file; unknown shapes -> the same value"""
    import enum
    from swh.model import model as M
    from swh.model.collections import ImmutableDict
    from swh.model.swhids import CoreSWHID, ExtendedSWHID
    out = []
    if cur is None:
        t = str(a.type)
        if name in ("snapshot", "release", "revision", "directory") and "SWHID" in t:
            from swh.model.swhids import ObjectType
            out.append(CoreSWHID(object_type=ObjectType[name.upper()], object_id=_sha(rng)))
        elif "Person" in t:
            out.append(M.Person(fullname=b"New Person <n@e>", name=None, email=None))
        elif "TimestampWithTimezone" in t:
            out.append(M.TimestampWithTimezone(timestamp=M.Timestamp(seconds=rng.randrange(10 ** 9), microseconds=0),
                                               offset_bytes=b"+0100"))
        elif "ImmutableDict" in t or "Dict" in t:
            out.append({"k": "v"})
        elif "bytes" in t:
            out.append(b"new\nvalue" if name not in ("target", "payload") else _sha(rng))
        elif "str" in t:
            out.append("new")
        elif "int" in t:
            out.append(1)
        else:
            out.append(None)
        return out
    if isinstance(cur, bool):
        out.append(not cur)
    elif isinstance(cur, int):
        out.append(cur + 1)
    elif isinstance(cur, bytes):
        out.append(cur[:-1] + bytes([cur[-1] ^ 1]) if cur else b"x")
    elif isinstance(cur, str):
        out.append(cur + ("/é" if name in ("url", "origin") and len(cur.encode()) < 2000 else "x"))
    elif isinstance(cur, enum.Enum):
        ms = list(type(cur))
        out.append(ms[(ms.index(cur) + 1) % len(ms)])
    elif isinstance(cur, M.Person):
        out.append(M.Person(fullname=cur.fullname + b"x", name=None, email=None))
    elif isinstance(cur, M.TimestampWithTimezone):
        out.append(M.TimestampWithTimezone(timestamp=M.Timestamp(seconds=cur.timestamp.seconds - 1 if cur.timestamp.seconds > 0
                                                                   else cur.timestamp.seconds + 1,
                                                                   microseconds=cur.timestamp.microseconds),
                                           offset_bytes=cur.offset_bytes))
    elif isinstance(cur, datetime.datetime):
        out.append(cur + datetime.timedelta(days=1, seconds=1))
    elif isinstance(cur, (CoreSWHID, ExtendedSWHID)):
        out.append(type(cur)(object_type=cur.object_type, object_id=_flip(cur.object_id, 7)))
    elif isinstance(cur, M.MetadataAuthority):
        out.append(M.MetadataAuthority(type=cur.type, url=cur.url + "x"))
    elif isinstance(cur, M.MetadataFetcher):
        out.append(M.MetadataFetcher(name=cur.name, version=cur.version + "x"))
    elif isinstance(cur, tuple):
        if name == "entries":
            out.append(cur + (M.DirectoryEntry(name=b"\xffnew-entry", type="file", target=_sha(rng), perms=0o100644),))
        elif name == "parents":
            out.append(cur + (_sha(rng),))
        elif name == "extra_headers":
            out.append(cur + ((b"x-new", b"v\nw"),))
        if cur:
            out.append(cur[:-1])
        if not out:
            out.append(cur)
    elif isinstance(cur, (dict, ImmutableDict)):
        d = dict(cur.items())
        if name == "branches":
            d2 = dict(d)
            d2[b"\xffnew-branch"] = None
            out.append(d2)
            if d:
                d3 = dict(d)
                d3.pop(sorted(d3)[0])
                out.append(d3)
        else:
            d2 = dict(d)
            d2["new-key"] = "v"
            out.append(d2)
    else:
        out.append(cur)
    if cur is not None and (str(a.type).startswith("typing.Optional") or a.default is None):
        out.append(None)
    return out


def impl(c):
    """runs every scenario of the case on the real classes; each step carries the
    arguments the model needs (the attrs manifest comes from the library)"""
    import attr
    kind, what = c["kind"], c["what"]
    rng = random.Random(c["seed"])
    only = c.get("only")
    try:
        cls = _cls(kind)
        kw = base_kwargs(kind, c["spec"])
        probe = cls(**kw, id=b"\x01" * 20)          # explicit id: nothing is hashed
    except Exception as e:
        return {"error": "cannot build: " + exc_class(e)}
    am = attrs_manifest(kind, probe)
    has_raw = _has_raw(kind)
    steps = []
    res = {"attrs": None if am is None else am.hex(), "has_raw": has_raw, "steps": steps}

    def build_step(label, raw, idv, builder=None, ref_fields=None):
        """builder: another construction route (shaped keyword arguments, from_dict); the object must then equal the
        probe on ref_fields"""
        if only and label not in only:
            return
        st = {"label": label, "rawarg": _enc_rawarg(raw), "id": idv.hex()}
        try:
            x = _construct(cls, kw, raw, idv) if builder is None else builder()
            st["obs"] = observe(x)
            if ref_fields is not None:
                st["obs"]["differs"] = _differs(x, probe, ref_fields)
        except Exception as e:
            st["error"] = exc_class(e)
        steps.append(st)

    junk = b"junk " + bytes(rng.randrange(256) for _ in range(rng.randrange(0, 20)))

    def evolve_step(label, base_raw, base_id, kwargs):
        """kwargs values may be _Shaped: the call receives a FRESH value of that shape, the reference object (and the
        manifest sent to the model) is built from the materialised tuple / dict"""
        if only and label not in only and label.split("=")[0] not in only:
            return
        st = {"label": label, "rawarg": _enc_rawarg(base_raw), "id": base_id.hex()}
        try:
            base = _construct(cls, kw, base_raw, base_id)
        except Exception as e:
            st["skip"] = "base cannot be built: " + exc_class(e)
            steps.append(st)
            return
        ch = {"attrs": "=", "raw": "=", "id": "="}
        plain = {k: _mat(v) for k, v in kwargs.items() if k not in ("id", "raw_manifest")}
        if "raw_manifest" in kwargs:
            ch["raw"] = hx(kwargs["raw_manifest"])
        if "id" in kwargs:
            ch["id"] = hx(kwargs["id"])
        ref = base
        if plain:
            # is the change accepted by the validators at all?  (attrs' own evolve = the constructor)
            try:
                ref = attr.evolve(base, **plain)
            except Exception as e:
                st["skip"] = "new value refused by the validators: " + exc_class(e)
                steps.append(st)
                return
            try:
                m2 = _manifest_fn(kind)(ref)
                ch["attrs"] = hx(m2)
            except TypeError:
                ch["attrs"] = "-"
            except Exception as e:
                st["skip"] = "manifest function raises " + exc_class(e)
                steps.append(st)
                return
        st["change"] = ch
        try:
            res = base.evolve(**{k: _fresh(v) for k, v in kwargs.items()})
            st["obs"] = observe(res)
            st["obs"]["differs"] = _differs(res, ref, plain)
        except Exception as e:
            st["error"] = exc_class(e)
        steps.append(st)

    right = None if am is None else hashlib.sha1(am).digest()
    if what == "ids":
        raw = None if (has_raw and rng.random() < 0.5) else _ABSENT
        build_step("noid", raw, b"")
        if right is not None:
            build_step("right", raw, right)
            for k in range(160):
                build_step("flip-%d" % k, raw, _flip(right, k))
            build_step("trunc19", raw, right[:19])
            build_step("ext21", raw, right + bytes([rng.randrange(256)]))
            build_step("one-byte", raw, right[:1])
        build_step("random", raw, _sha(rng))
        build_step("zero", raw, bytes(20))
        build_step("random40", raw, _sha(rng) + _sha(rng))
    elif what == "raw":
        if not has_raw:
            build_step("raw-none-on-class-without-field", None, b"")
            build_step("raw-junk-on-class-without-field", b"junk", b"")
            build_step("raw-junk-with-id", b"junk", _sha(rng))
        else:
            junk = bytes(rng.randrange(256) for _ in range(rng.randrange(1, 40)))
            raws = [("junk", junk), ("empty", b"")]
            if am is not None:
                raws += [("attrs+lf", am + b"\n"), ("prefix", am[:-1])]
            for nm, rw in raws:
                rid = hashlib.sha1(rw).digest()
                build_step("raw-%s-noid" % nm, rw, b"")
                build_step("raw-%s-rightid" % nm, rw, rid)
                if right is not None:
                    build_step("raw-%s-attrsid" % nm, rw, right)
                build_step("raw-%s-randomid" % nm, rw, _sha(rng))
                for _ in range(3):
                    k = rng.randrange(160)
                    build_step("raw-%s-flip-%d" % (nm, k), rw, _flip(rid, k))
                build_step("raw-%s-trunc" % nm, rw, rid[:19])
            if am is not None:
                build_step("raw-same-noid", am, b"")
                build_step("raw-same-rightid", am, right)
                build_step("raw-same-randomid", am, _sha(rng))
                build_step("raw-same-flip", am, _flip(right, rng.randrange(160)))
            build_step("raw-None-noid", None, b"")
    elif what == "evolve":
        base_raw = _ABSENT
        if am is None and has_raw:
            base_raw = junk          # a Release without target can only exist with a raw manifest or an explicit id
        for a in attr.fields(cls):
            if a.name == "id":
                evolve_step("field:id=empty", base_raw, b"", {"id": b""})
                evolve_step("field:id=right", base_raw, b"", {"id": right or _sha(rng)})
                evolve_step("field:id=and-raw", base_raw, b"", {"id": _sha(rng), "raw_manifest": None})
            elif a.name == "raw_manifest":
                evolve_step("field:raw_manifest=junk", base_raw, b"", {"raw_manifest": junk})
                evolve_step("field:raw_manifest=None", base_raw, b"", {"raw_manifest": None})
                evolve_step("field:raw_manifest=empty", base_raw, b"", {"raw_manifest": b""})
                if am is not None:
                    evolve_step("field:raw_manifest=attrs", base_raw, b"", {"raw_manifest": am})
            else:
                cur = kw.get(a.name, getattr(probe, a.name))
                vals = alt_values(kind, a.name, getattr(probe, a.name), a, rng)
                for j, v in enumerate(vals):
                    evolve_step("field:%s=alt%d" % (a.name, j), base_raw, b"", {a.name: v})
                evolve_step("field:%s=same" % a.name, base_raw, b"", {a.name: cur})
        if not has_raw:
            evolve_step("raw_manifest-on-class-without-field", _ABSENT, b"", {"raw_manifest": None})
        # evolve() repairs a wrong id
        wrong = _flip(right, rng.randrange(160)) if right is not None else _sha(rng)
        evolve_step("noarg-on-wrong-id", base_raw, wrong, {})
        evolve_step("noarg-on-right", base_raw, b"", {})
        names = [a.name for a in attr.fields(cls) if a.name not in ("id", "raw_manifest")]
        f0 = names[rng.randrange(len(names))]
        v0 = alt_values(kind, f0, getattr(probe, f0), attr.fields_dict(cls)[f0], rng)[0]
        evolve_step("wrong-id:%s" % f0, base_raw, wrong, {f0: v0})
        if has_raw:
            evolve_step("under-raw:%s" % f0, junk, b"", {f0: v0})
            evolve_step("under-raw:drop-raw", junk, b"", {"raw_manifest": None})
            evolve_step("under-raw:wrong-id-noarg", junk, wrong, {})
            if am is not None:
                evolve_step("under-unneeded-raw:%s" % f0, am, b"", {f0: v0})
            evolve_step("attr-and-raw:%s" % f0, base_raw, b"", {f0: v0, "raw_manifest": junk})
    elif what == "shapes":
        # container-valued arguments given in every shape the code accepts TODAY (observed first, with an explicit id so
        # that nothing is hashed): constructor, from_dict, evolve.  Whatever the shape, the object must be the one built
        # from the materialised tuple / dict and satisfy the property.
        full = bool(c.get("full"))
        pid = b"\x01" * 20
        wrong = _flip(right, rng.randrange(160)) if right is not None else _sha(rng)
        names = [a.name for a in attr.fields(cls) if a.name not in ("id", "raw_manifest")]
        fdict = attr.fields_dict(cls)
        noid_raw = junk if (am is None and has_raw) else _ABSENT        # a Release without target needs a raw manifest
        report = res.setdefault("shapes", {})

        def some(l, n):
            # quick: n of them; thorough: all of them in the main contexts, 3n in the secondary ones
            l = list(l)
            if full:
                n = len(l) if n >= 4 else 3 * n
            return l if len(l) <= n else rng.sample(l, n)

        def ctor(f, mk, raw, idv):
            return lambda: _construct(cls, dict(kw, **{f: mk()}), raw, idv)

        accepted = {}
        for f in names:
            # the caller's own argument (a legacy revision carries its extra headers inside `metadata`), in every shape;
            # accepted = the constructor takes it and stores what it stores for the plain argument
            acc, refused = [], []
            for nm, mk in shapes_of(kw.get(f, getattr(probe, f))):
                try:
                    ok = not _differs(ctor(f, mk, _ABSENT, pid)(), probe, [f])
                except Exception:
                    ok = False
                (acc if ok else refused).append((nm, mk))
            if acc or refused:
                report["ctor:" + f] = {"accepted": [n for n, _ in acc], "refused": [n for n, _ in refused]}
            if acc:
                accepted[f] = acc
        # --- constructor
        for f, acc in accepted.items():
            for nm, mk in some(acc, 4):
                build_step("ctor:%s=%s:noid" % (f, nm), noid_raw, b"", ctor(f, mk, noid_raw, b""), [f])
            for nm, mk in some(acc, 1):
                if right is not None:
                    build_step("ctor:%s=%s:right-id" % (f, nm), _ABSENT, right, ctor(f, mk, _ABSENT, right), [f])
                build_step("ctor:%s=%s:wrong-id" % (f, nm), _ABSENT, wrong, ctor(f, mk, _ABSENT, wrong), [f])
                if has_raw:
                    build_step("ctor:%s=%s:raw" % (f, nm), junk, b"", ctor(f, mk, junk, b""), [f])
        # --- from_dict
        contexts = [("noid", noid_raw, b"")]
        if right is not None:
            contexts.append(("right-id", _ABSENT, right))
        contexts.append(("wrong-id", _ABSENT, wrong))
        if has_raw:
            contexts.append(("raw", junk, b""))
        for ci, (tag, raw, idv) in enumerate(contexts):
            try:
                d0 = _construct(cls, kw, raw, idv or pid).to_dict()
                d_probe = dict(d0, id=pid)
                if _differs(cls.from_dict(dict(d_probe)), probe, names):
                    continue
            except Exception:
                continue                      # to_dict / from_dict do not round-trip this object today: not this property
            if not idv:
                d0.pop("id", None)

            def fd(k, mk, d0=d0):
                return lambda: cls.from_dict(dict(d0) if k is None else dict(d0, **{k: mk()}))
            build_step("from_dict:%s:plain" % tag, raw, idv, fd(None, None), names)
            for k in sorted(d0):
                if k not in names or not shapes_of(getattr(probe, k)):
                    continue                  # only the container-valued attributes (not nested person / date dicts)
                acc = []
                for nm, mk in shapes_of(d0[k]):
                    try:
                        if not _differs(cls.from_dict(dict(d_probe, **{k: mk()})), probe, names):
                            acc.append((nm, mk))
                    except Exception:
                        pass
                if ci == 0 and shapes_of(d0[k]):
                    report["from_dict:" + k] = {"accepted": [n for n, _ in acc],
                                                "refused": [n for n, _ in shapes_of(d0[k]) if n not in [m for m, _ in acc]]}
                for nm, mk in (some(acc, 4) if ci == 0 else some(acc, 1)):
                    build_step("from_dict:%s:%s=%s" % (tag, k, nm), raw, idv, fd(k, mk), names)
        # --- evolve
        econtexts = [("plain", _ABSENT if am is not None or not has_raw else junk, b"")]
        if right is not None:
            econtexts.append(("on-right-id", _ABSENT, right))
        econtexts.append(("on-wrong-id", _ABSENT if am is not None or not has_raw else junk, wrong))
        if has_raw:
            econtexts += [("under-raw", junk, b""), ("under-raw-wrong-id", junk, wrong)]
        shaped = {}          # field -> [_Shaped of a NEW value] (only shapes the constructor accepts)
        for f, acc in accepted.items():
            new = [v for v in alt_values(kind, f, getattr(probe, f), fdict[f], rng) if v is not None][:1]
            vals = new + [getattr(probe, f)]
            for j, v in enumerate(vals):
                byname = dict(shapes_of(v))
                lst = [_Shaped(nm, byname[nm], v) for nm, _ in acc if nm in byname]
                if j == 0:
                    shaped[f] = lst
                for ci, (tag, raw, idv) in enumerate(econtexts):
                    if j == 1 and not full and ci not in (0, len(econtexts) - 1):
                        continue
                    for sh in (some(lst, 5) if (ci == 0 and j == 0) else some(lst, 1)):
                        evolve_step("evolve:%s:%s=%s(%s)" % (tag, f, sh.shape, "new" if j == 0 else "same"), raw, idv, {f: sh})
        # together: a shaped container with another field / with raw_manifest / with a second shaped container
        base_raw = econtexts[0][1]
        for f, lst in shaped.items():
            others = [n for n in names if n != f]
            for sh in some(lst, 2):
                if others:
                    g = others[rng.randrange(len(others))]
                    gv = alt_values(kind, g, getattr(probe, g), fdict[g], rng)[0]
                    evolve_step("evolve:with-%s:%s=%s" % (g, f, sh.shape), base_raw, b"", {f: sh, g: gv})
                    evolve_step("evolve:with-%s-on-wrong-id:%s=%s" % (g, f, sh.shape), base_raw, wrong, {g: gv, f: sh})
                if has_raw:
                    evolve_step("evolve:with-raw_manifest:%s=%s" % (f, sh.shape), base_raw, b"", {f: sh, "raw_manifest": junk})
                    evolve_step("evolve:dropping-raw:%s=%s" % (f, sh.shape), junk, b"", {f: sh, "raw_manifest": None})
                for f2, lst2 in shaped.items():
                    if f2 != f and lst2:
                        sh2 = lst2[rng.randrange(len(lst2))]
                        evolve_step("evolve:pair:%s=%s+%s=%s" % (f, sh.shape, f2, sh2.shape), base_raw, b"", {f: sh, f2: sh2})
    return res


# ------------------------------------------------------------------ model side
def _line(c, ires, st):
    a = "-" if ires["attrs"] is None else hx(bytes.fromhex(ires["attrs"]))
    head = "%s %s %s %s" % (c["kind"], a, st["rawarg"], hx(bytes.fromhex(st["id"])))
    if "change" in st:
        ch = st["change"]
        return "evo %s %s %s %s" % (head, ch["attrs"], ch["raw"], ch["id"])
    return "new " + head


def _live(ires):
    return [st for st in ires.get("steps", []) if "skip" not in st]


def requests(c, ires):
    return [_line(c, ires, st) for st in _live(ires)]


def model(c, resp):
    return {"answers": list(resp)}


def _canon_obs(st):
    """the implementation's observation in the driver's answer format"""
    if "error" in st:
        return "err " + st["error"]
    o = st["obs"]
    sw = o["swhid"]
    if sw.startswith("swh:1:"):
        sw = sw[len("swh:1:"):]
    return "ok %s %s %s %s" % (o["id"], o["ch"], o["check"], sw)


def compare(c, ires, mres):
    if "error" in ires:
        return None
    live = _live(ires)
    ans = mres.get("answers", [])
    if len(ans) != len(live):
        return "driver answered %d of %d requests" % (len(ans), len(live))
    for st, a in zip(live, ans):
        got = _canon_obs(st)
        if got != a:
            return "step %s: implementation `%s`, model `%s` (request: %s)" % (st["label"], got, a, _line(c, ires, st)[:200])
    return None


# ------------------------------------------------------------------ the property on the implementation (hashlib only)
def _sha1(b):
    return hashlib.sha1(b).hexdigest()


def _arg(s):
    """'=' -> absent, '-' -> None, hex/'.' -> bytes"""
    if s == "=":
        return _ABSENT
    if s == "-":
        return None
    return b"" if s == "." else bytes.fromhex(s)


def oracle(c, ires, mres):
    if "error" in ires:
        return "a valid %s could not be built at all: %s" % (c["kind"], ires["error"])
    kind = c["kind"]
    tag = TAGS[kind]
    has_raw = ires["has_raw"]
    attrs0 = None if ires["attrs"] is None else bytes.fromhex(ires["attrs"])
    for st in _live(ires):
        lab = "step %s: " % st["label"]
        raw = _arg(st["rawarg"])
        idv = bytes.fromhex(st["id"])
        attrs = attrs0
        evolve = "change" in st
        raw_kw = raw is not _ABSENT
        raw = None if raw is _ABSENT else raw
        if not evolve and raw_kw and not has_raw:
            if st.get("error") != "TypeError":
                return lab + "raw_manifest accepted by a class without that field"
            continue
        if evolve:
            ch = st["change"]
            if ch["id"] != "=":
                if st.get("error") != "TypeError":
                    return lab + "evolve(id=...) did not raise TypeError"
                continue
            if ch["raw"] != "=":
                if not has_raw:
                    if st.get("error") != "TypeError":
                        return lab + "evolve(raw_manifest=...) accepted by a class without that field"
                    continue
                raw = _arg(ch["raw"])
            if ch["attrs"] != "=":
                attrs = _arg(ch["attrs"])
        eff = raw if raw is not None else attrs           # the manifest that must be hashed (raw first)
        if eff is None:
            # no manifest at all: nothing can be hashed
            if evolve or idv == b"":
                if st.get("error") != "TypeError":
                    return lab + "an object without manifest got an id"
                continue
        if "error" in st:
            return lab + ("evolve" if evolve else "construction") + " raised " + st["error"]
        o = st["obs"]
        want_id = _sha1(eff) if (evolve or idv == b"") else idv.hex()
        if o["id"] != want_id:
            if evolve:
                return lab + "after evolve the id %s is not the SHA-1 of the new manifest %s" % (o["id"], want_id)
            if idv == b"":
                return lab + "built without id, the id %s is not the SHA-1 of the manifest (%s)" % (o["id"], want_id)
            return lab + "the explicit id was not kept"
        if eff is not None and o["ch"] != _sha1(eff):
            return lab + "compute_hash() is not the SHA-1 of the manifest (raw manifest first)"
        if eff is None and o["ch"] != "!TypeError":
            return lab + "compute_hash() of an object without manifest"
        # check(): accepted iff the id is the recomputed one and the raw manifest is needed
        if attrs is None:
            want = "!TypeError" if (raw is None or o["id"] == _sha1(raw)) else "!ValueError"
        elif o["id"] != _sha1(eff):
            want = "!ValueError"
        elif raw is not None and o["id"] == _sha1(attrs):
            want = "!ValueError"
        else:
            want = "ok"
        if o["check"] != want:
            if want == "ok":
                return lab + "check() rejects (%s) an object whose id is the hash of its manifest" % o["check"]
            if o["check"] == "ok":
                return lab + ("check() accepts a wrong id %s (recomputed: %s)" % (o["id"], _sha1(eff)) if o["id"] != _sha1(eff)
                              else "check() accepts a raw manifest that the attributes alone reproduce")
            return lab + "check() raised %s instead of %s" % (o["check"], want)
        if tag is not None:
            want_sw = "swh:1:%s:%s" % (tag, o["id"]) if len(o["id"]) == 40 else "!ValidationError"
            if o["swhid"] != want_sw:
                return lab + "swhid() is %s, expected %s" % (o["swhid"], want_sw)
        if o.get("differs"):
            return lab + ("the object differs on %s from the one built from the materialised value (the shape in which a "
                          "container argument is given must not matter)" % ", ".join(o["differs"]))
    return None


def shrink(c):
    if c.get("only") and len(c["only"]) == 1:
        return
    if c["what"] == "ids":
        labels = ["noid", "right", "trunc19", "ext21", "one-byte", "random", "zero", "random40"] + ["flip-%d" % k for k in range(160)]
    else:
        try:
            labels = [st["label"] for st in impl(dict(c, only=None)).get("steps", [])]
        except Exception:
            labels = []
    for l in labels:
        yield dict(c, only=[l])


# ------------------------------------------------------------------ run-time cross-checks of the model's tables
def pre_checks(ctx):
    from . import core
    out = []
    if not os.path.exists(os.path.join(core.BUILD, ID, "driver")):
        return out
    ans = core.run_driver(ID, ["tag " + k for k in KINDS] + ["new %s 41 - ." % k for k in KINDS], shards=1)
    from swh.model import model as M
    for i, kind in enumerate(KINDS):
        cls = _cls(kind)
        if str(getattr(cls, "object_type", None)) != kind and getattr(getattr(cls, "object_type", None), "value", None) != kind:
            out.append(("table:kind-class", "%s.object_type is not %r" % (cls.__name__, kind)))
        mtag = None if ans[i] == "none" else ans[i][3:]
        if mtag != TAGS[kind]:
            out.append(("table:swhid-tag", "model tag of %s is %r, SWHID specification says %r" % (kind, mtag, TAGS[kind])))
        if hasattr(cls, "swhid") != (mtag is not None):
            out.append(("table:swhid-tag", "%s.swhid exists: %s, model tag: %r" % (cls.__name__, hasattr(cls, "swhid"), mtag)))
        model_has_raw = ans[len(KINDS) + i].startswith("ok")
        if model_has_raw != _has_raw(kind):
            out.append(("table:has-raw-field", "%s has raw_manifest field: %s, model: %s" % (cls.__name__, _has_raw(kind), model_has_raw)))
        if issubclass(cls, M.HashableObjectWithManifest) != _has_raw(kind) or not issubclass(cls, M.BaseHashableModel):
            out.append(("table:class-hierarchy", "%s: base classes do not match the raw_manifest field" % cls.__name__))
    return out


# functions of /repo whose executed-line coverage by this run is reported in the evidence
ANCHORS = [('swh/model/model.py', '_compute_hash_from_manifest'),
           ('swh/model/model.py', 'BaseHashableModel.*'),
           ('swh/model/model.py', 'HashableObjectWithManifest.compute_hash'),
           ('swh/model/model.py', 'HashableObjectWithManifest.check')]


COQ_REQS_PER_CASE = 6


def coq_cases(cases):
    """construct / evolve / compute_hash / check / swhid with H := Sha1.sha1 evaluated by vm_compute inside Coq vs the extracted
    driver, on up to 6 of the driver requests of each sampled case (only requests with short manifests: every request
    costs about six executable SHA-1 runs); one checksum per case (extraction cross-check)"""
    from . import core
    per_case = []
    for c in cases:
        ires = impl(c)
        rqs = [r for r in (requests(c, ires) if "error" not in ires else []) if len(r) <= 500]
        rqs = list(dict.fromkeys(rqs))
        step = max(1, len(rqs) // COQ_REQS_PER_CASE)
        per_case.append((c, rqs[::step][:COQ_REQS_PER_CASE]))
    per_case = [(c, r) for c, r in per_case if r]
    cases[:] = [c for c, _ in per_case]       # in place: the evidence's `n` is the number of cases evaluated
    KIND = {"origin": "KOrigin", "snapshot": "KSnapshot", "release": "KRelease", "revision": "KRevision", "directory": "KDirectory",
            "raw_extrinsic_metadata": "KRawExtrinsicMetadata", "extid": "KExtID"}

    def nl(h):
        return "[" + "; ".join("%d" % b for b in core.unhx(h)) + "]%N"
    def ob(s):
        return "None" if s == "-" else "(Some %s)" % nl(s)
    def arg(s):
        return "None" if s == "=" else "(Some %s)" % ob(s)
    def term(rq):
        w = rq.split(" ")
        base = "construct sha1 %s %s %s %s" % (KIND[w[1]], ob(w[2]), arg(w[3]), nl(w[4]))
        if w[0] == "new":
            return "show (%s)" % base
        return ("match %s with Err e => [50%%N; en e] | Ok o => show (evolve sha1 o {| ch_attrs := %s; ch_raw := %s; ch_id := %s |}) end"
                % (base, arg(w[5]), arg(w[6]), "None" if w[7] == "=" else "(Some %s)" % nl(w[7])))
    src = ("From Coq Require Import List NArith.\nFrom SWH.lib Require Import Bytes Sha1.\nFrom SWH.model Require Import Ident.\n"
           "Import ListNotations.\n" + core.COQ_CHECKSUM + """
Definition en (e : err) : N := match e with TypeError => 1 | ValueError => 2 | ValidationError => 3 | AttributeError => 4 end%N.
Definition show (r : result hobj) : list N := match r with
  | Err e => [en e]
  | Ok o => [60%N] ++ h_id o ++ [330%N] ++ match compute_hash sha1 o with Ok h => h | Err e => [331%N; en e] end
            ++ [332%N] ++ match check sha1 o with Ok _ => [0%N] | Err e => [en e] end
            ++ [333%N] ++ match swhid o with Ok (t, i) => t ++ [334%N] ++ i | Err e => [335%N; en e] end end.
""" + "Definition cases : list (list (list N)) := [" +
           ";\n ".join("[" + ";\n  ".join(term(r) for r in rqs) + "]" for _, rqs in per_case) + "].\n"
           "Eval vm_compute in map (fun rs => cksum (map cksum rs)) cases.\n")
    EN = {"TypeError": 1, "ValueError": 2, "ValidationError": 3, "AttributeError": 4}
    def answer(r):
        w = r.split(" ")
        if w[0] == "err":
            return [50, EN[w[2]]] if w[1] == "base" else [EN[w[1]]]
        _, i, ch, ck, sw = w
        l = [60] + list(core.unhx(i)) + [330] + ([331, EN[ch[1:]]] if ch.startswith("!") else list(core.unhx(ch)))
        l += [332] + ([0] if ck == "ok" else [EN[ck[1:]]]) + [333]
        if sw.startswith("!"):
            l += [335, EN[sw[1:]]]
        else:
            t, si = sw.split(":")
            l += list(t.encode("latin1")) + [334] + list(core.unhx(si))
        return l
    flat = [r for _, rqs in per_case for r in rqs]
    resp = iter(core.run_driver(ID, flat))
    exp = [core.py_cksum([core.py_cksum(answer(next(resp))) for _ in rqs]) for _, rqs in per_case]
    return src, exp
