"""C08 - SWHID text round trip (swh/model/swhids.py).

Tie: every generated value (CoreSWHID / ExtendedSWHID / QualifiedSWHID built
through the real constructors) is printed with str(), parsed back with
from_string(), and the same is done in the extracted model (coq/model/Swhid.v:
mk_*, print_*, parse_*).  Compared: constructor outcome, the printed text, the
parsed-back field values, to_extended()/to_qualified().  The property
predicate is evaluated directly on the implementation (oracle): printed text in
the documented grammar (extracted recogniser lang_* + an independent Python
regex), from_string(str(v)) == v, conversions keep text and id.

Numbers: line numbers travel as small expressions ("123", "-5", "10^4300",
"10^4300-1") because the interpreter itself refuses decimal conversions beyond
sys.get_int_max_str_digits() - that limit is read here and passed to the
model in every request.
"""
import re
import sys

from . import core as K

ID = "C08"
PROPS = "Props/C08.v"
EXTRACT = "extract/ExC08.v"
OBLIGATION = "swhid-roundtrip"
THEOREMS = ["C08_core_roundtrip", "C08_ext_roundtrip", "C08_qualified_roundtrip", "C08_grammar", "C08_grammar_shape", "C08_conversions", "C08_explicit_namespace_version", "C08_bool_print_refuted_old", "C08_huge_line_refuted", "C08_tables", "C08_satisfiable"]
RULE = ("all 5/7 object types x random 20-byte ids x all 32 qualifier subsets x adversarial origins "
        "(';' '%' '%3B' '%25' '=' '%zz', non-ASCII, astral, lone surrogates, empty, random over a hostile alphabet) x "
        "paths (every single byte value, random bytes, empty, '/'-heavy) x line numbers/ranges (0, equal, reversed, "
        "50-digit, exactly limit digits, 2^31 / 2^32 / 2^63 / 2^64 and 10^10 boundaries, end line 0); plus invalid constructor arguments; every qualified value is printed again (itself, "
        "a twin, a fresh parse) after a caller emptied and polluted the dict returned by qualifiers(); argument shapes: object_type as "
        "str / str subclass / member of the class's enum / member of the OTHER enum, namespace= and scheme_version= left out or given "
        "explicitly (the defaults, and wrong ones: other case, empty, trailing blank, 0, 2, -1, 10^20), bytes / str subclasses for "
        "object_id, path, origin; numbers of another class where an int is declared - bool (0 / 1), an int subclass whose "
        "str() / repr() lie, an IntEnum member for line numbers and scheme_version, a float / Fraction equal to the version - which "
        "must print and round-trip exactly like the plain int and equal their plain twin (same hash); the same id (and ids one byte apart) shared by the value, its visit and its anchor and by consecutive "
        "values of all 7 types (module-level lru_cache of hash_to_hex / hash_to_bytes); every single origin character 0..255 plus "
        "look-alikes of ';' '%', zero-width and non-characters, surrogates, plane ends; origins / paths of 3000-6000 characters; "
        "ill-typed constructor arguments (str / bytearray / memoryview ids, bytes origin, list / 1- / 3-tuple / float / str-pair "
        "lines, Extended / Qualified objects as visit / anchor, unknown and positional arguments): no model for those, the "
        "property is evaluated on whatever the constructor returns; non-trivial = a qualified value with at "
        "least one qualifier whose text needs an escape; distinct = distinct case")
TRUSTED = ["stdlib behaviour as modelled in coq/lib/Utf8.v, coq/lib/Percent.v, coq/model/Swhid.v: re.fullmatch of "
           "SWHID_RE (\\S = complement of str.isspace, table cross-checked each run in C09), str.split/replace/join, "
           "dict last-key-wins, urllib.parse.quote_from_bytes/quote/unquote/unquote_to_bytes, int()/str() with the "
           "interpreter's digit limit, bytes.fromhex/hexlify, attrs converters+validators order"]
ASSUMPTIONS = ["20-byte ids; visit/anchor are valid CoreSWHID objects; line numbers >= 0 with at most "
               "sys.get_int_max_str_digits() digits (beyond: known finding int-max-str-digits)",
               "origins containing whitespace are outside C08's stated domain: generated, but only tied in C09",
               "a scheme_version that compares equal to 1 without being a real number (complex(1, 0) passes the validator, "
               "then str() raises TypeError) is not generated: reported, outside the annotated type"]

CORE_TYPES = ["snp", "rel", "rev", "dir", "cnt"]
EXT_TYPES = CORE_TYPES + ["ori", "emd"]
LIM = sys.get_int_max_str_digits()


# ---------------------------------------------------------------- wire helpers (shared with c09.py)
def cps(s):
    return [ord(c) for c in s]


def uncps(l):
    return "".join(chr(c) for c in l)


def tok_text(l):
    if l is None:
        return "-"
    return ",".join(str(c) for c in l) if l else "."


def untok_text(t):
    if t == "-":
        return None
    if t == ".":
        return []
    return [int(x) for x in t.split(",")]


def tok_hex(h):
    if h is None:
        return "-"
    return h if h else "."


def untok_hex(t):
    if t == "-":
        return None
    return "" if t == "." else t


def tok_core(c):
    return "-" if c is None else "%s:%s" % (c[0] or ".", tok_hex(c[1]))


def untok_core(t):
    if t == "-":
        return None
    ty, h = t.split(":")
    return [ty, untok_hex(h)]


def num_value(e):
    """'123' | '-5' | '10^K' | '10^K-1'  -> int"""
    if e.startswith("10^"):
        if e.endswith("-1"):
            return 10 ** int(e[3:-2]) - 1
        return 10 ** int(e[3:])
    return int(e)


def num_decimal(e):
    """decimal text of a number expression, without int->str"""
    if e.startswith("10^"):
        if e.endswith("-1"):
            return "9" * int(e[3:-2])
        return "1" + "0" * int(e[3:])
    return e


def num_digits(e):
    return len(num_decimal(e).lstrip("-"))


def tok_lines(l):
    if l is None:
        return "-"
    return num_decimal(l[0]) if l[1] is None else num_decimal(l[0]) + ":" + num_decimal(l[1])


def untok_lines(t):
    if t == "-":
        return None
    p = t.split(":")
    return [p[0], p[1] if len(p) > 1 else None]


def untok_q(t):
    ty, oid, origin, visit, anchor, path, lines = t.split("/")
    return {"ty": ty, "oid": untok_hex(oid), "origin": untok_text(origin), "visit": untok_core(visit),
            "anchor": untok_core(anchor), "path": untok_hex(path), "lines": untok_lines(lines)}


def untok_res(t, dec):
    if t.startswith("ok="):
        return {"ok": dec(t[3:])}
    if t.startswith("err="):
        return {"error": t[4:]}
    if t == "-":
        return None
    raise ValueError("bad result token " + t[:80])


def fields_core(v):
    return [v.object_type.value, v.object_id.hex()]


def fields_q(v):
    def dec(n):
        return None if n is None else str(n)
    return {"ty": v.object_type.value, "oid": v.object_id.hex(),
            "origin": None if v.origin is None else cps(v.origin),
            "visit": None if v.visit is None else fields_core(v.visit),
            "anchor": None if v.anchor is None else fields_core(v.anchor),
            "path": None if v.path is None else v.path.hex(),
            "lines": None if v.lines is None else [dec(v.lines[0]), dec(v.lines[1])]}


def kv(resp):
    return dict(tok.split("=", 1) for tok in resp.split(" "))


# ---------------------------------------------------------------- generation
WS = [9, 10, 11, 12, 13, 28, 29, 30, 31, 32, 133, 160, 5760] + list(range(8192, 8203)) + [8232, 8233, 8239, 8287, 12288]

ORIGINS = ["https://example.org/repo.git", "a;b", "a%b", "%3B", "%25", "a=b;c=d", "%zz", "%", "%%", ";", ";;", "%3", "%3b",
           "%253B", "é", "日本語/リポ", "\U0001f600", "\ud800", "\udfff", "\ud800%41", "�", "%C3é", "é%é;", "%C3%A9",
           "%E2%82", "%F0%9F%98%80", "x%ED%A0%80", "", "=", "http://h/?a=1&b=%20", "%c3%28", "é;%;é", "~_.-/:@!$&'()*+,"]
WS_ORIGINS = ["a b", " ", "\u3000x", "a\tb", "x\u00a0", "\u2028", "\x85%C2", "\u00e9\u2003\u00e9", "a\nb", "\x1c;%"]
ALPHA = [ord(c) for c in "a;%=3B25/:-"] + [0xE9, 0x20AC, 0x1F600, 0xD800, 0xFFFD, 0xC3]


def rand_oid(rng):
    r = rng.random()
    if r < 0.05:
        return "00" * 20
    if r < 0.1:
        return "ff" * 20
    return bytes(rng.randrange(256) for _ in range(20)).hex()


def _tok_origins():
    """origins built from literals harvested from the code under test (a special case keyed on a literal - an origin that
    starts with 'swh:', a scheme that is refused - is exercised even when the literal is new)"""
    from .gitobj_common import source_tokens
    out = []
    for t in source_tokens("str"):
        if t and not any(ch.isspace() for ch in t):
            out += [t, t + "example.org/r", "https://example.org/" + t, t + ":x"]
    return out


def rand_origin(rng):
    r = rng.random()
    if r < 0.1:
        return cps(rng.choice(_tok_origins()))
    if r < 0.55:
        return cps(rng.choice(ORIGINS))
    return [rng.choice(ALPHA) for _ in range(rng.randrange(0, 13))]


def rand_path(rng):
    r = rng.random()
    if r < 0.25:
        return bytes([rng.randrange(256)]).hex()
    if r < 0.35:
        return ""
    if r < 0.55:
        return ("/" + "/".join(rng.choice(["src", "a b", "é".encode().decode("latin1"), "%41", "x;y=z", "~", "."])
                               for _ in range(rng.randrange(1, 5)))).encode("latin1").hex()
    return bytes(rng.randrange(256) for _ in range(rng.randrange(1, 24))).hex()


def rand_lines(rng):
    r = rng.random()
    if r < 0.08:      # constants of the code under test (limits a change introduces) and their neighbours
        from .gitobj_common import source_ints
        c = [v for v in source_ints() if v >= 0]
        a = rng.choice(c)
        return [str(a), rng.choice([None, str(rng.choice(c)), str(a)])]
    if r < 0.2:
        return ["0", None]
    if r < 0.3:
        return ["0", "0"]
    if r < 0.5:
        a, b = rng.randrange(0, 1000), rng.randrange(0, 1000)
        return [str(a), str(b)]
    if r < 0.6:
        return ["10", "5"]
    if r < 0.8:
        return [str(rng.randrange(0, 10 ** rng.randrange(1, 30))), None]
    return ["10^50", "10^50-1"]


def q_case(rng, ty, mask, origin=None, path=None, lines=None):
    c = {"k": "q", "ty": ty, "oid": rand_oid(rng), "origin": None, "visit": None, "anchor": None,
         "path": None, "lines": None}
    if mask & 1:
        c["origin"] = origin if origin is not None else rand_origin(rng)
    if mask & 2:
        c["visit"] = ["snp", rand_oid(rng)]
    if mask & 4:
        c["anchor"] = [rng.choice(["dir", "rev", "rel", "snp"]), rand_oid(rng)]
    if mask & 8:
        c["path"] = path if path is not None else rand_path(rng)
    if mask & 16:
        c["lines"] = lines if lines is not None else rand_lines(rng)
    return c


def gen(rng, tier):
    cases = []
    # core / extended: every type, several ids; wrong types and id lengths
    for ty in EXT_TYPES:
        for cls in ("core", "ext"):
            for _ in range(3 if tier == "quick" else 40):
                cases.append({"k": cls, "ty": ty, "oid": rand_oid(rng)})
    for cls in ("core", "ext"):
        for ty, oid in (("cnt", "00" * 19), ("cnt", "00" * 21), ("cnt", ""), ("xyz", "00" * 20), ("CNT", "00" * 20),
                        ("", "00" * 20), ("ori", "00" * 19)):
            cases.append({"k": cls, "ty": ty, "oid": oid})
    # qualified: every subset x every type, hand-picked origins, every path byte
    for ty in CORE_TYPES:
        for mask in range(32):
            cases.append(q_case(rng, ty, mask))
    for o in ORIGINS + WS_ORIGINS:
        cases.append(q_case(rng, rng.choice(CORE_TYPES), 1, origin=cps(o)))
        cases.append(q_case(rng, rng.choice(CORE_TYPES), 31, origin=cps(o)))
    for b in range(256):
        cases.append(q_case(rng, "cnt", 8, path=bytes([b]).hex()))
        if tier == "thorough":
            for mask in range(8, 32, 1):
                if mask & 8:
                    cases.append(q_case(rng, rng.choice(CORE_TYPES), mask, path=(b"/x" + bytes([b]) + b"y").hex()))
    for ln in (["0", None], ["0", "0"], ["10", "5"], ["10^50", None], ["7", "10^50-1"],
               ["10^%d-1" % LIM, None], ["3", "10^%d-1" % LIM],        # exactly LIM digits: still printable
               ["10^%d" % LIM, None], ["1", "10^%d" % LIM],            # LIM+1 digits: known finding
               ["7", "0"], ["0", "7"], ["1", "1"], ["9999999999", "10000000000"],                 # falsy end; 10 / 11 digits
               ["2147483647", "2147483648"], ["4294967295", "4294967296"],                       # machine-word boundaries
               ["9223372036854775807", "9223372036854775808"], ["18446744073709551615", "18446744073709551616"],
               ["-1", None], ["-3", "-1"], ["1", "-2"]):               # negative: outside the domain
        cases.append(q_case(rng, "cnt", 16, lines=ln))
        cases.append(q_case(rng, "dir", 31, lines=ln))
    # invalid constructor arguments
    bad = q_case(rng, "cnt", 31)
    for upd in ({"oid": "00" * 19}, {"oid": "00" * 21}, {"ty": "ori"}, {"ty": "xyz"}, {"visit": ["cnt", "00" * 20]},
                {"visit": ["rev", "11" * 20]}, {"anchor": ["cnt", "00" * 20]}, {"ty": "emd", "oid": "00"}):
        c = dict(bad)
        c.update(upd)
        cases.append(c)
    n = 2500 if tier == "quick" else 150000
    for i in range(n):
        cases.append(q_case(rng, CORE_TYPES[i % 5], rng.randrange(32) if i % 3 else 31))
    cases += shapes(rng, tier)
    return cases


# ---------------------------------------------------------------- argument shapes, shared ids, long values, ill-typed arguments
NSVER = [("swh", "1"), ("swh", None), (None, "1"),                                        # the defaults, spelled out
         ("SWH", None), ("", None), ("swh ", None), (" swh", None), ("swh:1", None), ("sw", None), ("swhh", None),
         ("ＳＷＨ", None), (None, "0"), (None, "2"), (None, "-1"), (None, "10"), (None, "11"), (None, "10^20"),
         ("swh", "2"), ("foo", "1"), ("foo", "2")]
ORIGIN_CPS = [0x100, 0x17F, 0x300, 0x37E, 0x387, 0x61B, 0x204F, 0xFE54, 0xFE6A, 0xFF05, 0xFF1B, 0x66A, 0x200B, 0x200C, 0x200D,
              0x2060, 0xFEFF, 0xFFFD, 0xFFFE, 0xFFFF, 0xD7FF, 0xD800, 0xDBFF, 0xDC00, 0xDFFF, 0xE000, 0x10000, 0x1F600, 0x1FFFF,
              0xE0001, 0x10FFFF]
ILL = [(k, w) for k in ("core", "ext", "q")
       for w in ("oid-str20", "oid-str40", "oid-bytearray", "oid-memoryview", "oid-none", "oid-list", "oid-int", "ty-int", "ty-none",
                 "ty-bytes", "unknown-kw", "positional")]
ILL += [("core", "origin-kw"), ("ext", "origin-kw"), ("ext", "lines-kw")]
ILL += [("q", w) for w in ("origin-bytes", "origin-int", "origin-list", "path-int", "path-memoryview", "path-bytearray",
                           "path-bytearray-pct", "path-list", "lines-list", "lines-1tuple", "lines-3tuple", "lines-empty-tuple",
                           "lines-int", "lines-float", "lines-strs", "lines-none-first", "lines-bytes", "lines-nested",
                           "visit-ext", "visit-q", "visit-bytes", "visit-int", "anchor-q", "anchor-ext", "anchor-bytes",
                           "anchor-tuple")]


def near(rng, oid):
    """an id one byte (one bit, half of the time) away"""
    b = bytearray.fromhex(oid)
    i = rng.choice([0, 1, 9, 18, 19, rng.randrange(20)])
    b[i] ^= (1 << rng.randrange(8)) if rng.random() < 0.5 else rng.randrange(1, 256)
    return bytes(b).hex()


def shapes(rng, tier):
    out = []
    thorough = tier == "thorough"
    # object_type: member of the class's enum, str subclass, member of the other enum
    for cls, types in (("core", CORE_TYPES), ("ext", EXT_TYPES), ("q", CORE_TYPES)):
        for ty in types:
            for how in ("enum", "strsub", "foreign"):
                if how == "foreign" and ty not in CORE_TYPES:
                    continue                                     # ObjectType has no such member
                c = q_case(rng, ty, rng.choice([0, 31, rng.randrange(32)])) if cls == "q" else {"k": cls, "ty": ty, "oid": rand_oid(rng)}
                c["ty_as"] = how
                out.append(c)
    for ty in ("ori", "emd"):                                    # extended-only members handed to the core classes
        out.append({"k": "core", "ty": ty, "oid": rand_oid(rng), "ty_as": "foreign"})
        c = q_case(rng, ty, 31)
        c["ty_as"] = "foreign"
        out.append(c)
    # namespace / scheme_version left out or given explicitly
    for ns, ver in NSVER:
        for cls in ("core", "ext", "q"):
            c = q_case(rng, rng.choice(CORE_TYPES), rng.choice([0, 31])) if cls == "q" else {"k": cls, "ty": rng.choice(CORE_TYPES),
                                                                                             "oid": rand_oid(rng)}
            if ns is not None:
                c["ns"] = ns
            if ver is not None:
                c["ver"] = ver
            out.append(c)
    bad = {"k": "core", "ty": "xyz", "oid": "00" * 20, "ns": "foo"}           # converter error comes before the validators
    out += [bad, dict(bad, k="ext"), dict(bad, ty="cnt", oid="00" * 19), dict(q_case(rng, "xyz", 31), ns="foo", ver="2")]
    # numbers of another class where an int is declared (bool is an int for the validators; True == 1)
    for ln in (["1", None], ["0", None], ["1", "0"], ["0", "1"], ["1", "1"], ["0", "0"]):
        for mask in (16, 31):
            for how in ("bool", "bool-first", "bool-second"):
                if how == "bool-second" and ln[1] is None:
                    continue
                out.append(dict(q_case(rng, rng.choice(CORE_TYPES), mask, lines=ln), lines_as=how))
    for i in range(60 if thorough else 10):
        for how in ("intsub", "intenum"):
            out.append(dict(q_case(rng, CORE_TYPES[i % 5], rng.choice([16, 31, 16 + rng.randrange(16)])), lines_as=how))
    for how in ("intsub", "intenum"):
        for ln in (["0", None], ["0", "0"], ["10^50", "7"], ["10^%d-1" % LIM, None], ["10^%d" % LIM, None]):
            out.append(dict(q_case(rng, "cnt", 16, lines=ln), lines_as=how))
    for cls in ("core", "ext", "q"):
        for ver, hows in (("1", ("bool", "float", "intsub", "intenum", "fraction")), ("0", ("bool", "float", "intsub")),
                          ("2", ("float", "intenum")), ("-1", ("float", "intsub")), ("10^20", ("float", "intsub"))):
            for how in hows:
                c = q_case(rng, rng.choice(CORE_TYPES), rng.choice([0, 31])) if cls == "q" else {"k": cls, "ty": rng.choice(CORE_TYPES),
                                                                                                 "oid": rand_oid(rng)}
                c["ver"], c["ver_as"] = ver, how
                if cls == "q" and c["lines"] is not None and how == "bool":
                    c["lines"], c["lines_as"] = ["1", "0"], "bool"
                out.append(c)
    # bytes / str subclasses
    for i in range(40 if thorough else 12):
        c = q_case(rng, CORE_TYPES[i % 5], 31 if i % 2 else rng.randrange(32))
        c["sub"] = True
        if i % 2:                                                # values a str-route converter would rewrite
            c["path"] = (b"/a%41;%zz%\xff" + bytes([rng.randrange(256)])).hex()
            c["origin"] = cps("a%41;b%3B%zz+" + chr(rng.choice(ALPHA)))
        if i % 4 == 0:
            c["ns"], c["ver"] = "swh", "1"
        out.append(c)
        out.append({"k": ("core", "ext")[i % 2], "ty": CORE_TYPES[i % 5], "oid": rand_oid(rng), "sub": True})
    # one id for everything / ids one byte apart (hash_to_hex and hash_to_bytes are memoised per process)
    for i in range(400 if thorough else 20):
        oid = rand_oid(rng)
        for ty in rng.sample(EXT_TYPES, 7):
            out.append({"k": "ext", "ty": ty, "oid": oid})
            if ty in CORE_TYPES:
                out.append({"k": "core", "ty": ty, "oid": oid if rng.random() < 0.5 else near(rng, oid)})
        for mask in (6, 31, 14):
            c = q_case(rng, rng.choice(CORE_TYPES), mask)
            c["oid"] = oid
            c["visit"][1] = rng.choice([oid, near(rng, oid)])
            c["anchor"][1] = rng.choice([oid, near(rng, oid), c["visit"][1]])
            c["anchor"][0] = rng.choice(["snp", "dir", "rev", "rel"])
            out.append(c)
    # every single origin character
    cps_ = [x for x in list(range(256)) + ORIGIN_CPS + ([rng.randrange(0x110000) for _ in range(3000)] if thorough else [])
            if x not in WS]
    for x in cps_:
        out.append(q_case(rng, rng.choice(CORE_TYPES), 1, origin=[x]))
        out.append(q_case(rng, rng.choice(CORE_TYPES), rng.choice([1, 9, 31]), origin=[97, x, 37, 51, 66, x]))
    # long values
    for n in ((3000, 6000) if not thorough else (3000, 6000, 20000, 60000)):
        o = [rng.choice(ALPHA + [0x2F, 0x61, 0x2B]) for _ in range(n)]
        pth = bytes(rng.randrange(256) for _ in range(n)).hex()
        out.append(q_case(rng, "cnt", 1, origin=o))
        out.append(q_case(rng, "dir", 8, path=pth))
        out.append(q_case(rng, "rev", 31, origin=o[:n // 2], path=pth[:n]))
        out.append(q_case(rng, "rel", 8, path=(b";%" * (n // 2)).hex()))
    # ill-typed arguments
    for cls, what in ILL:
        out.append({"k": "ill", "cls": cls, "what": what, "oid": rand_oid(rng)})
    return out


# ---------------------------------------------------------------- classification
def _needs_escape(c):
    if c["k"] != "q":
        return False
    o, p = c.get("origin"), c.get("path")
    if o and any(x in (37, 59) or x in WS for x in o):
        return True
    if p:
        safe = b"ABCDEFGHIJKLMNOPQRSTUVWXYZabcdefghijklmnopqrstuvwxyz0123456789_.-~/"
        return any(b not in safe for b in bytes.fromhex(p))
    return False


def origin_has_ws(c):
    return c["k"] == "q" and bool(c.get("origin")) and any(x in WS for x in c["origin"])


def lines_nums(c):
    if c["k"] != "q" or not c.get("lines"):
        return []
    return [x for x in c["lines"] if x is not None]


def over_limit(c):
    return LIM > 0 and any(num_digits(x) > LIM for x in lines_nums(c))


def negative_lines(c):
    return any(x.startswith("-") for x in lines_nums(c))


def nontrivial(c):
    return _needs_escape(c)


def nv_given(c):
    return "ns" in c or "ver" in c


def shape_keys(c):
    ks = []
    if c.get("ty_as", "str") != "str":
        ks.append("object_type-as-" + c["ty_as"])
    if nv_given(c):
        ks.append("namespace/version-explicit-" + ("default" if c.get("ns", "swh") == "swh" and c.get("ver", "1") == "1" else "other"))
    if c.get("sub"):
        ks.append("bytes/str-subclass-arguments")
    if c.get("lines_as") or c.get("ver_as"):
        ks.append("number-of-another-class(bool/int-subclass/IntEnum/float)")
    return ks


def classify(c):
    if c["k"] == "ill":
        return ["ill-typed-argument"]
    if c["k"] != "q":
        return ["class=" + c["k"]] + shape_keys(c)
    ks = ["class=q", "qualifiers=%d" % sum(1 for k in ("origin", "visit", "anchor", "path", "lines") if c[k] is not None)] + shape_keys(c)
    ids = [c["oid"]] + [c[k][1] for k in ("visit", "anchor") if c[k] is not None]
    if len(ids) > 1 and len(set(ids)) < len(ids):
        ks.append("same-id-in-value-and-visit/anchor")
    if (c["origin"] and len(c["origin"]) >= 1000) or (c["path"] and len(c["path"]) >= 2000):
        ks.append("long-origin/path")
    if _needs_escape(c):
        ks.append("needs-escape")
    if c["origin"] is not None:
        o = c["origin"]
        if not o:
            ks.append("origin-empty")
        if any(x > 127 for x in o):
            ks.append("origin-non-ascii")
        if any(0xD800 <= x < 0xE000 for x in o):
            ks.append("origin-surrogate")
        if origin_has_ws(c):
            ks.append("origin-whitespace(outside C08 domain; tied in C09)")
    if c["path"] is not None and len(c["path"]) == 2:
        ks.append("path-single-byte")
    if over_limit(c):
        ks.append("lines-over-int-limit")
    if negative_lines(c):
        ks.append("lines-negative(outside domain)")
    return ks


# ---------------------------------------------------------------- implementation
class _B(bytes):
    pass


class _S(str):
    pass


class _LyingInt(int):
    """an int subclass whose str() and repr() do not give the decimal"""
    def __str__(self):
        return "<%x>" % int(self)
    __repr__ = __str__


def _num(expr, how):
    """the number `expr` as an object of another class"""
    n = num_value(expr)
    if how == "bool":
        return bool(n) if n in (0, 1) else n
    if how == "intsub":
        return _LyingInt(n)
    if how == "intenum":
        import enum
        return enum.IntEnum("_E", {"MEMBER": n}).MEMBER
    if how == "float":
        return float(n)
    if how == "fraction":
        import fractions
        return fractions.Fraction(n, 1)
    return n


def _lines_arg(c):
    if c["lines"] is None:
        return None
    how = c.get("lines_as")
    a, b = c["lines"]
    ha = how if how in ("bool", "intsub", "intenum", None) else ("bool" if how == "bool-first" else None)
    hb = how if how in ("bool", "intsub", "intenum", None) else ("bool" if how == "bool-second" else None)
    return (_num(a, ha), None if b is None else _num(b, hb))


def plain(c):
    """the same value with every number a plain int"""
    return {k: v for k, v in c.items() if k not in ("lines_as", "ver_as")}


def _ty_arg(c):
    """object_type as the caller spells it: the value (str), a str subclass, a member of the class's enum or of the other one"""
    from swh.model.swhids import ObjectType, ExtendedObjectType
    how = c.get("ty_as", "str")
    if how == "enum":
        return (ExtendedObjectType if c["k"] == "ext" else ObjectType)(c["ty"])
    if how == "foreign":
        return (ObjectType if c["k"] == "ext" else ExtendedObjectType)(c["ty"])
    return _S(c["ty"]) if how == "strsub" else c["ty"]


def ty_token(c):
    """what the model's enum converter is given: a member of the other enum is not a member, not a value: a text outside the table"""
    if c.get("ty_as") == "foreign":
        return ("ObjectType." if c["k"] == "ext" else "ExtendedObjectType.") + c["ty"]
    return c["ty"] or "."


def _build(c):
    from swh.model.swhids import CoreSWHID, ExtendedSWHID, QualifiedSWHID
    sub = c.get("sub")
    by = (lambda h: _B(bytes.fromhex(h))) if sub else bytes.fromhex
    kw = {}
    if "ns" in c:
        kw["namespace"] = _S(c["ns"]) if sub else c["ns"]
    if "ver" in c:
        kw["scheme_version"] = _num(c["ver"], c.get("ver_as"))
    if c["k"] == "core":
        return CoreSWHID(object_type=_ty_arg(c), object_id=by(c["oid"]), **kw)
    if c["k"] == "ext":
        return ExtendedSWHID(object_type=_ty_arg(c), object_id=by(c["oid"]), **kw)

    def mkcore(x):
        return None if x is None else CoreSWHID(object_type=x[0], object_id=by(x[1]))
    lines = _lines_arg(c)
    origin = None if c["origin"] is None else uncps(c["origin"])
    return QualifiedSWHID(object_type=_ty_arg(c), object_id=by(c["oid"]),
                          origin=_S(origin) if sub and origin is not None else origin,
                          visit=mkcore(c["visit"]), anchor=mkcore(c["anchor"]),
                          path=None if c["path"] is None else by(c["path"]), lines=lines, **kw)


def _build_ill(c):
    """a constructor call with an argument of a type the annotations exclude"""
    from swh.model.swhids import CoreSWHID, ExtendedSWHID, QualifiedSWHID
    cls = {"core": CoreSWHID, "ext": ExtendedSWHID, "q": QualifiedSWHID}[c["cls"]]
    oid = bytes.fromhex(c["oid"])
    w = c["what"]
    core = CoreSWHID(object_type="snp", object_id=oid)
    kw = {"object_type": "snp", "object_id": oid}
    if w == "positional":
        return cls("swh", 1, oid, "snp")
    kw.update({
        "oid-str20": {"object_id": c["oid"][:20]}, "oid-str40": {"object_id": c["oid"]}, "oid-bytearray": {"object_id": bytearray(oid)},
        "oid-memoryview": {"object_id": memoryview(oid)}, "oid-none": {"object_id": None}, "oid-list": {"object_id": list(oid)},
        "oid-int": {"object_id": int.from_bytes(oid, "big")}, "ty-int": {"object_type": 1}, "ty-none": {"object_type": None},
        "ty-bytes": {"object_type": b"snp"}, "unknown-kw": {"qualifiers": {}}, "origin-kw": {"origin": "https://e.org"},
        "lines-kw": {"lines": (1, None)}, "origin-bytes": {"origin": b"https://e.org/"}, "origin-int": {"origin": 7},
        "origin-list": {"origin": ["a"]}, "path-int": {"path": 7}, "path-memoryview": {"path": memoryview(b"/a")},
        "path-bytearray": {"path": bytearray(b"/a;b")}, "path-bytearray-pct": {"path": bytearray(b"/a%41")}, "path-list": {"path": [47]},
        "lines-list": {"lines": [1, 2]}, "lines-1tuple": {"lines": (1,)}, "lines-3tuple": {"lines": (1, 2, 3)},
        "lines-empty-tuple": {"lines": ()}, "lines-int": {"lines": 5}, "lines-float": {"lines": (1.0, None)},
        "lines-strs": {"lines": ("1", "2")}, "lines-none-first": {"lines": (None, 1)}, "lines-bytes": {"lines": b"1-2"},
        "lines-nested": {"lines": ((1, 2), None)},
        "visit-ext": {"visit": ExtendedSWHID(object_type="snp", object_id=oid)},
        "visit-q": {"visit": QualifiedSWHID(object_type="snp", object_id=oid)}, "visit-bytes": {"visit": str(core).encode()},
        "visit-int": {"visit": 0}, "anchor-q": {"anchor": QualifiedSWHID(object_type="snp", object_id=oid)},
        "anchor-ext": {"anchor": ExtendedSWHID(object_type="snp", object_id=oid)}, "anchor-bytes": {"anchor": str(core).encode()},
        "anchor-tuple": {"anchor": ("snp", oid)}}[w])
    return cls(**kw)


def impl_ill(c):
    from swh.model.swhids import CoreSWHID, ExtendedSWHID, QualifiedSWHID
    b = _attempt(lambda: _build_ill(c))
    if "error" in b:
        return {"mkerr": b["error"]}
    v = b["ok"]
    res = {"built": True}
    p = _attempt(lambda: str(v))
    res["print"] = {"ok": cps(p["ok"])} if "ok" in p and isinstance(p["ok"], str) else {"error": p.get("error", "str() did not return a str")}
    if "ok" in res["print"]:
        r = _attempt(lambda: type(v).from_string(p["ok"]))
        res["eq"] = "ok" in r and r["ok"] == v and _attempt(lambda: hash(r["ok"]) == hash(v)).get("ok") is True
    return res


def _attempt(f):
    try:
        return {"ok": f()}
    except Exception as e:
        return {"error": K.exc_class(e)}


def impl(c):
    from swh.model.swhids import CoreSWHID, ExtendedSWHID, QualifiedSWHID
    if c["k"] == "ill":
        return impl_ill(c)
    cls = {"core": CoreSWHID, "ext": ExtendedSWHID, "q": QualifiedSWHID}[c["k"]]
    fields = fields_q if c["k"] == "q" else fields_core
    b = _attempt(lambda: _build(c))
    if "error" in b:
        return {"mkerr": b["error"]}
    v = b["ok"]
    res = {}
    p = _attempt(lambda: str(v))
    res["print"] = {"ok": cps(p["ok"])} if "ok" in p else p
    if "ok" in p:
        r = _attempt(lambda: cls.from_string(p["ok"]))
        if "ok" in r:
            res["parsed"] = {"ok": fields(r["ok"])}
            res["eq"] = (r["ok"] == v) and (hash(r["ok"]) == hash(v))
        else:
            res["parsed"] = r
    else:
        res["parsed"] = None
    if c["k"] == "q" and "ok" in p:
        # a caller that uses (and edits) what the accessors hand out - the qualifiers() dict, e.g. to build a URL without the
        # origin - must not change what the value, an equal value or a later parse prints
        def _again():
            d = v.qualifiers()
            if isinstance(d, dict):
                for k in list(d):
                    d.pop(k)
                d["junk"] = "x y;z"
            twin = _build(c)
            reparsed = cls.from_string(p["ok"])
            return [str(v), str(twin), str(reparsed), str(cls.from_string(str(v)))]
        a = _attempt(_again)
        res["print_again"] = {"ok": [cps(t) for t in a["ok"]]} if "ok" in a else a
    if c.get("lines_as") or c.get("ver_as"):
        def _twin():
            t = _build(plain(c))
            return [t == v and v == t, hash(t) == hash(v), cps(str(t))]
        res["plain_twin"] = _attempt(_twin)
    if c["k"] == "core":
        x = _attempt(lambda: v.to_extended())
        res["ext"] = {"ok": fields_core(x["ok"])} if "ok" in x else x
        res["ext_print"] = cps(str(x["ok"])) if "ok" in x else None
        q = _attempt(lambda: v.to_qualified())
        res["q"] = {"ok": fields_q(q["ok"])} if "ok" in q else q
        res["q_print"] = {"ok": cps(str(q["ok"]))} if "ok" in q else None
    return res


# ---------------------------------------------------------------- model
def requests(c):
    if c["k"] == "ill":
        return []                     # the model is typed: it has no such argument
    ns = tok_text(cps(c["ns"])) if "ns" in c else "-"
    ver = num_decimal(c["ver"]) if "ver" in c else "-"
    if c["k"] in ("core", "ext"):
        reqs = ["c %s %s %s %s %s" % (c["k"], ns, ver, ty_token(c), tok_hex(c["oid"]))]
    else:
        reqs = ["q %d %s %s %s %s %s %s %s %s %s" % (LIM, ns, ver, ty_token(c), tok_hex(c["oid"]), tok_text(c["origin"]),
                                                       tok_core(c["visit"]), tok_core(c["anchor"]), tok_hex(c["path"]),
                                                       tok_lines(c["lines"]))]
    r = impl(c)                       # the recogniser is applied to the implementation's own text
    p = (r.get("print") or {}).get("ok")
    c["_lang"] = p is not None
    if p is not None:
        reqs.append("lang %s %s" % (c["k"], tok_text(p)))
    return reqs


def model(c, resp):
    if c["k"] == "ill":
        return {}
    has_lang = c.pop("_lang", False)
    r0 = resp[0]
    if r0.startswith("err"):
        return {"model_error": r0}
    d = kv(r0)
    if "mkerr" in d:
        return {"mkerr": d["mkerr"]}
    res = {}
    if c["k"] in ("core", "ext"):
        res["print"] = {"ok": untok_text(d["P"])}
        res["parsed"] = untok_res(d["R"], untok_core)
        if c["k"] == "core":
            res["ext"] = untok_res(d["X"], untok_core)
            res["ext_print"] = untok_text(d["XP"])
            res["q"] = untok_res(d["Q"], untok_q)
            res["q_print"] = untok_res(d["QP"], untok_text)
    else:
        res["print"] = untok_res(d["P"], untok_text)
        res["parsed"] = untok_res(d["R"], untok_q)
    if has_lang:
        res["lang"] = resp[1]
    return res


# ---------------------------------------------------------------- property and comparison
_HEX = "[0-9a-f]{40}"
_ESC = r"(?:[^;%\s]|%[0-9A-Fa-f]{2})*"
GRAMMAR = re.compile(
    "swh:1:(?:snp|rel|rev|dir|cnt):" + _HEX
    + "(?:;origin=" + _ESC + ")?"
    + "(?:;visit=swh:1:snp:" + _HEX + ")?"
    + "(?:;anchor=swh:1:(?:dir|rev|rel|snp):" + _HEX + ")?"
    + "(?:;path=" + _ESC + ")?"
    + "(?:;lines=[0-9]+(?:-[0-9]+)?)?")
GRAMMAR_EXT = re.compile("swh:1:(?:snp|rel|rev|dir|cnt|ori|emd):" + _HEX)


def expected_fields(c):
    if c["k"] != "q":
        return [c["ty"], c["oid"]]
    ln = c["lines"]
    return {"ty": c["ty"], "oid": c["oid"], "origin": c["origin"], "visit": c["visit"], "anchor": c["anchor"],
            "path": c["path"],
            "lines": None if ln is None else [num_decimal(ln[0]), None if ln[1] is None else num_decimal(ln[1])]}


def oracle(c, ires, mres):
    """C08 on the implementation: only for values of the property's domain"""
    if "mkerr" in ires:
        return None                                   # not a SWHID value
    if c["k"] == "ill":
        # the constructor took an argument of another type and returned an instance: that instance is a SWHID value
        what = "%s(...) with %s" % ({"core": "CoreSWHID", "ext": "ExtendedSWHID", "q": "QualifiedSWHID"}[c["cls"]], c["what"])
        p = ires["print"]
        if "ok" not in p:
            return what + " returned a value whose str() raised " + p.get("error", "?")
        text = uncps(p["ok"])
        if not (GRAMMAR_EXT if c["cls"] == "ext" else GRAMMAR).fullmatch(text):
            return what + " returned a value whose text is outside the documented grammar: %r" % text[:200]
        if not ires.get("eq"):
            return what + " returned a value v with from_string(str(v)) != v: %r" % text[:200]
        return None
    if negative_lines(c) or origin_has_ws(c):
        return None                                   # outside the stated domain
    p = ires["print"]
    if "ok" not in p:
        return "str() of a valid SWHID value raised " + p.get("error", "?")
    text = uncps(p["ok"])
    g = GRAMMAR_EXT if c["k"] == "ext" else GRAMMAR
    if not g.fullmatch(text):
        return "printed text is outside the documented grammar / qualifier order / escaping: %r" % text[:200]
    if mres.get("lang") != "t":
        return "the extracted recogniser of the documented language rejects the printed text: %r" % text[:200]
    r = ires["parsed"]
    if "ok" not in r:
        return "from_string(str(v)) raised " + r.get("error", "?")
    if r["ok"] != expected_fields(c):
        return "from_string(str(v)) has different field values: %r" % (r["ok"],)
    if not ires.get("eq"):
        return "from_string(str(v)) != v (or hashes differ)"
    tw = ires.get("plain_twin")
    if tw is not None:
        if "ok" not in tw:
            return "the same value with plain ints cannot be built / printed: " + tw.get("error", "?")
        if not tw["ok"][0] or not tw["ok"][1]:
            return "a value whose numbers are bools / int subclasses / a float version is not equal to (or hashes unlike) its plain-int twin"
        if tw["ok"][2] != p["ok"]:
            return "a value whose numbers are bools / int subclasses / a float version prints unlike its plain-int twin: %r" % text[:200]
    pa = ires.get("print_again")
    if pa is not None:
        if "ok" not in pa:
            return "printing again after a caller edited the dict returned by qualifiers() raised " + pa.get("error", "?")
        if any(t != p["ok"] for t in pa["ok"]):
            return ("after a caller edited the dict returned by qualifiers(), the value / an equal value / a fresh parse of the "
                    "printed text no longer print the same text: %r" % [uncps(t)[:120] for t in pa["ok"] if t != p["ok"]][:2])
    if c["k"] == "core":
        if ires["ext"].get("ok") != [c["ty"], c["oid"]] or ires["ext_print"] != p["ok"]:
            return "to_extended() changes the text or the id"
        q = ires["q"].get("ok")
        if not q or q["ty"] != c["ty"] or q["oid"] != c["oid"] or (ires["q_print"] or {}).get("ok") != p["ok"] \
                or any(q[k] is not None for k in ("origin", "visit", "anchor", "path", "lines")):
            return "to_qualified() changes the text or the id"
    return None


def compare(c, ires, mres):
    if c["k"] == "ill":
        return None            # no model of ill-typed arguments: the oracle alone judges what the constructor returned
    if "model_error" in mres:
        return "model/driver failed: " + str(mres)[:300]
    if origin_has_ws(c):
        return None            # whitespace origins are tied (strictly) by the C09 stream
    keys = ["mkerr", "print", "parsed"] + (["ext", "ext_print", "q", "q_print"] if c["k"] == "core" else [])
    for k in keys:
        if ires.get(k) != mres.get(k):
            return "%s differs: implementation %s, model %s" % (k, K.canon(ires.get(k))[:300], K.canon(mres.get(k))[:300])
    return None


def finding_key(c, ires, mres):
    if over_limit(c):
        return "int-max-str-digits"
    return None


def shrink(c):
    if c["k"] != "q":
        return
    for k in ("origin", "visit", "anchor", "path", "lines"):
        if c[k] is not None:
            d = dict(c)
            d[k] = None
            yield d
    if c["origin"]:
        for i in range(len(c["origin"])):
            d = dict(c)
            d["origin"] = c["origin"][:i] + c["origin"][i + 1:]
            yield d
    if c["path"]:
        for i in range(0, len(c["path"]), 2):
            d = dict(c)
            d["path"] = c["path"][:i] + c["path"][i + 2:]
            yield d


# functions of /repo whose executed-line coverage by this run is reported in the evidence
ANCHORS = [('swh/model/swhids.py', '_BaseSWHID.*'),
           ('swh/model/swhids.py', 'CoreSWHID.*'),
           ('swh/model/swhids.py', 'QualifiedSWHID.*'),
           ('swh/model/swhids.py', '_parse_swhid'),
           ('swh/model/swhids.py', '_parse_core_swhid'),
           ('swh/model/swhids.py', '_parse_lines_qualifier'),
           ('swh/model/swhids.py', '_parse_path_qualifier'),
           ('swh/model/hashutil.py', 'hash_to_hex'),
           ('swh/model/hashutil.py', 'hash_to_bytes')]


# the case stream is ordered by family: coq_cases gets every case and keeps a spread of each family (it shrinks the list it
# is given IN PLACE: the evidence's `n` is the number evaluated)
COQ_SAMPLE = 1 << 30


def coq_cases(cases):
    """mk_core_nv / mk_ext_nv / mk_q_nv (the constructors with namespace / scheme_version left out or given), print_core / print_q, parse_core / parse_ext / parse_q, to_extended / to_qualified and the
    recognisers lang_core / lang_ext / lang_q evaluated by vm_compute inside Coq vs the extracted driver; one checksum per case
    over its driver requests.  The Coq terms are built from the very request lines the driver receives."""
    from . import core
    fam = {"core": [], "ext": [], "q": []}
    for c in cases:
        if c["k"] != "ill":
            fam["q" if c["k"] not in ("core", "ext") else c["k"]].append(c)
    def spread(l, n):
        return l[::max(1, len(l) // n)][:n] if l else []
    shaped = [c for c in cases if c["k"] != "ill" and shape_keys(c)]
    picked = (spread(fam["core"], 6) + spread(fam["ext"], 6) + spread(fam["q"][:900], 20) + spread(fam["q"][900:], 8)
              + spread([c for c in shaped if c["k"] != "q"], 6) + spread([c for c in shaped if c["k"] == "q"], 6))
    chosen = []
    for c in picked:
        rqs = requests(c)             # runs the implementation: the recogniser is applied to the implementation's own text
        c.pop("_lang", None)
        if sum(len(r) for r in rqs) <= 3000:
            chosen.append((c, rqs))
    cases[:] = [c for c, _ in chosen]

    def txt(t):
        return "[" + "; ".join("%d" % x for x in (untok_text(t) or [])) + "]%N"
    def word(w):
        return "[" + ("" if w == "." else "; ".join("%d" % ord(ch) for ch in w)) + "]%N"
    def hexl(h):
        return "[" + "; ".join("%d" % b for b in core.unhx(h)) + "]%N"
    def opt(s, f):
        return "None" if s == "-" else "(Some %s)" % f(s)
    def corel(s):
        t, h = s.split(":")
        return "(mkCore %s %s)" % (word(t), hexl(h))
    def lines(s):
        p = s.split(":")
        return "((%s)%%Z, %s)" % (p[0], "None" if len(p) == 1 else "Some (%s)%%Z" % p[1])
    def optz(s):
        return "None" if s == "-" else "(Some (%s)%%Z)" % s
    def term(rq):
        w = rq.split(" ")
        if w[0] == "c":
            return "c_case %s %s %s %s %s" % ("true" if w[1] == "ext" else "false", opt(w[2], txt), optz(w[3]), word(w[4]), hexl(w[5]))
        if w[0] == "q":
            return "q_case %d%%N %s %s %s %s %s %s %s %s %s" % (int(w[1]), opt(w[2], txt), optz(w[3]), word(w[4]), hexl(w[5]),
                                                               opt(w[6], txt), opt(w[7], corel), opt(w[8], corel), opt(w[9], hexl),
                                                               opt(w[10], lines))
        return "lang_case (%s %s)" % ({"core": "lang_core", "ext": "lang_ext"}.get(w[1], "lang_q"), txt(w[2]))
    src = ("From Coq Require Import List NArith ZArith.\nFrom SWH.lib Require Import Bytes.\nFrom SWH.model Require Import Swhid.\n"
           "Import ListNotations.\n" + core.COQ_CHECKSUM + """
Definition zz (x : Z) : list N := [if (x <? 0)%Z then 1%N else 0%N; Z.abs_N x].
Definition en (e : err) : N := match e with EValidation => 1 | EValue => 2 | EType => 3 | EAssertion => 4 end%N.
Definition ot (o : option (list N)) : list N := match o with Some l => 360%N :: l | None => [361%N] end.
Definition sc (c : core) : list N := c_ty c ++ [362%N] ++ c_oid c.
Definition oc (o : option core) : list N := match o with Some c => 360%N :: sc c | None => [361%N] end.
Definition sl (o : option (Z * option Z)) : list N := match o with
  | None => [361%N] | Some (a, None) => 363%N :: zz a | Some (a, Some b) => 364%N :: zz a ++ zz b end.
Definition sq (v : qualified) : list N :=
  q_ty v ++ [362%N] ++ q_oid v ++ ot (q_origin v) ++ oc (q_visit v) ++ oc (q_anchor v) ++ ot (q_path v) ++ sl (q_lines v).
Definition res {A : Type} (show : A -> list N) (r : result A) : list N := match r with Ok v => 365%N :: show v | Err e => [366%N; en e] end.
Definition c_case (ext : bool) (ns : option (list N)) (ver : option Z) (ty oid : list N) : list N :=
  match (if ext then mk_ext_nv else mk_core_nv) ns ver ty oid with
  | Err e => [367%N; en e]
  | Ok c => let p := print_core c in
      p ++ [350%N] ++ res sc ((if ext then parse_ext else parse_core) p) ++
      (if ext then [] else
       [351%N] ++ res sc (to_extended c) ++ [352%N] ++ match to_extended c with Ok x => print_core x | Err _ => [361%N] end
       ++ [353%N] ++ res sq (to_qualified c) ++ [354%N]
       ++ match to_qualified c with Ok q => res (fun t : list N => t) (print_q 0%N q) | Err _ => [361%N] end)
  end.
Definition q_case (lim : N) (ns : option (list N)) (ver : option Z) (ty oid : list N) (origin : option (list N))
                  (visit anchor : option core) (path : option (list N)) (lines : option (Z * option Z)) : list N :=
  match mk_q_nv ns ver ty oid origin visit anchor path lines with
  | Err e => [367%N; en e]
  | Ok v => match print_q lim v with
            | Err e => [368%N; en e]
            | Ok p => p ++ [350%N] ++ res sq (parse_q lim p) end
  end.
Definition lang_case (b : bool) : list N := [if b then 1%N else 0%N].
""" + "Definition cases : list (list (list N)) := [" +
           ";\n ".join("[" + ";\n  ".join(term(r) for r in rqs) + "]" for _, rqs in chosen) + "].\n"
           "Eval vm_compute in map (fun rs => cksum (map cksum rs)) cases.\n")
    EN = {"ValidationError": 1, "ValueError": 2, "TypeError": 3, "AssertionError": 4}
    def zz(s):
        n = int(s)
        return [1 if n < 0 else 0, abs(n)]
    def wd(w):
        return [] if w == "." else [ord(ch) for ch in w]
    def ot(t, f):
        return [361] if t == "-" else [360] + f(t)
    def hb(h):
        return list(core.unhx(h))
    def sc(t):
        ty, h = t.split(":")
        return wd(ty) + [362] + hb(h)
    def sl(t):
        if t == "-":
            return [361]
        p = t.split(":")
        return [363] + zz(p[0]) if len(p) == 1 else [364] + zz(p[0]) + zz(p[1])
    def sq(t):
        ty, oid, origin, visit, anchor, path, ln = t.split("/")
        return wd(ty) + [362] + hb(oid) + ot(origin, lambda x: untok_text(x)) + ot(visit, sc) + ot(anchor, sc) + ot(path, hb) + sl(ln)
    def res(t, f):
        return [365] + f(t[3:]) if t.startswith("ok=") else [366, EN[t[4:]]]
    def answer(rq, r):
        k = rq[0]
        if k == "l":
            return [{"t": 1, "f": 0}[r]]
        d = kv(r)
        if "mkerr" in d:
            return [367, EN[d["mkerr"]]]
        if k == "q":
            if d["P"].startswith("err="):
                return [368, EN[d["P"][4:]]]
            return untok_text(d["P"][3:]) + [350] + res(d["R"], sq)
        out = untok_text(d["P"]) + [350] + res(d["R"], sc)
        if "X" in d:
            out += [351] + res(d["X"], sc) + [352] + ([361] if d["XP"] == "-" else untok_text(d["XP"]))
            out += [353] + res(d["Q"], sq) + [354] + ([361] if d["QP"] == "-" else res(d["QP"], untok_text))
        return out
    flat = [r for _, rqs in chosen for r in rqs]
    resp = iter(core.run_driver(ID, flat))
    exp = [core.py_cksum([core.py_cksum(answer(rq, next(resp))) for rq in rqs]) for _, rqs in chosen]
    return src, exp
