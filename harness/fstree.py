"""File-system tree generation / materialisation shared by C06, C13 (and usable by C18)."""
import hashlib
import os
import random
import shutil
import stat
import subprocess
import tempfile
from contextlib import contextmanager

from .core import hx
from .gitobj_common import NFC_UNSTABLE, source_tokens, splice_token

NAME_ALPHA = [b"a", b"b", b".", b"-", b"0", b" ", b"\n", b"\x80", b"\xff", b"A", b"~", b"_", b"\xc3\xa9", b"B"]
FILE_MODES = [0o600, 0o644, 0o700, 0o755, 0o610, 0o601, 0o654, 0o641, 0o711, 0o400,
              0o000, 0o100, 0o4755, 0o2644, 0o1644, 0o4644, 0o666, 0o777]       # no permission at all, set-uid/gid, sticky
SPECIAL_KINDS = ["fifo", "fifo", "sock", "chr"]
if os.geteuid() != 0:       # without privileges an unreadable file cannot be hashed: keep the owner-readable modes
    FILE_MODES = [m for m in FILE_MODES if m & 0o400]


def token_bytes(rng, base=b"", slash=False):
    """a literal harvested from the source of the repository under test (or a well-known neighbour such as '.git', 'HEAD',
    'refs/tags/'), alone or spliced into `base`; NUL removed, '/' removed unless asked for, at most 255 bytes, never empty"""
    x = splice_token(rng, base, "bytes") if base else rng.choice(source_tokens("bytes"))
    x = x.replace(b"\0", b"")
    if not slash:
        x = x.replace(b"/", b"")
    return x[:255] or b"tok"


def unicode_variant_bytes(rng):
    """valid non-ASCII UTF-8 that Unicode normalisation would change: one of the NFC-unstable sequences as it is, or in its
    NFC / NFD / NFKC / NFKD form (ext4 and tmpfs keep any bytes: for Linux - and for git - these are all different names)"""
    import unicodedata
    x = rng.choice(NFC_UNSTABLE)
    form = rng.choice([None, None, "NFC", "NFD", "NFKC", "NFKD"])
    return (unicodedata.normalize(form, x) if form else x).encode("utf-8")


def nfc_twin(b):
    """the NFC form of a name when it is another byte string (else None)"""
    import unicodedata
    try:
        t = unicodedata.normalize("NFC", b.decode("utf-8")).encode("utf-8")
    except UnicodeDecodeError:
        return None
    return t if t != b and t and b"/" not in t and b"\0" not in t else None


def gen_name(rng, taken):
    if rng.random() < 0.05:         # a name that is not in Unicode normal form C: alone, or around a usual name
        u = unicode_variant_bytes(rng)
        nm = rng.choice([u, u, u + rng.choice([b"a", b".c", b" x"]), rng.choice([b"a", b"dir", b"."]) + u])
        if nm not in taken and len(nm) <= 255:
            return nm
    if rng.random() < 0.1:          # the fuzzers' dictionary trick: a special case keyed on a literal of the code gets exercised
        nm = token_bytes(rng, rng.choice([b"", b"", b"a", b"dir", b"x y", b"\xff\xfe", b"n.c"]))
        if nm not in taken and nm not in (b".", b".."):
            return nm
    base = [b"a", b"a.b", b"a-", b"a0", b"ab", b"A", b"dir", b"Dir", b".git", b"x y", b"n\nl", b"\xff\xfe", b"empty"]
    if rng.random() < 0.01:
        nm = bytes([rng.choice(b"nN\xff")]) * 255          # the longest name a directory can hold
        if nm not in taken:
            return nm
    for _ in range(50):
        r = rng.random()
        if r < 0.3 and taken:
            nm = rng.choice(sorted(taken)) + rng.choice(NAME_ALPHA)
        elif r < 0.65:
            nm = rng.choice(base)
        else:
            nm = b"".join(rng.choice(NAME_ALPHA) for _ in range(rng.randrange(1, 5)))
        if nm and nm not in taken and nm not in (b".", b"..") and len(nm) < 200:
            return nm
    return b"n%d" % len(taken)


def gen_tree(rng, depth=0, budget=None, opts=None):
    """returns a JSON-able fs tree (always a directory at depth 0)"""
    opts = opts or {}
    budget = budget if budget is not None else [rng.choice([3, 8, 20, 60, 120])]
    kids = []
    taken = set()
    n = rng.choice([0, 1, 2, 3, 5, 8]) if depth else rng.choice([1, 2, 3, 5, 8])
    for _ in range(n):
        if budget[0] <= 0:
            break
        budget[0] -= 1
        nm = gen_name(rng, taken)
        taken.add(nm)
        tw = nfc_twin(nm)
        if tw and tw not in taken and rng.random() < 0.6:
            # the name AND its NFC twin side by side: two different entries for Linux and for git
            taken.add(tw)
            kids.append([tw.hex(), rng.choice([{"t": "R", "d": b"the NFC twin".hex(), "m": 0o644},
                                               {"t": "D", "c": [[b"k".hex(), {"t": "R", "d": b"twin".hex(), "m": 0o755}]]}])])
        r = rng.random()
        if r < 0.3 and depth < 5:
            kids.append([nm.hex(), gen_tree(rng, depth + 1, budget, opts)])
        elif r < 0.42:
            kids.append([nm.hex(), {"t": "L", "x": rng.choice([b"a", b"../x", b"/etc/passwd", b"dangling", nm, b".", b"sub/dir",
                                                                 token_bytes(rng, rng.choice([b"", b"a", b"../x"]), slash=True),
                                                                 unicode_variant_bytes(rng), b"../" + unicode_variant_bytes(rng),
                                                                 bytes(rng.randrange(1, 256) for _ in range(rng.randrange(1, 9)))]).hex()}])
        elif r < 0.47 and not opts.get("no_special"):
            kids.append([nm.hex(), {"t": "S", "m": rng.choice(FILE_MODES), "k": rng.choice(SPECIAL_KINDS)}])
        else:
            size = rng.choice(opts.get("sizes", [0, 0, 1, 2, 5, 17, 100, 1000]))
            data = rng.choice([bytes(rng.randrange(256) for _ in range(min(size, 64))) * (size // 64 + 1), b"\0" * size, b"same" * (size // 4 + 1)])[:size]
            kids.append([nm.hex(), {"t": "R", "d": data.hex(), "m": rng.choice(FILE_MODES)}])
    if rng.random() < (0.35 if depth == 0 else 0.08):
        # a chain of directories that are empty only recursively (e1/e2/e3, possibly next to a file higher up)
        nm = gen_name(rng, taken)
        chain = {"t": "D", "c": []}
        for _ in range(rng.choice([1, 2, 3, 4])):
            inner = [[gen_name(rng, set()).hex(), chain]]
            if rng.random() < 0.3:
                inner.append([gen_name(rng, {bytes.fromhex(inner[0][0])}).hex(), {"t": "D", "c": []}])
            chain = {"t": "D", "c": inner}
        kids.append([nm.hex(), chain])
    return {"t": "D", "c": kids}


def enc_tree(t):
    if t["t"] == "R":
        return "R%d:%s" % (t["m"], t["d"] or ".")
    if t["t"] == "L":
        return "L:%s" % (t["x"] or ".")
    if t["t"] == "S":
        return "S%d" % t["m"]
    return "D[" + ";".join("%s=%s" % (n, enc_tree(c)) for n, c in t["c"]) + "]"


def materialise(t, path):
    """create tree t at bytes path (which must not exist)"""
    if t["t"] == "D":
        os.mkdir(path)
        for n, c in t["c"]:
            materialise(c, os.path.join(path, bytes.fromhex(n)))
    elif t["t"] == "R":
        with open(path, "wb") as f:
            f.write(bytes.fromhex(t["d"]))
        os.chmod(path, t["m"])
    elif t["t"] == "L":
        os.symlink(bytes.fromhex(t["x"]), path)
    elif t["t"] == "S":
        kind = t.get("k", "fifo")
        try:
            if kind == "sock":
                os.mknod(path, stat.S_IFSOCK | 0o600)
            elif kind == "chr":
                os.mknod(path, stat.S_IFCHR | 0o600, os.makedev(1, 3))      # a /dev/null: needs CAP_MKNOD
            else:
                os.mkfifo(path, 0o600)
        except OSError:
            os.mkfifo(path, 0o600)
        os.chmod(path, t["m"])


def wide_tree(rng, n=300):
    """one directory with n entries (files, directories, links) whose names share prefixes: the sort of a large listing"""
    kids = []
    for i in range(n):
        nm = rng.choice([b"n%03d", b"n%03d.d", b"N%03d", b"n-%03d"]) % i
        r = i % 7
        if r == 0:
            kids.append([nm.hex(), {"t": "D", "c": [[b"x".hex(), {"t": "R", "d": (b"%d" % (i % 5)).hex(), "m": 0o644}]] if i % 14 else []}])
        elif r == 1:
            kids.append([nm.hex(), {"t": "L", "x": (b"n%03d" % (i - 1)).hex()}])
        else:
            kids.append([nm.hex(), {"t": "R", "d": (b"%d" % (i % 11)).hex(), "m": 0o755 if i % 3 == 0 else 0o644}])
    rng.shuffle(kids)
    return {"t": "D", "c": kids}


@contextmanager
def on_disk(t):
    d = tempfile.mkdtemp(prefix="swhv").encode()
    root = os.path.join(d, b"root")
    try:
        materialise(t, root)
        yield root
    finally:
        shutil.rmtree(d, ignore_errors=True)


# ---------------------------------------------------------------- spellings of the root path (shared by C06 and C13)
# every spelling designates, FOR THE OPERATING SYSTEM, the directory in which the tree was materialised; the reference is
# always that tree (the JSON tree / a read through the plain real path), never a lexically normalised path
ROOT_SPELLINGS = [
    "real",            # <tmp>/root
    "slash1", "slash3",                       # trailing slashes
    "rel", "reldot",                          # root, ./root   (working directory = <tmp>)
    "dot", "dotdot",                          # <tmp>/./root, <tmp>/x/../root with x a REAL directory
    "dslash",                                 # <tmp>//real///root : doubled slashes inside
    "realdot", "realdot_rel",                 # <tmp>/real/./root, real/./root
    "vialink", "vialink_rel", "vialink_abs",  # <tmp>/link/root with link -> real (relative / absolute target), link/root
    "rootlink", "rootlink_abs",               # <tmp>/root is itself a symbolic link to the tree
    "rootlink_dot", "rootlink_slash", "rootlink_rel_slash",    # <tmp>/root/. , <tmp>/root/ , root/   (root a symlink)
    "linkup_none", "linkup_decoy",            # <tmp>/work/link/../proj with work/link -> ../real/sub: the OS finds real/proj;
                                              # the lexical collapse work/proj does not exist / is a DIFFERENT tree
    "linkup_rel", "linkup_reldot", "linkup_dslash",   # work/link/../proj, ./work/link/../proj, <tmp>/work//link/..//proj (decoy present)
    "firstlink",                              # absolute path through a symbolic link that lives in ANOTHER directory tree (<tmp2>/first -> <tmp>)
]
DECOY = {"t": "D", "c": [[b"decoy".hex(), {"t": "R", "d": b"this is another tree".hex(), "m": 0o644}],
                         [b"sub".hex(), {"t": "D", "c": [[b"x".hex(), {"t": "R", "d": b"x".hex(), "m": 0o755}]]}]]}


def gen_spelling(rng, plain=0.5):
    return "real" if rng.random() < plain else rng.choice(ROOT_SPELLINGS[1:])


@contextmanager
def spelled_root(t, spelling, case=None):
    """(case: the whole case when it has a "chain" field - the tree is then materialised and removed iteratively)
    materialise t in a fresh temporary directory <tmp>, make <tmp> the working directory, and yield
    (path in the requested spelling, <tmp>, plain real path of the tree); everything is undone afterwards"""
    tmp = tempfile.mkdtemp(prefix="swhv").encode()
    cwd = os.getcwd()
    extra = []
    j = os.path.join
    try:
        os.chdir(tmp)
        if spelling.startswith("vialink"):
            os.mkdir(j(tmp, b"real"))
            real = j(tmp, b"real", b"root")
            os.symlink(j(tmp, b"real") if spelling == "vialink_abs" else b"real", j(tmp, b"link"))
            path = b"link/root" if spelling == "vialink_rel" else j(tmp, b"link", b"root")
        elif spelling.startswith("rootlink"):
            real = j(tmp, b"real_root")
            os.symlink(real if spelling == "rootlink_abs" else b"real_root", j(tmp, b"root"))
            path = {"rootlink_dot": j(tmp, b"root") + b"/.", "rootlink_slash": j(tmp, b"root") + b"/",
                    "rootlink_rel_slash": b"root/"}.get(spelling, j(tmp, b"root"))
        elif spelling.startswith("linkup"):
            os.makedirs(j(tmp, b"real", b"sub"))
            os.mkdir(j(tmp, b"work"))
            real = j(tmp, b"real", b"proj")
            os.symlink(b"../real/sub", j(tmp, b"work", b"link"))
            if spelling != "linkup_none":
                materialise(DECOY, j(tmp, b"work", b"proj"))
            path = {"linkup_rel": b"work/link/../proj", "linkup_reldot": b"./work/link/../proj",
                    "linkup_dslash": tmp + b"/work//link/..//proj"}.get(spelling, tmp + b"/work/link/../proj")
        elif spelling.startswith("realdot") or spelling == "dslash":
            os.mkdir(j(tmp, b"real"))
            real = j(tmp, b"real", b"root")
            path = {"realdot": tmp + b"/real/./root", "realdot_rel": b"real/./root"}.get(spelling, tmp + b"//real///root")
        elif spelling == "firstlink":
            real = j(tmp, b"root")
            path = real
            # (the link lives in a second temporary directory, never in "/": the check writes nothing outside its own
            # temporary directories)
            other = tempfile.mkdtemp(prefix="swhvl").encode()
            extra.append(other)
            lnk = j(other, b"first")
            os.symlink(tmp, lnk)
            path = j(lnk, b"root")
        else:
            real = j(tmp, b"root")
            if spelling == "dotdot":
                os.mkdir(j(tmp, b"x"))
            path = {"slash1": real + b"/", "slash3": real + b"///", "rel": b"root", "reldot": b"./root",
                    "dot": tmp + b"/./root", "dotdot": tmp + b"/x/../root"}.get(spelling, real)
        if case is not None and case.get("chain"):
            materialise_chain(case, real)
        else:
            materialise(t, real)
        yield path, tmp, real
    finally:
        os.chdir(cwd)
        for x in extra:
            shutil.rmtree(x, ignore_errors=True)
        if case is not None and case.get("chain"):
            rm_rf(tmp)
        else:
            shutil.rmtree(tmp, ignore_errors=True)


# ---------------------------------------------------------------- deep chains (shared by C06 and C13)
# A case with "chain": N designates the tree  d/d/.../d/<case["tree"]>  : N nested directories named "d" around the
# case's (small) tree; with "chain_file": k > 0 the directory at every level l < N with l % k == 0 also holds a file "f".
# Everything here is ITERATIVE (the JSON stays shallow, no recursion over the chain): the point of these cases is the
# recursion limit of the library, which must not be confused with one of the harness.
CHAIN_NAME = b"d"
CHAIN_FILE = b"f"


def chain_file(level):
    return {"t": "R", "d": (b"level %d\n" % level).hex(), "m": 0o644}


def chain_has_file(c, level):
    k = c.get("chain_file", 0)
    return bool(k) and level % k == 0


def rm_rf(path):
    """shutil.rmtree recurses (and dies) on very deep trees"""
    subprocess.run(["rm", "-rf", "--", os.fsdecode(path)], check=False)


def materialise_chain(c, path):
    """level 0 = path; the case's tree is the directory at level N"""
    p = path
    for level in range(c["chain"]):
        os.mkdir(p)
        if chain_has_file(c, level):
            materialise(chain_file(level), p + b"/" + CHAIN_FILE)
        p = p + b"/" + CHAIN_NAME
    materialise(c["tree"], p)


def enc_chain(c):
    """driver encoding of the whole tree of a chain case, by concatenation"""
    parts = []
    for level in range(c["chain"]):
        parts.append("D[" + ("%s=%s;" % (CHAIN_FILE.hex(), enc_tree(chain_file(level))) if chain_has_file(c, level) else "")
                     + CHAIN_NAME.hex() + "=")
    return "".join(parts) + enc_tree(c["tree"]) + "]" * c["chain"]


def _git_obj(kind, body):
    return hashlib.sha1(kind + b" %d\0" % len(body) + body).hexdigest()


def _ref_mode(t):
    if t["t"] == "D":
        return b"40000"
    if t["t"] == "L":
        return b"120000"
    return b"100755" if t["m"] & 0o111 else b"100644"


def ref_tree_object_id(entries):
    """entries: [(name bytes, is_dir, mode bytes, id hex)] -> git tree id (independent of the library and of the model)"""
    es = sorted(entries, key=lambda e: e[0] + (b"/" if e[1] else b""))
    return _git_obj(b"tree", b"".join(m + b" " + n + b"\0" + bytes.fromhex(i) for n, _d, m, i in es))


def ref_ids(t, prefix=b"", acc=None):
    """{path: id hex} of a SMALL tree (recursive), ids by git's rules"""
    acc = acc if acc is not None else {}
    if t["t"] == "R":
        acc[prefix] = _git_obj(b"blob", bytes.fromhex(t["d"]))
    elif t["t"] == "L":
        acc[prefix] = _git_obj(b"blob", bytes.fromhex(t["x"]))
    elif t["t"] == "S":
        acc[prefix] = _git_obj(b"blob", b"")
    else:
        es = []
        for n, ch in t["c"]:
            nm = bytes.fromhex(n)
            p = prefix + b"/" + nm if prefix else nm
            ref_ids(ch, p, acc)
            es.append((nm, ch["t"] == "D", _ref_mode(ch), acc[p]))
        acc[prefix] = ref_tree_object_id(es)
    return acc


def ref_chain(c):
    """reference ids of a chain case, bottom-up loop: {"levels": [id of the directory at level 0..N], "bottom": {path
    relative to the bottom tree: id}} (node_id_chain / C06_chain_id is the theorem behind the loop)"""
    bottom = ref_ids(c["tree"])
    cur = bottom[b""]
    levels = [cur]
    for level in range(c["chain"] - 1, -1, -1):
        es = [(CHAIN_NAME, True, b"40000", cur)]
        if chain_has_file(c, level):
            f = chain_file(level)
            es.append((CHAIN_FILE, False, _ref_mode(f), _git_obj(b"blob", bytes.fromhex(f["d"]))))
        cur = ref_tree_object_id(es)
        levels.append(cur)
    levels.reverse()
    return {"levels": levels, "bottom": {hx(k): v for k, v in bottom.items()}}


def impl_chain(d, max_levels):
    """the same shape read off a from_disk.Directory, iteratively: follow the entry "d" while there is one"""
    levels = [d.hash.hex()]
    node = d
    while len(levels) <= max_levels and CHAIN_NAME in node and hasattr(node[CHAIN_NAME], "entries"):
        node = node[CHAIN_NAME]
        levels.append(node.hash.hex())
    return {"levels": levels, "bottom": {hx(k): v for k, v in collect_ids(node).items()}}


@contextmanager
def shuffled_scandir(seed):
    """os.scandir returns the entries in an order chosen by our PRNG (the kernel's
    listing order is what the property quantifies over)"""
    real = os.scandir
    rng = random.Random(seed)

    class _Ctx:
        def __init__(self, p):
            with real(p) as it:
                self.l = list(it)
            self.l.sort(key=lambda e: e.name)
            rng.shuffle(self.l)

        def __enter__(self):
            return iter(self.l)

        def __exit__(self, *a):
            return False

        def __iter__(self):
            return iter(self.l)

        def close(self):
            pass

    os.scandir = lambda p=".": _Ctx(p)
    try:
        yield
    finally:
        os.scandir = real


def collect_ids(node, prefix=b""):
    """{path: hash hex} for every node of a from_disk.Directory tree"""
    out = {prefix: node.hash.hex()}
    if getattr(node.object_type, "value", node.object_type if isinstance(node.object_type, str) else None) == "directory" or hasattr(node, "entries"):
        for name, child in node.items():
            out.update(collect_ids(child, prefix + b"/" + name if prefix else name))
    return out


def count_nodes(t):
    return 1 + (sum(count_nodes(c) for _, c in t["c"]) if t["t"] == "D" else 0)


def has_kind(t, k):
    return t["t"] == k or (t["t"] == "D" and any(has_kind(c, k) for _, c in t["c"]))


def subdirs(t):
    return [c for _, c in t["c"] if c["t"] == "D"] if t["t"] == "D" else []


def shrink_tree(t):
    """yield smaller trees"""
    if t["t"] != "D":
        return
    for i in range(len(t["c"])):
        yield {"t": "D", "c": t["c"][:i] + t["c"][i + 1:]}
    for i, (n, c) in enumerate(t["c"]):
        if c["t"] == "D":
            for c2 in shrink_tree(c):
                yield {"t": "D", "c": t["c"][:i] + [[n, c2]] + t["c"][i + 1:]}
        elif c["t"] == "R" and len(c["d"]) > 2:
            yield {"t": "D", "c": t["c"][:i] + [[n, dict(c, d=c["d"][:len(c["d"]) // 4 * 2])]] + t["c"][i + 1:]}
        if len(n) > 2:
            nn = n[:-2]
            if nn and nn not in [x[0] for x in t["c"]] and bytes.fromhex(nn) not in (b".", b".."):
                yield {"t": "D", "c": t["c"][:i] + [[nn, c]] + t["c"][i + 1:]}


# ---------------------------------------------------------------- re-reading a tree that was modified in place (C06, C13)
# A case with "reread": {"seed": s, "n": k, "mode": "edit" | "rebuild"} is read, then modified IN PLACE, then read again:
# nothing may be carried from one from_disk call to the next.  mutate_tree is a pure function of the case (the model and the
# reference need the tree as it is NOW without touching the disk); apply_ops does the same edits on the disk.
def _walk_nodes(t, path=()):
    """[(path as a tuple of hex names, node)] of every node below the root of a SMALL tree"""
    out = []
    if t["t"] == "D":
        for n, c in t["c"]:
            out.append((path + (n,), c))
            out.extend(_walk_nodes(c, path + (n,)))
    return out


def _dir_at(t, path):
    for n in path:
        t = next(c for m, c in t["c"] if m == n)
    return t


def _set_child(t, path, new):
    """replace (new is a node) or delete (new is None) the entry at path; add it when absent"""
    d = _dir_at(t, path[:-1])
    for i, (n, _c) in enumerate(d["c"]):
        if n == path[-1]:
            if new is None:
                del d["c"][i]
            else:
                d["c"][i] = [n, new]
            return
    if new is not None:
        d["c"].append([path[-1], new])


def _flip(data):
    return bytes(b ^ 1 for b in data)


def mutate_tree(t, reread):
    """-> (tree after the edits, list of edits).  Same-length rewrites, permission flips, file <-> symlink, directory -> file,
    additions, removals, a directory renamed, two same-size files swapped; or ("rebuild"): every file's bytes and every
    link's text replaced by different ones of the same length, the tree removed and created again at the same path"""
    import copy
    rng = random.Random(reread["seed"])
    t2 = copy.deepcopy(t)
    if reread.get("mode") == "rebuild":
        for _p, n in _walk_nodes(t2):
            if n["t"] == "R":
                n["d"] = _flip(bytes.fromhex(n["d"])).hex()
            elif n["t"] == "L":
                n["x"] = bytes((b ^ 1) if (b ^ 1) not in (0, 47) else b for b in bytes.fromhex(n["x"])).hex()
        return t2, [["rebuild"]]
    ops = []
    fresh = [0]

    def new_name(d):
        fresh[0] += 1
        nm = (b"zz-new%d" % fresh[0]).hex()
        return nm if nm not in [m for m, _ in d["c"]] else None
    for _ in range(reread.get("n", 3)):
        nodes = _walk_nodes(t2)
        regs = [(p, n) for p, n in nodes if n["t"] == "R" and len(n["d"]) > 0]
        k = rng.randrange(10)
        if k <= 2 and regs:                                             # same length, other bytes, times restored
            p, n = rng.choice(regs)
            n["d"] = _flip(bytes.fromhex(n["d"])).hex()
            ops.append(["rewrite", list(p), n["d"]])
        elif k == 3 and regs:                                           # +x / -x
            p, n = rng.choice([(p, n) for p, n in nodes if n["t"] == "R"])
            n["m"] = n["m"] ^ 0o111 if rng.random() < 0.5 else (n["m"] | 0o100 if not n["m"] & 0o111 else n["m"] & ~0o111)
            ops.append(["chmod", list(p), n["m"]])
        elif k == 4 and nodes:                                          # file -> symlink of the same name, symlink -> file
            cands = [(p, n) for p, n in nodes if n["t"] in ("R", "L")]
            if cands:
                p, n = rng.choice(cands)
                new = {"t": "L", "x": b"lnk".hex()} if n["t"] == "R" else {"t": "R", "d": bytes.fromhex(n["x"]).hex(), "m": 0o644}
                _set_child(t2, p, new)
                ops.append(["replace", list(p), new])
        elif k == 5:                                                    # directory -> file
            dirs = [(p, n) for p, n in nodes if n["t"] == "D"]
            if dirs:
                p, _n = rng.choice(dirs)
                new = {"t": "R", "d": b"was a directory".hex(), "m": 0o644}
                _set_child(t2, p, new)
                ops.append(["replace", list(p), new])
        elif k == 6:                                                    # add an entry
            dirs = [((), t2)] + [(p, n) for p, n in nodes if n["t"] == "D"]
            p, d = rng.choice(dirs)
            nm = new_name(d)
            if nm:
                new = rng.choice([{"t": "R", "d": b"added".hex(), "m": 0o755}, {"t": "D", "c": []}, {"t": "L", "x": b"a".hex()}])
                new = copy.deepcopy(new)
                d["c"].append([nm, new])
                ops.append(["replace", list(p) + [nm], new])
        elif k == 7 and nodes:                                          # remove an entry
            p, _n = rng.choice(nodes)
            _set_child(t2, p, None)
            ops.append(["remove", list(p)])
        elif k == 8:                                                    # rename a directory: same inode, new path
            dirs = [(p, n) for p, n in nodes if n["t"] == "D"]
            if dirs:
                p, n = rng.choice(dirs)
                parent = _dir_at(t2, p[:-1])
                nm = new_name(parent)
                if nm:
                    for i, (m, _c) in enumerate(parent["c"]):
                        if m == p[-1]:
                            parent["c"][i] = [nm, n]
                    ops.append(["rename", list(p), nm])
        elif k == 9:                                                    # swap the bytes of two same-size files, times restored
            by_size = {}
            for p, n in regs:
                by_size.setdefault(len(n["d"]), []).append((p, n))
            pairs = [(a, b) for v in by_size.values() for a in v for b in v if a[0] < b[0] and a[1]["d"] != b[1]["d"]]
            if pairs:
                (p1, n1), (p2, n2) = rng.choice(pairs)
                n1["d"], n2["d"] = n2["d"], n1["d"]
                ops.append(["rewrite", list(p1), n1["d"]])
                ops.append(["rewrite", list(p2), n2["d"]])
    return t2, ops


def _disk_path(root, path):
    return root + b"".join(b"/" + bytes.fromhex(n) for n in path)


def _remove_any(p):
    if os.path.isdir(p) and not os.path.islink(p):
        shutil.rmtree(p)
    else:
        os.unlink(p)


def apply_ops(ops, root, t2):
    """the edits of mutate_tree, on the tree materialised at root (its plain real path)"""
    for op in ops:
        if op[0] == "rebuild":
            times = {}
            for d, dirs, files in os.walk(root):
                for x in [d] + [os.path.join(d, f) for f in files + dirs]:
                    st = os.lstat(x)
                    times[x] = (st.st_atime_ns, st.st_mtime_ns)
            rm_rf(root)
            materialise(t2, root)
            for x in sorted(times, key=len, reverse=True):
                try:
                    os.utime(x, ns=times[x], follow_symlinks=False)
                except OSError:
                    pass
        elif op[0] == "rewrite":
            p = _disk_path(root, op[1])
            st = os.lstat(p)
            os.chmod(p, 0o600)
            with open(p, "r+b") as f:
                f.write(bytes.fromhex(op[2]))
            os.chmod(p, stat.S_IMODE(st.st_mode))
            os.utime(p, ns=(st.st_atime_ns, st.st_mtime_ns))
        elif op[0] == "chmod":
            os.chmod(_disk_path(root, op[1]), op[2])
        elif op[0] == "replace":
            p = _disk_path(root, op[1])
            if os.path.lexists(p):
                _remove_any(p)
            materialise(op[2], p)
        elif op[0] == "remove":
            _remove_any(_disk_path(root, op[1]))
        elif op[0] == "rename":
            p = _disk_path(root, op[1])
            os.rename(p, os.path.join(os.path.dirname(p), bytes.fromhex(op[2])))


def gen_reread(rng, share=0.25):
    if rng.random() >= share:
        return None
    return {"seed": rng.randrange(10**6), "n": rng.randrange(1, 6), "mode": "rebuild" if rng.random() < 0.2 else "edit"}


def other_spelling(path, real):
    """another way to name the same directory"""
    return real if path != real else real + b"/."


# ---------------------------------------------------------------- reference entries, nested keys, in-memory edits
def ref_entries(t, ids, prefix=b""):
    """[(name, "dir"|"file", perms int, target hex)] of directory t in git's order (ids = ref_ids of the whole tree)"""
    es = []
    for n, ch in t["c"]:
        nm = bytes.fromhex(n)
        es.append((nm, "dir" if ch["t"] == "D" else "file", int(_ref_mode(ch), 8), ids[prefix + b"/" + nm if prefix else nm]))
    return sorted(es, key=lambda e: e[0] + (b"/" if e[1] == "dir" else b""))


def _apply_op_json(cur, op):
    if op[0] == "rewrite":
        next(c for p, c in _walk_nodes(cur) if list(p) == op[1])["d"] = op[2]
    elif op[0] == "chmod":
        next(c for p, c in _walk_nodes(cur) if list(p) == op[1])["m"] = op[2]
    elif op[0] == "replace":
        _set_child(cur, op[1], op[2])
    elif op[0] == "remove":
        _set_child(cur, op[1], None)
    elif op[0] == "rename":
        node = next(c for p, c in _walk_nodes(cur) if list(p) == op[1])
        _set_child(cur, op[1], None)
        _set_child(cur, op[1][:-1] + [op[2]], node)


def _mem_node(n):
    from swh.model.from_disk import Content, Directory
    if n["t"] == "R":
        return Content.from_bytes(mode=stat.S_IFREG | n["m"], data=bytes.fromhex(n["d"]))
    if n["t"] == "L":
        return Content.from_bytes(mode=stat.S_IFLNK | 0o777, data=bytes.fromhex(n["x"]))
    if n["t"] == "S":
        return Content.from_bytes(mode=stat.S_IFIFO | n["m"], data=b"")
    d = Directory()
    for nm, ch in n["c"]:
        d[bytes.fromhex(nm)] = _mem_node(ch)
    return d


def apply_ops_memory(d, ops, t):
    """the edits of mutate_tree done on the in-memory Directory d (read from tree t) through its dict interface with
    nested '/' keys: d[b"a/b"] = node, del d[b"a/b"], Content.from_bytes"""
    import copy
    cur = copy.deepcopy(t)
    for op in ops:
        key = b"/".join(bytes.fromhex(n) for n in op[1])
        _apply_op_json(cur, op)
        if op[0] in ("rewrite", "chmod", "replace"):
            d[key] = _mem_node(next(c for p, c in _walk_nodes(cur) if list(p) == op[1]))
        elif op[0] == "remove":
            del d[key]
        elif op[0] == "rename":
            node = d[key]
            del d[key]
            d[b"/".join(bytes.fromhex(n) for n in op[1][:-1] + [op[2]])] = node
    return cur


# ---------------------------------------------------------------- several trees read at the same time (C06, C13)
# A case with "concurrent": {"threads": k, "rounds": r, "seed": s, "big": [sizes], "mode": "threads" | "reentrant"} reads k
# trees - the case's small tree plus a few files larger than 64 KiB whose bytes differ per tree, so that reading and hashing
# release the GIL - either in k threads started together behind a barrier (r rounds: a wrong id is PROBABILISTIC, the replay
# re-runs the same rounds) or nested in one thread (a scan of tree B started from a callback of the scan of tree A:
# deterministic).  Each result is compared with the reference ids of its own tree.  The trees are derived from the case's
# parameters, the case itself stays small.
def concurrent_trees(c):
    import copy
    cc = c["concurrent"]
    out = []
    for i in range(cc["threads"]):
        t = copy.deepcopy(c["tree"])
        t["c"] = [[n, ch] for n, ch in t["c"] if not bytes.fromhex(n).startswith(b"big")]
        sub = []
        for j, size in enumerate(cc["big"]):
            data = random.Random(cc["seed"] * 1000 + i * 10 + j).randbytes(size)
            node = {"t": "R", "d": data.hex(), "m": 0o755 if j % 2 else 0o644}
            (sub if j % 3 == 2 else t["c"]).append([(b"big%d" % j).hex(), node])
        if sub:
            t["c"].append([b"bigdir".hex(), {"t": "D", "c": sub}])
        out.append(t)
    return out


def run_together(fns, timeout=60):
    """run the functions in as many threads, released together; -> (results, [error strings], hang?)"""
    import threading
    from .core import exc_class
    barrier = threading.Barrier(len(fns))
    results, errors = [None] * len(fns), []

    def work(i):
        try:
            barrier.wait(timeout)
            results[i] = fns[i]()
        except Exception as e:      # noqa
            errors.append("thread %d: %s:%s" % (i, exc_class(e), str(e)[:80]))
    ths = [threading.Thread(target=work, args=(i,), daemon=True) for i in range(len(fns))]
    for t in ths:
        t.start()
    for t in ths:
        t.join(timeout)
    return results, errors, any(t.is_alive() for t in ths)


@contextmanager
def trees_on_disk(trees):
    """each tree at <tmp>/t<i>/root; -> list of root paths"""
    tmp = tempfile.mkdtemp(prefix="swhvc").encode()
    try:
        roots = []
        for i, t in enumerate(trees):
            os.mkdir(os.path.join(tmp, b"t%d" % i))
            roots.append(os.path.join(tmp, b"t%d" % i, b"root"))
            materialise(t, roots[-1])
        yield roots
    finally:
        shutil.rmtree(tmp, ignore_errors=True)


CONCURRENT_NOTE = ("(trees read at the same time in %d threads, %d rounds: such a failure is PROBABILISTIC - the replay re-runs the same "
                   "number of rounds and may need to be repeated)")
REENTRANT_NOTE = "(a scan of another tree started from a callback of this scan, same thread: DETERMINISTIC)"


def gen_concurrent(rng, mode=None):
    mode = mode or ("reentrant" if rng.random() < 0.4 else "threads")
    return {"threads": 2 if mode == "reentrant" else rng.choice([2, 3, 4]), "rounds": 1 if mode == "reentrant" else rng.choice([3, 4, 5]),
            "seed": rng.randrange(10**6), "big": [rng.choice([70000, 131072, 300000, 524288]) for _ in range(rng.choice([2, 3, 4]))],
            "mode": mode, "via": rng.choice(["filter", "progress"])}
