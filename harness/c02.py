"""C02 - directory ids are git tree ids (git_objects.directory_git_object,
model.Directory / DirectoryEntry validators)."""
import hashlib
import itertools
import os
import subprocess
import tempfile

from .core import exc_class, hx, unhx

ID = "C02"
PROPS = "Props/C02.v"
EXTRACT = "extract/ExC02.v"
OBLIGATION = "directory_git_object"
REQUESTS_NEED_IMPL = True
THEOREMS = ["C02_order_free", "C02_is_git_tree", "C02_git_order", "C02_mode_octal", "C02_mode_no_leading_zero",
            "C02_decode", "C02_manifest_injective", "C02_only_entries", "C02_valid_iff",
            "C02_satisfiable"]
RULE = ("entry sets of 0-40 entries; names built as prefix chains over an adversarial alphabet (bytes next to '/', "
        "space, newline, NUL, >=0x80) with file/dir/rev types mixed so that keys collide in sort order; perms: the "
        "five canonical, 0, 7, 0o177777, random 16-bit; each set is evaluated in the given order and in a second "
        "random order; invalid sets (duplicate names, '/' in a name) included; non-trivial = >=2 entries whose "
        "names are prefixes of each other or straddle '/'; distinct = distinct request")
TRUSTED = ["Python bytes ordering, sorted(key=) stability, oct(), b''.join as modelled in lib/Order.v, lib/StableSort.v, lib/Hex.v",
           "lib/Sha1.v is only an instance of the hash oracle (validated against hashlib on every case)"]
ASSUMPTIONS = ["targets are 20 bytes and names NUL-free for the decode/injectivity theorems (the property's domain)",
               "agreement with real git (`git mktree`) is validation of the spec-level definition, not a theorem"]

TYPES = ["file", "dir", "rev"]
TCODE = {"file": "f", "dir": "d", "rev": "r"}
ALPHA = [b"a", b"b", b".", b"-", b"0", b" ", b"\n", b"\x00", b"\x80", b"\xff", b"A", b"~", b"\x2e", b"\x30", b"_"]


def gen_names(rng, n, allow_bad):
    names = set()
    base = [b"a", b"ab", b"a.b", b"a-", b"a0", b"a b", b"a\n", b"A", b"", b"\xff", b"a\x80"]
    while len(names) < n:
        r = rng.random()
        if r < 0.35 and names:
            nm = rng.choice(sorted(names)) + rng.choice(ALPHA)       # extend an existing name: prefix chains
        elif r < 0.6:
            nm = rng.choice(base)
        else:
            nm = b"".join(rng.choice(ALPHA) for _ in range(rng.randrange(1, 6)))
        if not allow_bad:
            nm = nm.replace(b"\x00", b"z")
        names.add(nm)
    return sorted(names)


def gen_entries(rng, n, kind):
    names = gen_names(rng, n, allow_bad=(kind == "nul"))
    es = []
    for nm in names:
        t = rng.choice(TYPES)
        perms = rng.choice([0o100644, 0o100755, 0o120000, 0o040000, 0o160000, 0, 7, 0o177777, rng.randrange(65536)])
        tl = 20 if kind != "shorttarget" else rng.choice([0, 1, 19, 20, 21])
        es.append([nm.hex(), t, bytes(rng.randrange(256) for _ in range(tl)).hex(), perms])
    if kind == "dup" and es:
        e = list(rng.choice(es))
        e[1] = rng.choice(TYPES)
        es.append(e)
    if kind == "slash" and es:
        e = list(rng.choice(es))
        e[0] = (bytes.fromhex(e[0]) + b"/x").hex()
        es.append(e)
    rng.shuffle(es)
    return es


def gen(rng, tier):
    n_cases = 1200 if tier == "quick" else 40000
    cases = [{"entries": [], "perm": []}]
    kinds = ["ok"] * 6 + ["dup", "slash", "nul", "shorttarget"]
    for k in range(n_cases):
        n = rng.choice([0, 1, 2, 2, 3, 3, 4, 5, 8, 13, 25, 40])
        es = gen_entries(rng, n, kinds[k % len(kinds)])
        perm = list(range(len(es)))
        rng.shuffle(perm)
        cases.append({"entries": es, "perm": perm})
    if tier == "thorough":
        # exhaustive: all sets of <= 3 entries over a 6-name x 3-type alphabet, all permutations
        names = [b"a", b"a.", b"a0", b"a-", b"ab", b"a/"[:1] + b"\x2f"[:0] + b"~"]
        univ = [(nm, t) for nm in names for t in TYPES]
        for r in range(0, 4):
            for combo in itertools.combinations(univ, r):
                if len({nm for nm, _ in combo}) < len(combo):
                    continue
                es = [[nm.hex(), t, (bytes([i + 1]) * 20).hex(), {"file": 0o100644, "dir": 0o40000, "rev": 0o160000}[t]]
                      for i, (nm, t) in enumerate(combo)]
                for perm in itertools.permutations(range(len(es))):
                    cases.append({"entries": es, "perm": list(perm)})
    return cases


def _names(c):
    return [bytes.fromhex(e[0]) for e in c["entries"]]


def nontrivial(c):
    ns = _names(c)
    if len(ns) < 2:
        return False
    for a in ns:
        for b in ns:
            if a != b and (b.startswith(a) or (a and b and a[:-1] == b[:-1] and (a[-1] < 0x2f) != (b[-1] < 0x2f))):
                return True
    return False


def classify(c):
    ns = _names(c)
    ks = ["n=%s" % (len(ns) if len(ns) < 5 else "5-13" if len(ns) <= 13 else ">13")]
    if len(set(ns)) < len(ns):
        ks.append("dup-name")
    if any(b"/" in n for n in ns):
        ks.append("slash")
    if any(b"\x00" in n for n in ns):
        ks.append("nul-in-name")
    if any(len(e[2]) != 40 for e in c["entries"]):
        ks.append("target-not-20")
    if nontrivial(c):
        ks.append("prefix-or-straddle")
    return ks


def _fresh(t):
    """a str equal to t but a distinct, non-interned object (as JSON / msgpack / database decoding produce)"""
    return t.encode("ascii").decode("ascii")


def _build(entries, fresh=False):
    from swh.model.model import Directory, DirectoryEntry
    return Directory(entries=tuple(
        DirectoryEntry(name=bytes.fromhex(n), type=_fresh(t) if fresh else t, target=bytes.fromhex(tg), perms=p)
        for n, t, tg, p in entries))


_LAST_ID = [b"\x02" * 20]


def impl(c):
    from swh.model import git_objects
    from swh.model.model import Directory
    res = {}
    try:
        d = _build(c["entries"])
        res["manifest"] = git_objects.directory_git_object(d).hex()
        res["id"] = d.id.hex()
        res["swhid"] = str(d.swhid())
        res["compute_hash"] = d.compute_hash().hex()
    except Exception as e:
        res["error"] = exc_class(e)
        return res
    try:
        res["id_fresh_strings"] = _build(c["entries"], fresh=True).id.hex()
    except Exception as e:
        res["id_fresh_strings"] = "error:" + exc_class(e)
    try:
        d2 = _build([c["entries"][i] for i in c["perm"]])
        res["id_perm"] = d2.id.hex()
    except Exception as e:
        res["id_perm"] = "error:" + exc_class(e)
    try:
        import warnings
        with warnings.catch_warnings():
            warnings.simplefilter("ignore")
            # deprecated route: a plain dict instead of a Directory
            ents = [{"name": bytes.fromhex(n), "type": t, "target": bytes.fromhex(tg), "perms": p} for n, t, tg, p in c["entries"]]
            res["manifest_from_dict_arg"] = git_objects.directory_git_object({"entries": ents}).hex()
            # ... carrying an id that is not its own (one value for the whole run, the id of the previous case, its own):
            # the id key of the dict must not decide what is formatted
            for stale in (b"\x01" * 20, _LAST_ID[0], bytes.fromhex(res["id"]) if isinstance(res.get("id"), str) and len(res["id"]) == 40 else b""):
                git_objects.directory_git_object({"id": stale, "entries": [dict(e) for e in ents[1:]]})   # another object seen under that id first
                m2 = git_objects.directory_git_object({"id": stale, "entries": [dict(e) for e in ents]}).hex()
                if m2 != res["manifest_from_dict_arg"]:
                    res["manifest_from_dict_arg"] = "differs when the dict carries the id %s: %s" % (stale.hex(), m2[:80])
            if isinstance(res.get("id"), str) and len(res["id"]) == 40:
                _LAST_ID[0] = bytes.fromhex(res["id"])
    except Exception as e:
        res["manifest_from_dict_arg"] = "error:" + exc_class(e)
    try:
        d3 = Directory.from_dict({"entries": [{"name": bytes.fromhex(n), "type": t, "target": bytes.fromhex(tg), "perms": p}
                                              for n, t, tg, p in c["entries"]]})
        res["id_from_dict"] = d3.id.hex()
    except Exception as e:
        res["id_from_dict"] = "error:" + exc_class(e)
    return res


def enc_entries(es):
    if not es:
        return "."
    return "|".join("%s:%s:%s:%d" % (hx(bytes.fromhex(n)), TCODE[t], hx(bytes.fromhex(tg)), p) for n, t, tg, p in es)


def requests(c, ires):
    e = enc_entries(c["entries"])
    r = ["dir " + e, "git " + e, "dir " + enc_entries([c["entries"][i] for i in c["perm"]])]
    if "manifest" in ires:
        r.append("dec " + hx(bytes.fromhex(ires["manifest"])))
    return r


def model(c, resp):
    res = {"dir": resp[0], "git": resp[1], "dir_perm": resp[2]}
    if len(resp) > 3:
        res["decoded_impl_manifest"] = resp[3]
    return res


def _wf(c):
    return all(b"\x00" not in n and b"/" not in n for n in _names(c))


def oracle(c, ires, mres):
    """the property on the implementation, using only spec-level artefacts:
    the independent git-rule encoder and the independent decoder (both extracted
    from Coq), hashlib, and permutation of the input"""
    ns = _names(c)
    valid = len(set(ns)) == len(ns) and all(b"/" not in n for n in ns)
    if "error" in ires:
        if valid:
            return "a valid entry set was rejected with " + ires["error"]
        return None
    if not valid:
        return None    # invalid sets: only the verdict is compared (compare())
    man = bytes.fromhex(ires["manifest"])
    if ires["id"] != hashlib.sha1(man).hexdigest():
        return "id is not the SHA-1 of the manifest"
    if ires["id_fresh_strings"] != ires["id"]:
        return "id depends on the identity (not the value) of the entry type strings: %s vs %s" % (ires["id"], ires["id_fresh_strings"])
    if ires["id_perm"] != ires["id"]:
        return "id depends on the order of the entries: %s vs %s" % (ires["id"], ires["id_perm"])
    if ires["manifest_from_dict_arg"] != ires["manifest"]:
        return "directory_git_object(<dict>) differs from directory_git_object(<Directory>)"
    if ires["id_from_dict"] != ires["id"] or ires["compute_hash"] != ires["id"]:
        return "id differs between constructor / from_dict / compute_hash"
    if ires["swhid"] != "swh:1:dir:" + ires["id"]:
        return "swhid() does not carry the id"
    if _wf(c):
        if mres["git"] != "ok " + hx(man):
            return "manifest differs from git's tree object for these entries (independent encoder, git ordering rule)"
        if all(len(e[2]) == 40 for e in c["entries"]):
            want = sorted((p, bytes.fromhex(n), bytes.fromhex(tg)) for n, t, tg, p in c["entries"])
            got = mres.get("decoded_impl_manifest", "")
            if not got.startswith("ok"):
                return "the manifest cannot be decoded back into entries: " + got
            dec = [] if got == "ok ." else [(int(a), unhx(b), unhx(cc)) for a, b, cc in (t.split(":") for t in got[3:].split("|"))]
            if sorted(dec) != want:
                return "decoding the manifest does not give back the entry set"
    return None


def compare(c, ires, mres):
    if "error" in ires:
        if mres["dir"] != "err " + ires["error"]:
            return "implementation raised %s, model says %s" % (ires["error"], mres["dir"][:40])
        return None
    if not mres["dir"].startswith("ok "):
        return "implementation accepted, model says " + mres["dir"]
    _, man, sha = mres["dir"].split(" ")
    if man != hx(bytes.fromhex(ires["manifest"])):
        return "manifest bytes differ between model and implementation"
    if sha != ires["id"]:
        return "id differs from the model's SHA-1 of the manifest"
    if mres["dir_perm"] != mres["dir"]:
        return "MODEL is order-dependent on this input (model bug)"
    return None


def shrink(c):
    es = c["entries"]
    for k in range(len(es)):
        sub = es[:k] + es[k + 1:]
        yield {"entries": sub, "perm": list(reversed(range(len(sub))))}
    for k, e in enumerate(es):
        nm = bytes.fromhex(e[0])
        if len(nm) > 1:
            for cut in (nm[:-1], nm[1:]):
                e2 = [cut.hex()] + e[1:]
                yield {"entries": es[:k] + [e2] + es[k + 1:], "perm": c["perm"]}


def pre_checks(ctx):
    """validation of the spec-level definition against real git (thorough tier):
    `git mktree` on type/mode-consistent entries gives the same id"""
    out = []
    if ctx.tier != "thorough":
        return out
    import random
    rng = random.Random(ctx.seed + 77)
    d = tempfile.mkdtemp(prefix="c02git")
    try:
        subprocess.run(["git", "init", "-q", d], check=True)
        bad = 0
        for _ in range(300):
            n = rng.randrange(0, 8)
            names = [nm for nm in gen_names(rng, n, False) if nm and b"\n" not in nm and nm not in (b".", b"..", b".git")]
            es, lines = [], []
            for nm in names:
                t = rng.choice(TYPES)
                perms = {"file": rng.choice([0o100644, 0o100755, 0o120000]), "dir": 0o40000, "rev": 0o160000}[t]
                tg = bytes(rng.randrange(256) for _ in range(20))
                es.append([nm.hex(), t, tg.hex(), perms])
                gt = {"file": "blob", "dir": "tree", "rev": "commit"}[t]
                lines.append(b"%o %s %s\t%s" % (perms, gt.encode(), tg.hex().encode(), nm))
            p = subprocess.run(["git", "-C", d, "mktree", "--missing", "-z"], input=b"\0".join(lines) + (b"\0" if lines else b""),
                               stdout=subprocess.PIPE, stderr=subprocess.PIPE)
            if p.returncode:
                continue
            want = p.stdout.decode().strip()
            got = _build(es).id.hex()
            if want != got:
                bad += 1
                out.append(("spec-validation:git-mktree", "git mktree gives %s, library %s for %r" % (want, got, es)))
                break
    finally:
        subprocess.run(["rm", "-rf", d])
    return out


# functions of /repo whose executed-line coverage by this run is reported in the evidence
ANCHORS = [('swh/model/git_objects.py', 'directory_entry_sort_key'),
           ('swh/model/git_objects.py', '_perms_to_bytes'),
           ('swh/model/git_objects.py', 'directory_git_object'),
           ('swh/model/git_objects.py', 'format_git_object_from_parts'),
           ('swh/model/hashutil.py', 'git_object_header'),
           ('swh/model/model.py', 'DirectoryEntry.check_name'),
           ('swh/model/model.py', 'Directory.check_entries'),
           ('swh/model/model.py', 'Directory._compute_hash_from_attributes')]


def coq_cases(cases):
    """mk_dir_manifest evaluated by vm_compute inside Coq vs the extracted driver (extraction cross-check)"""
    from . import core
    cases = [c for c in cases if len(c["entries"]) <= 8]
    ty = {"file": "EFile", "dir": "EDir", "rev": "ERev"}
    def nl(h):
        return "[" + "; ".join("%d%%N" % b for b in bytes.fromhex(h)) + "]"
    def coq_entries(es):
        return "[" + "; ".join("{| e_name := %s; e_type := %s; e_target := %s; e_perms := %d%%N |}" % (nl(n), ty[t], nl(tg), p)
                               for n, t, tg, p in es) + "]"
    src = ("From Coq Require Import List NArith.\nFrom SWH.lib Require Import Bytes.\nFrom SWH.model Require Import Dir.\nImport ListNotations.\n" + core.COQ_CHECKSUM +
           "\nDefinition cases : list (list entry) := [" + ";\n ".join(coq_entries(c["entries"]) for c in cases) + "].\n"
           "Eval vm_compute in map (fun es => match mk_dir_manifest es with DirOk m => cksum m | DirValueError => 0%N end) cases.\n")
    resp = core.run_driver(ID, ["dir " + enc_entries(c["entries"]) for c in cases])
    exp = [core.py_cksum(unhx(r.split(" ")[1])) if r.startswith("ok ") else 0 for r in resp]
    return src, exp
