"""C02 - directory ids are git tree ids (git_objects.directory_git_object,
model.Directory / DirectoryEntry validators)."""
import hashlib
import itertools
import os
import subprocess
import tempfile

from .core import exc_class, hx, unhx

ID = "C02"
PROPS = "Props/C02.v"
EXTRACT = "extract/ExC02.v"
OBLIGATION = "directory_git_object"
REQUESTS_NEED_IMPL = True
THEOREMS = ["C02_order_free", "C02_is_git_tree", "C02_git_order", "C02_mode_octal", "C02_mode_no_leading_zero",
            "C02_decode", "C02_manifest_injective", "C02_distinct_sets_distinct_manifests", "C02_only_entries",
            "C02_raw_manifest_overrides", "C02_no_raw_manifest_is_default", "C02_valid_iff",
            "C02_satisfiable"]
RULE = ("entry sets of 0-40 entries (plus a few of several hundred entries with more distinct modes than the mode cache "
        "holds, names of several thousand bytes, payload lengths 1 below / at / above a power of ten); names built as "
        "prefix chains over an adversarial alphabet (bytes next to '/', space, newline, NUL, >=0x80, both letter cases) "
        "with file/dir/rev types mixed so that keys collide in sort order (and homogeneous sets: all sub-directories, all files, all revisions); perms: the five canonical, boundary values "
        "(0, 1, 7, 8, set-uid/set-gid/sticky bits, symlink and directory types with permission bits, 0o177777), random "
        "16-bit and a few beyond 16 bits (2^16 .. 2^64; the theorems cover every N); targets random or patterned "
        "(all 00 / ff / spaces / newlines, leading / trailing NUL); each set is supplied in a chosen order (shuffled, "
        "sorted by raw name, by git key, reversed) and in two more orders; every case also (a) rebuilds the directory "
        "with equal values of other types / argument shapes (str / bytes / tuple / DirectoryEntry subclasses, positional "
        "arguments, perms as bool / IntEnum / int subclass, id=b'' and raw_manifest=None given explicitly), "
        "(b) reads manifest / id / swhid / compute_hash / check / unique_key / to_dict in a per-case order, (c) goes "
        "through from_dict (entries as list / tuple / generator / iterator, OrderedDict, explicit id / raw_manifest keys, "
        "the same dict twice), the deprecated dict argument (same dict twice, stale ids), evolve, to_dict -> from_dict, "
        "explicit stale ids, (d) formats a VARIANT set right after (one target / mode / type / name changed, two targets / "
        "modes / types swapped, an entry dropped / added; in a quarter of the cases ONLY the type of an entry that has a "
        "sibling extending its name with a byte below '/' - every ordered pair of types, same mode / name / target; for an "
        "invalid set: the repaired set) and then the first set again - both through the constructors and through every "
        "dictionary-decoding route (Directory.from_dict, directory_git_object(<dict>), DirectoryEntry.from_dict of each row, "
        "entries given as list / tuple / generator / iterator), each result being that of its own dictionary, (e) calls directory_entry_sort_key on dict entries and format_git_object_from_parts on a one-shot "
        "generator of chunks, (f) gives a raw_manifest (b'', its own manifest, junk); invalid sets (duplicate names incl. "
        "the same entry twice, '/' in a name: inside, leading, trailing, alone, doubled) included; non-trivial = >=2 "
        "entries whose names are prefixes of each other or straddle '/'; distinct = distinct request")
TRUSTED = ["Python bytes ordering, sorted(key=) stability, oct(), b''.join as modelled in lib/Order.v, lib/StableSort.v, lib/Hex.v",
           "lib/Sha1.v is only an instance of the hash oracle (validated against hashlib on every case)",
           "attrs: converter=int on perms, isinstance-based type validators (equal values of other types reach the encoder "
           "as the plain values the model takes), attr.evolve / attr.asdict"]
ASSUMPTIONS = ["targets are 20 bytes and names NUL-free for the decode/injectivity theorems (the property's domain)",
               "agreement with real git (`git mktree`) is validation of the spec-level definition, not a theorem",
               "perms are non-negative (the model takes N; a negative perms value is accepted by the library and written as "
               "'o<digits>', outside the property's 16-bit quantifier)",
               "the behaviour under a recorded raw_manifest is compared with the model (C02_raw_manifest_overrides), not judged "
               "by the property oracle: the property speaks of directories identified by their entries"]

TYPES = ["file", "dir", "rev"]
TCODE = {"file": "f", "dir": "d", "rev": "r"}
ALPHA = [b"a", b"b", b".", b"-", b"0", b" ", b"\n", b"\x00", b"\x80", b"\xff", b"A", b"~", b"\x2e", b"\x30", b"_", b"B", b"Z", b"^"]
CANON_PERMS = [0o100644, 0o100755, 0o120000, 0o040000, 0o160000]
EDGE_PERMS = [0, 1, 7, 8, 0o777, 0o1000, 0o2000, 0o4000, 0o7777, 0o10000, 0o104755, 0o102644, 0o41777, 0o40755, 0o120777,
              0o120755, 0o100664, 0o100000, 0o140644, 0o177777]
BIG_PERMS = [2 ** 16, 2 ** 16 + 1, 2 ** 31, 2 ** 32 + 5, 2 ** 63, 2 ** 64]
SHAPES = ["strsub", "tgtsub", "tuplesub", "entrysub", "positional", "permalt", "defaults"]
READS = ["manifest", "id", "swhid", "compute_hash", "check", "unique_key", "to_dict"]
ORDERS = ["shuffle", "name", "name_rev", "git", "git_rev"]
DICT_AS = ["list", "tuple", "gen", "iter", "ordered", "extras"]
VARIANTS = ["target", "perms", "type", "name", "drop", "add", "swap_target", "swap_perms", "swap_type"]


def gen_names(rng, n, allow_bad):
    names = set()
    base = [b"a", b"ab", b"a.b", b"a-", b"a0", b"a b", b"a\n", b"A", b"", b"\xff", b"a\x80", b".", b"-", b"0", b"Ab", b"B", "e\u0301".encode(), "\u212b".encode(), "\uf900".encode(), "cafe\u0301".encode()]
    while len(names) < n:
        r = rng.random()
        if r < 0.35 and names:
            nm = rng.choice(sorted(names)) + rng.choice(ALPHA)       # extend an existing name: prefix chains
        elif r < 0.55:
            nm = rng.choice(base)
        elif r < 0.63:
            # a literal harvested from the code under test ('.git', 'HEAD', a suffix that some code strips ...), '/'-free
            from .gitobj_common import source_tokens, splice_token
            nm = splice_token(rng, rng.choice(base), "bytes").replace(b"/", b"_")
        else:
            nm = b"".join(rng.choice(ALPHA) for _ in range(rng.randrange(1, 6)))
        if not allow_bad:
            nm = nm.replace(b"\x00", b"z")
        names.add(nm)
    return sorted(names)


def gen_perms(rng):
    r = rng.random()
    if r < 0.06:      # a constant of the code under test (a mask, a mode, a threshold a change introduces) and its neighbours
        from .gitobj_common import source_ints
        c = [v for v in source_ints() if 0 <= v < 65536]
        if c:
            return rng.choice(c)
    if r < 0.45:
        return rng.choice(CANON_PERMS)
    if r < 0.72:
        return rng.choice(EDGE_PERMS)
    if r < 0.97:
        return rng.randrange(65536)
    return rng.choice(BIG_PERMS)


def gen_target(rng, tl=20):
    r = rng.random()
    if r < 0.88 or tl == 0:
        return bytes(rng.randrange(256) for _ in range(tl))
    if r < 0.94:
        return bytes([rng.choice([0, 0xff, 0x20, 0x0a, 0x2f, 0x30])]) * tl
    t = bytearray(rng.randrange(256) for _ in range(tl))
    t[rng.choice([0, -1])] = rng.choice([0, 0x20, 0x0a])
    return bytes(t)


def _git_key(e):
    n = bytes.fromhex(e[0])
    return n + b"/" if e[1] == "dir" else n


def _ordered(rng, es, how):
    es = list(es)
    if how == "name":
        es.sort(key=lambda e: bytes.fromhex(e[0]))
    elif how == "name_rev":
        es.sort(key=lambda e: bytes.fromhex(e[0]), reverse=True)
    elif how == "git":
        es.sort(key=_git_key)
    elif how == "git_rev":
        es.sort(key=_git_key, reverse=True)
    else:
        rng.shuffle(es)
    return es


def gen_entries(rng, n, kind):
    """-> (entries, the entry that makes the set invalid or None)"""
    names = gen_names(rng, n, allow_bad=(kind == "nul"))
    es = []
    # homogeneous sets (all sub-directories, all files, all revisions) as well as mixed ones
    pool = rng.choice([TYPES] * 7 + [["dir"], ["file"], ["rev"], ["dir", "dir", "dir", "file"], ["dir", "rev"]])
    for nm in names:
        t = rng.choice(pool)
        tl = 20 if kind != "shorttarget" else rng.choice([0, 1, 19, 20, 21])
        es.append([nm.hex(), t, gen_target(rng, tl).hex(), gen_perms(rng)])
    bad = None
    if kind == "dup" and es:
        bad = list(rng.choice(es))
        if rng.random() < 0.7:
            bad[1] = rng.choice(TYPES)      # else: the very same entry twice
        es.append(bad)
    if kind == "slash" and es:
        bad = list(rng.choice(es))
        nm = bytes.fromhex(bad[0])
        bad[0] = rng.choice([nm + b"/x", nm + b"/", b"/" + nm, b"/", nm + b"//" + nm, nm[:1] + b"/" + nm[1:]]).hex()
        if bad[0] in [e[0] for e in es]:
            bad[0] = (nm + b"/x").hex()
        es.append(bad)
    return es, bad


LOW = [b".", b"-", b" ", b"\n", b"!", b"\x01", b"+", b","]      # bytes that sort below '/'


def _with_prefix_pair(rng, es):
    """make sure some entry has a sibling whose name extends its own with a byte below '/' (added when absent);
    -> (entries, that entry)"""
    es = list(es)
    names = {e[0] for e in es}
    for e in rng.sample(es, len(es)):
        n = bytes.fromhex(e[0])
        if any(bytes.fromhex(x).startswith(n) and len(x) > len(e[0]) and bytes.fromhex(x)[len(n)] < 0x2f for x in names):
            return es, e
    e = rng.choice(es)
    nm = (bytes.fromhex(e[0]) + rng.choice(LOW) + rng.choice([b"", b"b", b"c"])).hex()
    es.append([nm, rng.choice(TYPES), gen_target(rng, len(e[2]) // 2).hex(), gen_perms(rng)])
    return es, e


def gen_variant(rng, es, bad, retype=None):
    """a second entry set, formatted right after the first: one field of one entry changed, two fields swapped, an
    entry dropped or added; for a set made invalid by one entry: the repaired set; retype: the entry whose type alone
    changes (same mode, name and target), every ordered pair of types"""
    if bad is not None:
        return {"kind": "repaired", "entries": [e for e in es if e is not bad]}
    if retype is not None:
        t2 = rng.choice([t for t in TYPES if t != retype[1]])
        return {"kind": "type_prefix:%s->%s" % (retype[1], t2), "entries": [[e[0], t2, e[2], e[3]] if e is retype else list(e) for e in es]}
    names = {e[0] for e in es}
    kinds = ["add"] if not es else [k for k in VARIANTS if len(es) >= 2 or not k.startswith("swap")]
    k = rng.choice(kinds)
    vs = [list(e) for e in es]
    i = rng.randrange(len(vs)) if vs else 0
    if k == "target":
        t = bytearray.fromhex(vs[i][2])
        if t:
            t[rng.randrange(len(t))] ^= 1 << rng.randrange(8)
        else:
            t = bytearray(b"\x01")
        vs[i][2] = bytes(t).hex()
    elif k == "perms":
        p = vs[i][3]
        vs[i][3] = rng.choice([p ^ 0o1000, p ^ 0o4000, p ^ 1, p + 1, p ^ 0o40000, p * 8, p // 8 if p >= 8 else p + 8])
    elif k == "type":
        vs[i][1] = rng.choice([t for t in TYPES if t != vs[i][1]])
    elif k == "name":
        for _ in range(20):
            nm = (bytes.fromhex(vs[i][0]) + rng.choice([a for a in ALPHA if a != b"\x00"])).hex()
            if nm not in names:
                vs[i][0] = nm
                break
    elif k == "drop":
        del vs[i]
    elif k == "add":
        for _ in range(20):
            nm = (rng.choice(ALPHA[:7]) + rng.choice(ALPHA[:7]) + rng.choice(ALPHA[:7])).hex()
            if nm not in names:
                vs.insert(rng.randrange(len(vs) + 1), [nm, rng.choice(TYPES), gen_target(rng).hex(), gen_perms(rng)])
                break
    else:
        j = rng.choice([x for x in range(len(vs)) if x != i])
        f = {"swap_target": 2, "swap_perms": 3, "swap_type": 1}[k]
        vs[i][f], vs[j][f] = vs[j][f], vs[i][f]
    return {"kind": k, "entries": vs}


def _decorate(rng, es, bad, first=None):
    """the dimensions every case carries besides the entry set"""
    retype = None
    if bad is None and es and len(es) <= 40 and rng.random() < 0.25:
        es, retype = _with_prefix_pair(rng, es)
    es = _ordered(rng, es, first or rng.choice(ORDERS))
    perm = list(range(len(es)))
    rng.shuffle(perm)
    how2 = rng.choice(ORDERS[1:])
    idx = {id(e): k for k, e in enumerate(es)}
    perm2 = [idx[id(e)] for e in _ordered(rng, es, how2)]
    reads = list(READS)
    rng.shuffle(reads)
    return {"entries": es, "perm": perm, "perm2": perm2,
            "shape": sorted(rng.sample(SHAPES, rng.choice([1, 1, 2, 3, len(SHAPES)]))),
            "reads": reads, "dict_as": rng.choice(DICT_AS),
            "stale": rng.choice(["01" * 20, "00" * 20, bytes(rng.randrange(256) for _ in range(20)).hex()]),
            "raw": rng.choice([None, None, "", "own", "74726565203000", bytes(rng.randrange(256) for _ in range(rng.randrange(1, 30))).hex()]),
            "cuts": [rng.randrange(100000) for _ in range(rng.randrange(0, 5))],
            "variant": gen_variant(rng, es, bad, retype)}


def gen_special(rng, tier):
    """large / long / boundary-length sets"""
    out = []
    # payload length 1 below / at / above a power of ten: one entry "100644 <name>\0<20 bytes>" is 28 + len(name) bytes
    for L in (99, 100, 101, 999, 1000, 1001) + ((9999, 10000, 10001, 99999, 100000) if tier == "thorough" else ()):
        nm = bytes(rng.choice(b"ab.-0") for _ in range(L - 28))
        es = [[nm.hex(), "file", gen_target(rng).hex(), 0o100644]]
        if rng.random() < 0.5 and L > 200:
            # two entries, same total: 5 + 1 + k + 1 + 20 for a directory whose name is a prefix of the file's
            k = 40
            nm = nm[:L - 28 - (27 + k)]
            es = [[nm.hex(), "file", gen_target(rng).hex(), 0o100644], [nm[:k].hex(), "dir", gen_target(rng).hex(), 0o40000]]
        out.append(_decorate(rng, es, None))
    # more distinct modes in one directory than the mode cache holds (128), each mode met again after the others
    for n in ((200,) if tier == "quick" else (130, 300, 1000, 3000)):
        names = sorted({b"%c%c%d" % (rng.choice(b"ab.-0~"), rng.choice(b"ab.-0~"), rng.randrange(10 * n)) for _ in range(n)})
        perms = [rng.randrange(65536) for _ in range(max(129, n // 2))]
        es = [[nm.hex(), rng.choice(TYPES), gen_target(rng).hex(), perms[k % len(perms)]] for k, nm in enumerate(names)]
        out.append(_decorate(rng, es, None, first=rng.choice(["name", "git", "shuffle"])))
    # names of several thousand bytes that differ only at the very end, a directory among them
    for ln in ((1200,) if tier == "quick" else (3000, 70000)):
        stem = bytes(rng.choice(b"ab") for _ in range(ln))
        es = [[stem.hex(), "dir", gen_target(rng).hex(), 0o40000], [(stem + b".").hex(), "file", gen_target(rng).hex(), 0o100644],
              [(stem + b"0").hex(), "rev", gen_target(rng).hex(), 0o160000], [(stem[:-1]).hex(), "dir", gen_target(rng).hex(), 0o40755]]
        out.append(_decorate(rng, es, None))
    for c in out:
        c["big"] = True
    return out


def gen(rng, tier):
    n_cases = 600 if tier == "quick" else 40000
    cases = [{"entries": [], "perm": []}, _decorate(rng, [], None)]
    kinds = ["ok"] * 6 + ["dup", "slash", "nul", "shorttarget"]
    for k in range(n_cases):
        n = rng.choice([0, 1, 2, 2, 3, 3, 4, 5, 8, 13, 25, 40])
        es, bad = gen_entries(rng, n, kinds[k % len(kinds)])
        cases.append(_decorate(rng, es, bad))
    cases += gen_special(rng, tier)
    # deterministic sweep over the literals harvested from the code under test (see c04): entry names ('/' removed)
    from .gitobj_common import source_tokens
    toks = [t.replace(b"/", b"_").replace(b"\x00", b"_") for t in source_tokens("bytes")]
    for i in range(0, len(toks), 4):
        es, seen = [], set()
        for j, t in enumerate(toks[i:i + 4]):
            for nm, ty, pm in ((t, "file", 0o100644), (t + b".d", "dir", 0o40000), (b"a" + t, "rev", 0o160000)):
                if nm and nm not in seen:
                    seen.add(nm)
                    es.append([nm.hex(), ty, (bytes([(i + j) % 251 + 1]) * 20).hex(), pm])
        cases.append({"entries": es, "perm": list(reversed(range(len(es))))})
    if tier == "thorough":
        # exhaustive: all sets of <= 3 entries over a 6-name x 3-type alphabet, all permutations
        names = [b"a", b"a.", b"a0", b"a-", b"ab", b"a/"[:1] + b"\x2f"[:0] + b"~"]
        univ = [(nm, t) for nm in names for t in TYPES]
        for r in range(0, 4):
            for combo in itertools.combinations(univ, r):
                if len({nm for nm, _ in combo}) < len(combo):
                    continue
                es = [[nm.hex(), t, (bytes([i + 1]) * 20).hex(), {"file": 0o100644, "dir": 0o40000, "rev": 0o160000}[t]]
                      for i, (nm, t) in enumerate(combo)]
                for perm in itertools.permutations(range(len(es))):
                    cases.append({"entries": es, "perm": list(perm)})
    return cases


def _names(c):
    return [bytes.fromhex(e[0]) for e in c["entries"]]


def nontrivial(c):
    ns = _names(c)
    if len(ns) < 2 or c.get("big"):
        return len(ns) >= 2
    for a in ns:
        for b in ns:
            if a != b and (b.startswith(a) or (a and b and a[:-1] == b[:-1] and (a[-1] < 0x2f) != (b[-1] < 0x2f))):
                return True
    return False


def classify(c):
    ns = _names(c)
    ks = ["n=%s" % (len(ns) if len(ns) < 5 else "5-13" if len(ns) <= 13 else "14-40" if len(ns) <= 40 else ">40")]
    if len(set(ns)) < len(ns):
        ks.append("dup-name")
    if any(b"/" in n for n in ns):
        ks.append("slash")
        ks += ["slash:" + ("alone" if n == b"/" else "trailing" if n.endswith(b"/") else "leading" if n.startswith(b"/") else "inside")
               for n in ns if b"/" in n]
    if any(b"\x00" in n for n in ns):
        ks.append("nul-in-name")
    if any(len(e[2]) != 40 for e in c["entries"]):
        ks.append("target-not-20")
    if nontrivial(c):
        ks.append("prefix-or-straddle")
    if len(ns) >= 2 and len({e[1] for e in c["entries"]}) == 1:
        ks.append("all-" + c["entries"][0][1])
    ps = [e[3] for e in c["entries"]]
    if any(p & 0o7000 and p < 65536 for p in ps):
        ks.append("perms:suid/sgid/sticky-bits")
    if any(p & 0o170000 == 0o120000 and p & 0o7777 for p in ps):
        ks.append("perms:symlink-with-permission-bits")
    if any(p >= 65536 for p in ps):
        ks.append("perms:beyond-16-bit")
    if len(set(ps)) > 128:
        ks.append("perms:more-distinct-than-the-mode-cache")
    if any(len(set(bytes.fromhex(e[2]))) == 1 or e[2][:2] == "00" or e[2][-2:] in ("00", "20", "0a") for e in c["entries"] if e[2]):
        ks.append("target:patterned-or-nul/space-at-an-end")
    if any(len(n) > 1000 for n in ns):
        ks.append("name>1000-bytes")
    if "shape" in c:
        es = c["entries"]
        byname = sorted(es, key=lambda e: bytes.fromhex(e[0]))
        bygit = sorted(es, key=_git_key)
        if len(es) >= 2:
            ks.append("supplied:" + ("name-sorted" if es == byname else "git-sorted" if es == bygit else "reverse-sorted"
                                       if es in (byname[::-1], bygit[::-1]) else "unsorted"))
        ks += ["shape:" + s for s in c["shape"]]
        ks.append("dict-as:" + c["dict_as"])
        ks.append("raw:" + ("none" if c["raw"] is None else "empty" if c["raw"] == "" else "own" if c["raw"] == "own" else "other"))
        ks.append("first-read:" + c["reads"][0])
        if c.get("variant"):
            ks.append("variant:" + c["variant"]["kind"].split(":")[0])
            if ":" in c["variant"]["kind"]:
                ks.append("variant:" + c["variant"]["kind"])
    return ks


def _fresh(t):
    """a str equal to t but a distinct, non-interned object (as JSON / msgpack / database decoding produce)"""
    return t.encode("ascii").decode("ascii")


class _S(str):
    pass


class _B(bytes):
    pass


class _T(tuple):
    pass


class _I(int):
    pass


_SUB = {}


def _entry_subclass():
    if "E" not in _SUB:
        from swh.model.model import DirectoryEntry

        class EntrySub(DirectoryEntry):
            __slots__ = ()
        _SUB["E"] = EntrySub
    return _SUB["E"]


def _perms_alt(p, i):
    """an int equal to p of another type: bool, the IntEnum of from_disk, an int subclass"""
    from swh.model.from_disk import DentryPerms
    if p in (0, 1) and i % 2 == 0:
        return bool(p)
    if p in CANON_PERMS:
        return DentryPerms(p)
    return _I(p)


def _build_entries(entries, fresh=False, shape=()):
    from swh.model.model import DirectoryEntry
    cls = _entry_subclass() if "entrysub" in shape else DirectoryEntry
    out = []
    for i, (n, t, tg, p) in enumerate(entries):
        ty = _fresh(t) if fresh else _S(t) if "strsub" in shape else t
        tgt = _B(bytes.fromhex(tg)) if "tgtsub" in shape else bytes.fromhex(tg)
        pp = _perms_alt(p, i) if "permalt" in shape else p
        if "positional" in shape:
            out.append(cls(bytes.fromhex(n), ty, tgt, pp))
        else:
            out.append(cls(name=bytes.fromhex(n), type=ty, target=tgt, perms=pp))
    return _T(out) if "tuplesub" in shape else tuple(out)


def _build(entries, fresh=False, shape=()):
    from swh.model.model import Directory
    ents = _build_entries(entries, fresh, shape)
    if "defaults" in shape:
        if "positional" in shape:
            return Directory(ents, b"", None)
        return Directory(entries=ents, id=b"", raw_manifest=None)
    if "positional" in shape:
        return Directory(ents)
    return Directory(entries=ents)


def _ent_dicts(entries, ordered=False):
    import collections
    mk = collections.OrderedDict if ordered else dict
    return [mk([("name", bytes.fromhex(n)), ("type", t), ("target", bytes.fromhex(tg)), ("perms", p)]) for n, t, tg, p in entries]


def _dict_arg(entries, how):
    """the dictionary form of a directory, with the entries in the container `how` names"""
    import collections
    ents = _ent_dicts(entries, ordered=(how == "ordered"))
    if how == "tuple":
        return {"entries": tuple(ents)}
    if how == "gen":
        return {"entries": (e for e in ents)}
    if how == "iter":
        return {"entries": iter(ents)}
    if how == "ordered":
        return collections.OrderedDict([("entries", ents)])
    if how == "extras":
        return {"raw_manifest": None, "id": b"", "entries": ents}
    return {"entries": ents}


def _try(f):
    try:
        return f()
    except Exception as e:
        return "error:" + exc_class(e)


def _verdict(f):
    try:
        f()
        return "accepted"
    except Exception as e:
        return exc_class(e)


def _ishex(x, n=None):
    if not isinstance(x, str) or x.startswith("error:") or (n is not None and len(x) != n):
        return False
    try:
        bytes.fromhex(x)
        return True
    except ValueError:
        return False


_LAST_ID = [b"\x02" * 20]


def _read(d, op):
    from swh.model import git_objects
    from swh.model.model import Directory
    if op == "manifest":
        return git_objects.directory_git_object(d).hex()
    if op == "id":
        return d.id.hex()
    if op == "swhid":
        return str(d.swhid())
    if op == "compute_hash":
        return d.compute_hash().hex()
    if op == "check":
        d.check()
        return "ok"
    if op == "unique_key":
        return d.unique_key().hex()
    if op == "to_dict":
        # the dictionary form carries the id; rebuilt without it the id is recomputed; the caller then edits what it got back
        td = d.to_dict()
        if td.get("id") != d.id or "raw_manifest" in td or not isinstance(td.get("entries"), tuple):
            return "to_dict() does not describe the directory: keys %s" % sorted(td)
        rebuilt = Directory.from_dict({k: v for k, v in td.items() if k != "id"}).id.hex()
        for e in td["entries"]:
            e["name"], e["perms"], e["target"], e["type"] = b"edited", 0, b"", "rev"
        td["entries"] = ()
        td["id"] = b"\x00" * 20
        if d.compute_hash().hex() != rebuilt:
            return "editing the dictionary returned by to_dict() changed compute_hash()"
        return rebuilt
    raise KeyError(op)


def impl(c):
    import copy
    import warnings
    from swh.model import git_objects
    from swh.model.model import Directory
    res = {}
    es = c["entries"]
    try:
        d = _build(es)
    except Exception as e:
        res["error"] = exc_class(e)
        # a refused set is refused whatever the argument shapes and the route
        res["error_shapes"] = _verdict(lambda: _build(es, shape=c.get("shape", ())))
        res["error_from_dict"] = _verdict(lambda: Directory.from_dict(_dict_arg(es, c.get("dict_as", "list"))))
        with warnings.catch_warnings():
            warnings.simplefilter("ignore")
            res["error_dict_arg"] = _verdict(lambda: git_objects.directory_git_object(_dict_arg(es, c.get("dict_as", "list"))))
        res["error_evolve"] = _verdict(lambda: Directory(entries=()).evolve(entries=_build_entries(es)))
        _impl_variant(c, res, None)
        return res
    # the reads, in the order of the case
    reads = c.get("reads") or READS
    for op in reads:
        res[op] = _try(lambda: _read(d, op))
    ident = res.get("id")
    own = bytes.fromhex(ident) if _ishex(ident, 40) else b""
    res["id_fresh_strings"] = _try(lambda: _build(es, fresh=True).id.hex())
    # equal values of other types, other argument shapes
    res["id_shapes"] = _try(lambda: _build(es, shape=c.get("shape", ())).id.hex())
    res["id_perm"] = _try(lambda: _build([es[i] for i in c["perm"]]).id.hex())
    if "perm2" in c:
        res["id_perm2"] = _try(lambda: _build([es[i] for i in c["perm2"]]).id.hex())
    res["id_evolve"] = _try(lambda: Directory(entries=()).evolve(entries=_build_entries(es)).id.hex())
    try:
        with warnings.catch_warnings():
            warnings.simplefilter("ignore")
            # deprecated route: a plain dict instead of a Directory
            ents = _ent_dicts(es)
            res["manifest_from_dict_arg"] = git_objects.directory_git_object(_dict_arg(es, c.get("dict_as", "list"))).hex()
            # ... carrying an id that is not its own (one value for the whole run, the id of the previous case, its own):
            # the id key of the dict must not decide what is formatted
            for stale in (b"\x01" * 20, _LAST_ID[0], own):
                git_objects.directory_git_object({"id": stale, "entries": [dict(e) for e in ents[1:]]})   # another object seen under that id first
                m2 = git_objects.directory_git_object({"id": stale, "entries": [dict(e) for e in ents]}).hex()
                if m2 != res.get("manifest") and "manifest_from_dict_stale_id" not in res:
                    res["manifest_from_dict_stale_id"] = "differs when the dict carries the id %s: %s" % (stale.hex(), m2[:80])
            # ... and the same dict object handed in twice: the call must not consume or edit its argument
            dd = {"entries": ents}
            snap = copy.deepcopy(dd)
            m1 = _try(lambda: git_objects.directory_git_object(dd).hex())
            m2 = _try(lambda: git_objects.directory_git_object(dd).hex())
            res["manifest_same_dict_twice"] = m2 if m1 == m2 and dd == snap else "first %s, then %s, dict now has keys %s" % (m1[:60], m2[:60], sorted(dd))
    except Exception as e:
        res["manifest_from_dict_arg"] = "error:" + exc_class(e)
    res["id_from_dict"] = _try(lambda: Directory.from_dict(_dict_arg(es, c.get("dict_as", "list"))).id.hex())
    dd2 = {"entries": _ent_dicts(es)}
    snap2 = copy.deepcopy(dd2)
    i1 = _try(lambda: Directory.from_dict(dd2).id.hex())
    i2 = _try(lambda: Directory.from_dict(dd2).id.hex())
    res["id_from_dict_twice"] = i2 if i1 == i2 and dd2 == snap2 else "first %s, then %s, dict now has keys %s" % (i1, i2, sorted(dd2))
    # a Directory that was given an id (not its own / the previous case's / its own): what is formatted and recomputed
    # comes from the entries
    for stale in (bytes.fromhex(c.get("stale", "01" * 20)), _LAST_ID[0], own):
        if len(stale) != 20:
            continue
        def with_id():
            ds = Directory(entries=_build_entries(es), id=stale)
            return [ds.compute_hash().hex(), git_objects.directory_git_object(ds).hex()]
        r = _try(with_id)
        if "given_id" not in res or r != [res.get("compute_hash"), res.get("manifest")]:
            res["given_id"] = r
            if r != [res.get("compute_hash"), res.get("manifest")]:
                res["given_id_was"] = stale.hex()
                break
    if own:
        _LAST_ID[0] = own
    # the public helpers called directly
    def sort_keys():
        objs, dicts = list(d.entries), _ent_dicts(es)
        a = [e["name"].hex() for e in sorted(dicts, key=git_objects.directory_entry_sort_key)]
        mixed = [dicts[i] if i % 2 else objs[i] for i in range(len(objs))]
        b = [(e["name"] if isinstance(e, dict) else e.name).hex() for e in sorted(mixed, key=git_objects.directory_entry_sort_key)]
        return a if a == b else "dict entries sort as %s, dict and object entries together as %s" % (a[:6], b[:6])
    res["sorted_names_dict"] = _try(sort_keys)
    if _ishex(res.get("manifest")):
        man = bytes.fromhex(res["manifest"])
        payload = man[man.index(b"\x00") + 1:] if b"\x00" in man else man
        cuts = sorted(x % (len(payload) + 1) for x in c.get("cuts", []))
        chunks = [payload[a:b] for a, b in zip([0] + cuts, cuts + [len(payload)])] + [b""]
        res["from_parts_generator"] = _try(lambda: git_objects.format_git_object_from_parts("tree", (ch for ch in chunks)).hex())
        # a recorded raw manifest
        if c.get("raw") is not None:
            raw = man if c["raw"] == "own" else bytes.fromhex(c["raw"])
            def with_raw():
                dr = Directory(entries=_build_entries(es), raw_manifest=raw)
                return {"used": hx(raw), "id": dr.id.hex(), "compute_hash": dr.compute_hash().hex(),
                        "manifest": git_objects.directory_git_object(dr).hex()}
            res["raw"] = _try(with_raw)
    _impl_variant(c, res, d)
    return res


def _impl_variant(c, res, d):
    """the second entry set, right after the first (d is None when the first was refused)"""
    from swh.model import git_objects
    v = c.get("variant")
    if not v:
        return
    out = {}
    try:
        dv = _build(v["entries"])
        out["manifest"] = git_objects.directory_git_object(dv).hex()
        out["id"] = dv.id.hex()
    except Exception as e:
        out["error"] = exc_class(e)
    if d is not None:
        out["evolve"] = _try(lambda: d.evolve(entries=_build_entries(v["entries"])).id.hex())
        out["id_again"] = _try(lambda: _build(c["entries"]).id.hex())
        out["manifest_again"] = _try(lambda: git_objects.directory_git_object(d).hex())
    # the same neighbour step through every dictionary-decoding route (the first set was decoded through them above):
    # each result must be that of its own dictionary - the second set's, then again the first set's
    how = c.get("dict_as", "list")
    out["dict_routes"] = _try(lambda: _via_dicts(v["entries"], how))
    if d is not None:
        out["dict_routes_first_again"] = _try(lambda: _via_dicts(c["entries"], how))
    res["variant"] = out


def _via_dicts(entries, how):
    """[id by Directory.from_dict, manifest by directory_git_object(<dict>), DirectoryEntry.from_dict of each row] of one
    dictionary; the last is "ok" when every entry has the four fields of its row"""
    import warnings
    from swh.model import git_objects
    from swh.model.model import Directory, DirectoryEntry
    ident = Directory.from_dict(_dict_arg(entries, how)).id.hex()
    with warnings.catch_warnings():
        warnings.simplefilter("ignore")
        man = git_objects.directory_git_object(_dict_arg(entries, how)).hex()
    rows = "ok"
    for x in _ent_dicts(entries):
        e = DirectoryEntry.from_dict(dict(x))
        if (e.name, e.type, e.target, e.perms) != (x["name"], x["type"], x["target"], x["perms"]):
            rows = "DirectoryEntry.from_dict of the row (name %s, type %s, target %s, perms %o) is an entry (name %s, type %s, target %s, perms %o)" % (
                x["name"].hex(), x["type"], x["target"].hex(), x["perms"], e.name.hex(), e.type, e.target.hex(), e.perms)
            break
    ident2 = Directory(entries=tuple(DirectoryEntry.from_dict(dict(x)) for x in _ent_dicts(entries))).id.hex()
    return [ident, man, rows] if ident2 == ident else [ident, man, rows, "Directory(entries=<DirectoryEntry.from_dict of each row>) has id " + ident2]


def enc_entries(es):
    if not es:
        return "."
    return "|".join("%s:%s:%s:%d" % (hx(bytes.fromhex(n)), TCODE[t], hx(bytes.fromhex(tg)), p) for n, t, tg, p in es)


def requests(c, ires):
    e = enc_entries(c["entries"])
    r = ["dir " + e, "git " + e, "dir " + enc_entries([c["entries"][i] for i in c["perm"]])]
    r.append("dec " + hx(bytes.fromhex(ires["manifest"])) if _ishex(ires.get("manifest")) else "nop")
    v = c.get("variant")
    if v:
        ev = enc_entries(v["entries"])
        r += ["dir " + ev, "git " + ev]
    else:
        r += ["nop", "nop"]
    raw = ires.get("raw")
    r.append("cmp %s %s" % (e, raw["used"]) if isinstance(raw, dict) else "nop")
    return r


def model(c, resp):
    res = {"dir": resp[0], "git": resp[1], "dir_perm": resp[2]}
    if len(resp) > 3 and resp[3] != "err bad_request":
        res["decoded_impl_manifest"] = resp[3]
    if len(resp) > 5 and c.get("variant"):
        res["variant_dir"], res["variant_git"] = resp[4], resp[5]
    if len(resp) > 6 and resp[6] != "err bad_request":
        res["raw_compute_hash"] = resp[6]
    return res


def _valid(es):
    ns = [bytes.fromhex(e[0]) for e in es]
    return len(set(ns)) == len(ns) and all(b"/" not in n for n in ns)


def _wf(c):
    """names NUL- and '/'-free, modes within the 16 bits the property quantifies over (the model and the theorems take
    every N: larger modes are compared with the model, not judged by the oracle)"""
    return all(b"\x00" not in n and b"/" not in n for n in _names(c)) and all(0 <= e[3] < 65536 for e in c["entries"])


def _decodable(es):
    return all(b"\x00" not in bytes.fromhex(e[0]) and len(e[2]) == 40 and 0 <= e[3] < 65536 for e in es)


def _triples(es):
    return sorted((p, n, tg) for n, t, tg, p in es)


def oracle(c, ires, mres):
    """the property on the implementation, using only spec-level artefacts:
    the independent git-rule encoder and the independent decoder (both extracted
    from Coq), hashlib, and permutation of the input"""
    es = c["entries"]
    valid = _valid(es)
    v, iv = c.get("variant"), ires.get("variant") or {}
    if "error" in ires:
        if valid:
            return "a valid entry set was rejected with " + ires["error"]
        if v and _valid(v["entries"]) and "error" in iv:
            return "after an invalid set was refused, the valid set without the offending entry was rejected with " + iv["error"]
        if v and _valid(v["entries"]) and _decodable(v["entries"]):
            return _oracle_variant(c, ires, mres, None)
        return None
    if not valid:
        return None    # invalid sets: only the verdict is compared (compare())
    for op in ("manifest", "id", "swhid", "compute_hash"):
        if not isinstance(ires.get(op), str) or ires[op].startswith("error:"):
            return "reading %s of a valid directory failed: %s (reads in the order %s)" % (op, ires.get(op), c.get("reads"))
    man = bytes.fromhex(ires["manifest"])
    order = " (reads in the order %s)" % c["reads"] if "reads" in c else ""
    if ires["id"] != hashlib.sha1(man).hexdigest():
        return "id is not the SHA-1 of the manifest" + order
    if ires["id_fresh_strings"] != ires["id"]:
        return "id depends on the identity (not the value) of the entry type strings: %s vs %s" % (ires["id"], ires["id_fresh_strings"])
    if ires["id_perm"] != ires["id"]:
        return "id depends on the order of the entries: %s vs %s" % (ires["id"], ires["id_perm"])
    if ires.get("id_perm2", ires["id"]) != ires["id"]:
        return "id depends on the order of the entries (second order %s): %s vs %s" % (c["perm2"], ires["id"], ires["id_perm2"])
    if ires["manifest_from_dict_arg"] != ires["manifest"]:
        return "directory_git_object(<dict>) differs from directory_git_object(<Directory>) (entries given as %s): %s" % (
            c.get("dict_as", "list"), ires["manifest_from_dict_arg"][:120])
    if "manifest_from_dict_stale_id" in ires:
        return "directory_git_object(<dict>) differs from directory_git_object(<Directory>): " + ires["manifest_from_dict_stale_id"][:200]
    if ires["id_from_dict"] != ires["id"] or ires["compute_hash"] != ires["id"]:
        return "id differs between constructor / from_dict (entries given as %s) / compute_hash%s: %s / %s / %s" % (
            c.get("dict_as", "list"), order, ires["id"], ires["id_from_dict"], ires["compute_hash"])
    if ires["swhid"] != "swh:1:dir:" + ires["id"]:
        return "swhid() does not carry the id" + order
    # the dimensions added by the audit (absent from cases recorded before it)
    if "id_shapes" in ires and ires["id_shapes"] != ires["id"]:
        return "the same entry set given with equal values of other types / shapes %s gets another id or is refused: %s vs %s" % (
            c.get("shape"), ires["id"], ires["id_shapes"])
    if ires.get("id_evolve", ires["id"]) != ires["id"]:
        return "Directory(entries=()).evolve(entries=...) does not get the id of the entries: %s" % ires["id_evolve"]
    if ires.get("manifest_same_dict_twice", ires["manifest"]) != ires["manifest"]:
        return "directory_git_object(<the same dict>) a second time: " + ires["manifest_same_dict_twice"][:200]
    if ires.get("id_from_dict_twice", ires["id"]) != ires["id"]:
        return "Directory.from_dict(<the same dict>) a second time: " + ires["id_from_dict_twice"][:200]
    if "given_id" in ires and ires["given_id"] != [ires["id"], ires["manifest"]]:
        return ("a Directory built with the id %s given by the caller: compute_hash() / directory_git_object() are %s, the "
                "entries' id and manifest are %s / %s..." % (ires.get("given_id_was"), str(ires["given_id"])[:200], ires["id"], ires["manifest"][:40]))
    for op, want in (("check", "ok"), ("unique_key", ires["id"]), ("to_dict", ires["id"])):
        if op in ires and ires[op] != want:
            return "%s of a valid directory: %s%s" % (op, ires[op], order)
    if "from_parts_generator" in ires and ires["from_parts_generator"] != ires["manifest"]:
        return "format_git_object_from_parts('tree', <one-shot generator of the payload in %d chunks>) is not the manifest: %s" % (
            len(c.get("cuts", [])) + 2, ires["from_parts_generator"][:80])
    if _wf(c):
        if mres["git"] != "ok " + hx(man):
            return "manifest differs from git's tree object for these entries (independent encoder, git ordering rule)"
        if all(len(e[2]) == 40 for e in c["entries"]):
            want = sorted((p, bytes.fromhex(n), bytes.fromhex(tg)) for n, t, tg, p in c["entries"])
            got = mres.get("decoded_impl_manifest", "")
            if not got.startswith("ok"):
                return "the manifest cannot be decoded back into entries: " + got
            dec = [] if got == "ok ." else [(int(a), unhx(b), unhx(cc)) for a, b, cc in (t.split(":") for t in got[3:].split("|"))]
            if sorted(dec) != want:
                return "decoding the manifest does not give back the entry set"
            if "sorted_names_dict" in ires and ires["sorted_names_dict"] != [n.hex() for _, n, _ in dec]:
                got = ires["sorted_names_dict"]
                return "directory_entry_sort_key on dictionary entries does not give git's order: %s" % (got if isinstance(got, str) else got[:8],)
            if v and _valid(v["entries"]) and _decodable(v["entries"]):
                return _oracle_variant(c, ires, mres, ires)
    return None


def _short(x):
    return x[:300] if isinstance(x, str) else [str(y)[:160] for y in x]


def _oracle_variant(c, ires, mres, base):
    """the variant set is a directory like any other: git's tree id, whatever was formatted just before; and a
    different (mode, name, target) set never gets the manifest of the first one (C02_distinct_sets_distinct_manifests)"""
    v, iv = c["variant"], ires["variant"]
    lab = "second entry set (%s), formatted right after the first: " % v["kind"]
    if "error" in iv:
        return lab + "a valid entry set was rejected with " + iv["error"]
    if mres.get("variant_git") != "ok " + hx(bytes.fromhex(iv["manifest"])):
        return lab + "manifest differs from git's tree object for these entries"
    if iv["id"] != hashlib.sha1(bytes.fromhex(iv["manifest"])).hexdigest():
        return lab + "id is not the SHA-1 of the manifest"
    if "dict_routes" in iv and iv["dict_routes"] != [iv["id"], iv["manifest"], "ok"]:
        return lab + ("decoded from its dictionary (Directory.from_dict id / directory_git_object(<dict>) manifest / DirectoryEntry.from_dict "
                      "of each row; entries given as %s) right after the first set's dictionary: %s; built with the constructors: id %s manifest %s..."
                      % (c.get("dict_as", "list"), _short(iv["dict_routes"]), iv["id"], iv["manifest"][:60]))
    if base is None:
        return None
    if "dict_routes_first_again" in iv and iv["dict_routes_first_again"] != [base["id"], base["manifest"], "ok"]:
        return ("the first set decoded from its dictionary again after the second set's (%s; entries given as %s): %s; before: id %s manifest %s..."
                % (v["kind"], c.get("dict_as", "list"), _short(iv["dict_routes_first_again"]), base["id"], base["manifest"][:60]))
    if iv["evolve"] != iv["id"]:
        return lab + "first.evolve(entries=<second set>) has id %s, the second set's id is %s" % (iv["evolve"], iv["id"])
    if iv["id_again"] != base["id"] or iv["manifest_again"] != base["manifest"]:
        return "the first entry set formatted again after another one (%s): id %s / manifest %s..., before: %s / %s..." % (
            v["kind"], iv["id_again"], iv["manifest_again"][:40], base["id"], base["manifest"][:40])
    if _triples(c["entries"]) != _triples(v["entries"]) and iv["manifest"] == base["manifest"]:
        return lab + "two different (mode, name, target) sets get the same manifest"
    return None


def compare(c, ires, mres):
    v, iv = c.get("variant"), ires.get("variant") or {}
    if v:
        if "error" in iv:
            if mres.get("variant_dir") != "err " + iv["error"]:
                return "second entry set (%s): implementation raised %s, model says %s" % (v["kind"], iv["error"], str(mres.get("variant_dir"))[:40])
        elif mres.get("variant_dir") != "ok %s %s" % (hx(bytes.fromhex(iv["manifest"])), iv["id"]):
            return "second entry set (%s): manifest / id differ between model and implementation" % v["kind"]
    if "error" in ires:
        if mres["dir"] != "err " + ires["error"]:
            return "implementation raised %s, model says %s" % (ires["error"], mres["dir"][:40])
        for k, what in (("error_shapes", "the same entries given with the shapes %s" % c.get("shape")),
                        ("error_from_dict", "Directory.from_dict (entries given as %s)" % c.get("dict_as")),
                        ("error_dict_arg", "directory_git_object(<dict>) (entries given as %s)" % c.get("dict_as")),
                        ("error_evolve", "Directory(entries=()).evolve(entries=...)")):
            if k in ires and ires[k] != ires["error"]:
                return "the constructor refuses this set with %s (as the model), but %s: %s" % (ires["error"], what, ires[k])
        return None
    if not mres["dir"].startswith("ok "):
        return "implementation accepted, model says " + mres["dir"]
    if not _ishex(ires.get("manifest")):
        return "implementation built the directory but formatting it gave %s, model says %s" % (ires.get("manifest"), mres["dir"][:40])
    _, man, sha = mres["dir"].split(" ")
    if man != hx(bytes.fromhex(ires["manifest"])):
        return "manifest bytes differ between model and implementation"
    if sha != ires["id"]:
        return "id differs from the model's SHA-1 of the manifest"
    if mres["dir_perm"] != mres["dir"]:
        return "MODEL is order-dependent on this input (model bug)"
    if "raw" in ires:
        raw = ires["raw"]
        if not isinstance(raw, dict):
            return "a Directory with a raw_manifest could not be built / read: %s" % raw
        want = mres.get("raw_compute_hash")
        if want != "ok " + raw["id"] or want != "ok " + raw["compute_hash"]:
            return "under the raw_manifest %s the id / compute_hash() are %s / %s, model says %s" % (raw["used"][:40], raw["id"], raw["compute_hash"], want)
        if raw["manifest"] != ires["manifest"]:
            return "directory_git_object() of a Directory with a raw_manifest does not format its entries"
    if v and "error" not in iv and "dict_routes" in iv and iv["dict_routes"] != [iv["id"], iv["manifest"], "ok"]:
        return "second entry set (%s) decoded from its dictionary: %s, built with the constructors: id %s" % (v["kind"], _short(iv["dict_routes"]), iv["id"])
    if v and "error" in iv and "dict_routes" in iv and iv["dict_routes"] != "error:" + iv["error"]:
        return "second entry set (%s): the constructor raises %s, the dictionary routes: %s" % (v["kind"], iv["error"], _short(iv["dict_routes"]))
    if v and "dict_routes_first_again" in iv and iv["dict_routes_first_again"] != [ires.get("id"), ires.get("manifest"), "ok"]:
        return "the first set decoded from its dictionary again after the second set's (%s): %s" % (v["kind"], _short(iv["dict_routes_first_again"]))
    if v and iv.get("evolve") is not None and "error" not in iv and iv.get("evolve") != iv["id"]:
        return "first.evolve(entries=<second set>) has id %s, the second set's id is %s" % (iv["evolve"], iv["id"])
    return None


def shrink(c):
    """candidates keep the second entry set (variant) related to the first: what is removed / renamed in one is removed /
    renamed in the other, so that a failure that needs the pair is reproduced by the case itself and not by what an
    earlier evaluation left in the process"""
    es = c["entries"]
    # first the dimensions around the entry set
    for key, simple in (("variant", None), ("raw", None), ("shape", []), ("dict_as", "list"), ("reads", list(READS)), ("cuts", [])):
        if key in c and c[key] != simple:
            yield dict(c, **{key: simple})
    if c.get("shape") and len(c["shape"]) > 1:
        for s in c["shape"]:
            yield dict(c, shape=[x for x in c["shape"] if x != s])
    v = c.get("variant")
    for k in range(len(es)):
        sub = es[:k] + es[k + 1:]
        c2 = dict(c, entries=sub, perm=list(reversed(range(len(sub)))))
        if "perm2" in c2:
            c2["perm2"] = list(range(len(sub)))
        if v:
            c2["variant"] = dict(v, entries=[e for e in v["entries"] if e[0] != es[k][0]])
        yield c2
    for k, e in enumerate(es):
        nm = bytes.fromhex(e[0])
        if len(nm) > 1:
            for cut in (nm[:-1], nm[1:]):
                if cut.hex() in [x[0] for x in es]:
                    continue
                c2 = dict(c, entries=es[:k] + [[cut.hex()] + e[1:]] + es[k + 1:])
                if v:
                    if v["kind"] == "name" or any(x[0] == cut.hex() for x in v["entries"]):
                        continue
                    c2["variant"] = dict(v, entries=[[cut.hex()] + x[1:] if x[0] == e[0] else x for x in v["entries"]])
                yield c2


def pre_checks(ctx):
    """validation of the spec-level definition against real git (thorough tier):
    `git mktree` on type/mode-consistent entries gives the same id"""
    out = []
    if ctx.tier != "thorough":
        return out
    import random
    rng = random.Random(ctx.seed + 77)
    d = tempfile.mkdtemp(prefix="c02git")
    try:
        subprocess.run(["git", "init", "-q", d], check=True)
        bad = 0
        for _ in range(300):
            n = rng.randrange(0, 8)
            names = [nm for nm in gen_names(rng, n, False) if nm and b"\n" not in nm and nm not in (b".", b"..", b".git")]
            es, lines = [], []
            for nm in names:
                t = rng.choice(TYPES)
                perms = {"file": rng.choice([0o100644, 0o100755, 0o120000]), "dir": 0o40000, "rev": 0o160000}[t]
                tg = bytes(rng.randrange(256) for _ in range(20))
                es.append([nm.hex(), t, tg.hex(), perms])
                gt = {"file": "blob", "dir": "tree", "rev": "commit"}[t]
                lines.append(b"%o %s %s\t%s" % (perms, gt.encode(), tg.hex().encode(), nm))
            p = subprocess.run(["git", "-C", d, "mktree", "--missing", "-z"], input=b"\0".join(lines) + (b"\0" if lines else b""),
                               stdout=subprocess.PIPE, stderr=subprocess.PIPE)
            if p.returncode:
                continue
            want = p.stdout.decode().strip()
            got = _build(es).id.hex()
            if want != got:
                bad += 1
                out.append(("spec-validation:git-mktree", "git mktree gives %s, library %s for %r" % (want, got, es)))
                break
    finally:
        subprocess.run(["rm", "-rf", d])
    return out


# functions of /repo whose executed-line coverage by this run is reported in the evidence
ANCHORS = [('swh/model/git_objects.py', 'directory_entry_sort_key'),
           ('swh/model/git_objects.py', '_perms_to_bytes'),
           ('swh/model/git_objects.py', 'directory_git_object'),
           ('swh/model/git_objects.py', 'format_git_object_from_parts'),
           ('swh/model/hashutil.py', 'git_object_header'),
           ('swh/model/model.py', 'DirectoryEntry.check_name'),
           ('swh/model/model.py', 'Directory.check_entries'),
           ('swh/model/model.py', 'Directory._compute_hash_from_attributes'),
           ('swh/model/model.py', 'Directory.from_dict'),
           ('swh/model/model.py', 'HashableObjectWithManifest.compute_hash'),
           ('swh/model/model.py', 'HashableObjectWithManifest.to_dict'),
           ('swh/model/model.py', 'HashableObjectWithManifest.check'),
           ('swh/model/model.py', 'BaseHashableModel.check'),
           ('swh/model/model.py', 'BaseHashableModel.evolve'),
           ('swh/model/model.py', 'BaseHashableModel.__attrs_post_init__')]


def coq_cases(cases):
    """mk_dir_manifest evaluated by vm_compute inside Coq vs the extracted driver (extraction cross-check)"""
    from . import core
    cases = [c for c in cases if len(c["entries"]) <= 8]
    ty = {"file": "EFile", "dir": "EDir", "rev": "ERev"}
    def nl(h):
        return "[" + "; ".join("%d%%N" % b for b in bytes.fromhex(h)) + "]"
    def coq_entries(es):
        return "[" + "; ".join("{| e_name := %s; e_type := %s; e_target := %s; e_perms := %d%%N |}" % (nl(n), ty[t], nl(tg), p)
                               for n, t, tg, p in es) + "]"
    src = ("From Coq Require Import List NArith.\nFrom SWH.lib Require Import Bytes.\nFrom SWH.model Require Import Dir.\nImport ListNotations.\n" + core.COQ_CHECKSUM +
           "\nDefinition cases : list (list entry) := [" + ";\n ".join(coq_entries(c["entries"]) for c in cases) + "].\n"
           "Eval vm_compute in map (fun es => match mk_dir_manifest es with DirOk m => cksum m | DirValueError => 0%N end) cases.\n")
    resp = core.run_driver(ID, ["dir " + enc_entries(c["entries"]) for c in cases])
    exp = [core.py_cksum(unhx(r.split(" ")[1])) if r.startswith("ok ") else 0 for r in resp]
    return src, exp
