"""C12 - dictionary serialisation round-trips every model object (swh/model/model.py).

Tie: objects of all 18 model classes are generated FROM THE SCHEMAS (not from
the shipped hypothesis strategies), built with /repo's constructors and pushed
through to_dict / from_dict; the same objects (as a value tree in a compact
prefix wire notation) are pushed through the extracted model (model/Codec.v).

Case kinds
  obj  : constructor kwargs for an object of class `cls` (nested objects are
         kwargs trees as well).  Implementation: o = cls(**kw); d = o.to_dict();
         deep copy; o2 = cls.from_dict(d); d2 = o2.to_dict().  Model: `new`
         (the constructor on the same kwargs) and `rt` (construct / to_dict /
         from_dict / caller's dict afterwards / to_dict again).
  dict : a dictionary handed to cls.from_dict (legacy encodings, dictionaries
         with optional keys missing, constructor-rejected values); optional
         `w2` = the current encoding that must decode to the same object.

Oracle (the property, on the implementation only): o2 == o, same id,
o2.to_dict() == d, d untouched (strict comparison against a deep copy), d
contains only None/bool/int/bytes/str/datetime/tuple/list/dict; legacy
encodings decode to the same object as the current one.
Compare: constructor result, dictionary (keys present / elided, values), decoded
object, caller's dictionary afterwards, second dictionary, error class.
"""
import collections
import copy
import datetime
import itertools
import types

ID = "C12"
PROPS = "Props/C12.v"
EXTRACT = "extract/ExC12.v"
OBLIGATION = "dict-codec"
THEOREMS = [
    "C12_generic_roundtrip", "C12_roundtrip_all",
    "C12_roundtrip_Person", "C12_roundtrip_Timestamp", "C12_roundtrip_TimestampWithTimezone",
    "C12_roundtrip_Origin", "C12_roundtrip_OriginVisit", "C12_roundtrip_OriginVisitStatus",
    "C12_roundtrip_SnapshotBranch", "C12_roundtrip_Snapshot", "C12_roundtrip_Release",
    "C12_roundtrip_Revision", "C12_roundtrip_DirectoryEntry", "C12_roundtrip_Directory",
    "C12_roundtrip_Content", "C12_roundtrip_SkippedContent", "C12_roundtrip_MetadataAuthority",
    "C12_roundtrip_MetadataFetcher", "C12_roundtrip_RawExtrinsicMetadata", "C12_roundtrip_ExtID",
    "C12_same_id", "C12_to_dict_idempotent", "C12_plain", "C12_input_untouched",
    "C12_legacy_offset", "C12_legacy_extra_headers", "C12_legacy_metadata_target",
    "C12_input_untouched_refuted_old", "C12_extid_roundtrip_refuted_old",
    "C12_roundtrip_refuted_untyped_raw_manifest", "C12_schema_matches_generated",
    "C12_valid_satisfiable", "C12_swhid_contract_satisfiable",
    "C12_legacy_extra_headers_dict", "C12_constructor_fixed", "C12_constructor_output_wf",
    "C12_constructor_output_wf_needs_typing", "C12_roundtrip_constructed", "C12_idf_invariant_satisfiable",
    "C12_schema_types_match_generated", "C12_model_schemas_match_generated", "C12_type_codes_injective",
    "C12_generic_validated_match_generated", "C12_enums_match_generated",
    "C12_decode_twice", "C12_input_untouched_BaseContent", "C12_decode_twice_BaseContent", "C12_skipped_nocopy_refuted",
]
RULE = ("objects of the 18 model classes generated from the attrs schemas: full presence matrix of the optional "
        "fields (exhaustive up to 8, sampled beyond), every admissible context subset of RawExtrinsicMetadata per "
        "target type, ExtID with/without version and payload pair, SkippedContent with every subset of hashes None, "
        "non-canonical offset bytes, releases with author and no date, explicit right/wrong/absent ids, the three "
        "legacy encodings, dictionaries with optional keys missing, constructor-rejected kwargs; nested legacy forms, "
        "standalone and embedded in Release / Revision dictionaries (author, committer, date, committer_date): person "
        "dictionaries without fullname over the full matrix name/email in {absent, None, b'', non-empty, with <, > or "
        "spaces} and with fullname, date dictionaries with offset_bytes only / numeric offset(+negative_utc) only / "
        "BOTH with canonical and non-canonical recorded bytes (b'+200', b'+0160', b'', b'-0000', 6+ bytes), int / dict / "
        "partial timestamps, ISO strings, OriginVisit(Status) dates given as non-datetimes; each with the expectation "
        "of the documented legacy rule computed by the harness (Person: not-None parts joined by a space; dates: "
        "recorded offset_bytes verbatim whenever present) and id agreement with the current encoding; for every class "
        "and every from_dict route (direct, BaseContent dispatch, nested under author / committer / date / "
        "committer_date / timestamp / entries / branches / authority / fetcher / revision metadata) dictionaries that "
        "carry each key the route knows about (attrs fields + the string literals of the from_dict / post-init bodies, "
        "read from the source at generation time: data, ctime, reason, type, offset, negative_utc, extra_headers ...) "
        "with None, a valid and an invalid value, nested dictionaries also as OrderedDict / MappingProxyType; every "
        "dictionary case is snapshot by value before the call and compared after it whether it returned or raised, "
        "and decoded a second time from the SAME object (same object or same exception class); audit dimensions: every "
        "field set to the falsy value(s) of its declared type (b'', '', 0, False, (), {}) and to True/False where an "
        "int is declared, one at a time and all at once; A / A-with-one-field-changed / A sequences per class and "
        "field (state kept across calls); dictionaries holding enum members (must decode like the value), SWHID "
        "objects, already decoded objects, datetime / int / bool dates inside Release / Revision (must decode like "
        "the standalone date decoder's dictionary), falsy or object branch values, parents / entries as lists, "
        "non-string keys, a read-only top-level mapping, a textual ctime (dateutil's answer handed to the model as an "
        "oracle); limits of the validators (2047 / 2048-byte URLs in 1 and 2-byte characters, a lone surrogate, "
        "timestamp bounds +-1, 19/20/21-byte branch targets, visit 0 / -1 / True, perms as bool / str / None, id None, "
        "non-string metadata keys); 40-deep metadata, 300 parents / entries / branches; about 1 free-form str / bytes value "
        "in 10 (names, messages, fullnames, urls, origins, visit types, formats, extid types, offset bytes, header keys "
        "and values, branch names, alias targets, entry names, metadata keys and values - object and dictionary routes, "
        "nested objects too) carries a string / bytes literal harvested with ast from swh/model/*.py of the tree UNDER "
        "TEST (gitobj_common.source_tokens, including values that look like other domain objects: complete SWHID strings of "
        "every kind, 40 / 64-hex strings, ISO dates, numbers, 'None', URLs) as prefix / suffix / infix / whole; a "
        "deterministic sweep puts every token as prefix AND as the whole value of the text fields of the object route and "
        "of the legacy routes (old-schema metadata with type origin - expectation always swh:1:ori:sha1(url), computed "
        "by the harness - or another type; person dictionaries without fullname; recorded offset bytes); the Release id oracle handed to the model "
        "is an independent tag-object writer (not /repo's compute_hash); sequences whose Unicode normal forms differ "
        "(gitobj_common.NFC_UNSTABLE: decomposed accents, ANGSTROM SIGN, CJK compatibility ideographs, Hangul jamo, "
        "ligatures, Greek question mark) in about 3 % of the free-form values and, deterministically, each sequence "
        "once in every free-text field / mapping key / mapping value of every class together with its twin in another "
        "normal form (exact attribute-for-attribute round trip; the twin is another object with another dictionary); "
        "non-trivial = an "
        "object with >=1 optional field set and >=1 optional field None/elided, or a dictionary-level case; "
        "distinct = distinct canonical case")
TRUSTED = ["attrs: __init__ binds kwargs by name, applies converters, runs validators in field order, then "
           "__attrs_post_init__; attr.asdict(recurse=False) lists the fields in declaration order; dict/ImmutableDict "
           "semantics (copy, pop, get, {**d}) as modelled by the dict commands of model/Codec.v",
           "SWHID text printing/parsing is an abstract pair with parse(print x) = x (property C08); the driver "
           "instantiates it with the plain swh:1:<tag>:<hex> printer/parser of model/Codec.v",
           "object ids: idf is an uninterpreted function of class and fields (C12 is not about manifests); the "
           "driver is given the ids the implementation computed as the oracle's answers"]
ASSUMPTIONS = ["lazily loaded contents (get_data callables) are not data objects (DESIGN 7): get_data = None",
               "metadata values range over plain values (None, bool, int, bytes, str, datetime, tuple, list, dict)",
               "fields without a validator (raw_manifest of Directory/Release/Revision) hold values of their declared "
               "type Optional[bytes]; the untyped counterexample is stated as C12_roundtrip_refuted_untyped_raw_manifest",
               "datetimes are timezone-aware (naive ones are rejected by every datetime validator of the model classes)",
               "dateutil parsing of a textual Content.ctime is outside the model (abstract parser)"]

EPOCH = datetime.datetime(1970, 1, 1, tzinfo=datetime.timezone.utc)
US = datetime.timedelta(microseconds=1)

CLASSES = ["Person", "Timestamp", "TimestampWithTimezone", "Origin", "OriginVisit", "OriginVisitStatus",
           "SnapshotBranch", "Snapshot", "Release", "Revision", "DirectoryEntry", "Directory", "Content",
           "SkippedContent", "MetadataAuthority", "MetadataFetcher", "RawExtrinsicMetadata", "ExtID"]
HASHABLE = {"Origin", "Snapshot", "Release", "Revision", "Directory", "RawExtrinsicMetadata", "ExtID"}
ENUM_CODES = {"A": "SnapshotTargetType", "B": "ReleaseTargetType", "C": "RevisionType", "D": "MetadataAuthorityType"}
ENUM_VALUES = {
    "A": ["content", "directory", "revision", "release", "snapshot", "alias"],
    "B": ["content", "directory", "revision", "release", "snapshot"],
    "C": ["git", "tar", "dsc", "svn", "hg", "cvs", "bzr"],
    "D": ["deposit_client", "forge", "registry"],
}
VISIT_STATUSES = ["created", "ongoing", "full", "partial", "not_found", "failed"]
CORE_TAGS = ["snp", "rel", "rev", "dir", "cnt"]
EXT_TAGS = CORE_TAGS + ["ori", "emd"]


# ------------------------------------------------------------------ value trees ("specs") and the wire notation
class SObj:
    def __init__(self, cls, fields):
        self.cls, self.fields = cls, list(fields)      # fields: [(name, spec)]


class SEnum:
    def __init__(self, code, value):
        self.code, self.value = code, value


class SSwhid:
    def __init__(self, kind, tag, oid):
        self.kind, self.tag, self.oid = kind, tag, oid


class SIDict:
    def __init__(self, items):
        self.items = list(items)


class SDate:
    def __init__(self, us, off):
        self.us, self.off = us, off


class SDict:      # a dict with explicit item order (plain python dicts are accepted too)
    def __init__(self, items):
        self.items = list(items)


def _s(t):
    return "".join("%06x" % ord(ch) for ch in t)


def enc(v):
    if v is None:
        return "N"
    if v is True:
        return "T"
    if v is False:
        return "F"
    if isinstance(v, int):
        return "i%d;" % v
    if isinstance(v, (bytes, bytearray)):
        return "b%s;" % bytes(v).hex()
    if isinstance(v, str):
        return "s%s;" % _s(v)
    if isinstance(v, SDate):
        return "d%d,%d;" % (v.us, v.off)
    if isinstance(v, tuple):
        return "(" + "".join(enc(x) for x in v) + ")"
    if isinstance(v, list):
        return "[" + "".join(enc(x) for x in v) + "]"
    if isinstance(v, dict):
        return "{" + "".join(enc(k) + enc(x) for k, x in v.items()) + "}"
    if isinstance(v, SDict):
        return "{" + "".join(enc(k) + enc(x) for k, x in v.items) + "}"
    if isinstance(v, SIDict):
        return "<" + "".join(enc(k) + enc(x) for k, x in v.items) + ">"
    if isinstance(v, SEnum):
        return "e%s%s;" % (v.code, _s(v.value))
    if isinstance(v, SSwhid):
        return "w%s%s,%s;" % (v.kind, _s(v.tag), v.oid.hex())
    if isinstance(v, SObj):
        return "O%s:" % v.cls + "".join("k%s=" % n + enc(x) for n, x in v.fields) + "."
    raise TypeError("not encodable: %r" % type(v))


def dec(w):
    v, i = _dec(w, 0)
    if i != len(w):
        raise ValueError("trailing wire data")
    return v


def _until(w, i, ch):
    j = w.index(ch, i)
    return w[i:j], j + 1


def _txt(h):
    return "".join(chr(int(h[k:k + 6], 16)) for k in range(0, len(h), 6))


def _dec(w, i):
    c = w[i]
    i += 1
    if c == "N":
        return None, i
    if c == "T":
        return True, i
    if c == "F":
        return False, i
    if c == "i":
        t, i = _until(w, i, ";")
        return int(t), i
    if c == "b":
        t, i = _until(w, i, ";")
        return bytes.fromhex(t), i
    if c == "s":
        t, i = _until(w, i, ";")
        return _txt(t), i
    if c == "d":
        t, i = _until(w, i, ";")
        a, b = t.split(",")
        return SDate(int(a), int(b)), i
    if c in "([":
        close = ")" if c == "(" else "]"
        out = []
        while w[i] != close:
            x, i = _dec(w, i)
            out.append(x)
        return (tuple(out) if c == "(" else out), i + 1
    if c in "{<":
        close = "}" if c == "{" else ">"
        out = []
        while w[i] != close:
            k, i = _dec(w, i)
            x, i = _dec(w, i)
            out.append((k, x))
        return (SDict(out) if c == "{" else SIDict(out)), i + 1
    if c == "e":
        code = w[i]
        t, i = _until(w, i + 1, ";")
        return SEnum(code, _txt(t)), i
    if c == "w":
        kind = w[i]
        t, i = _until(w, i + 1, ";")
        a, b = t.split(",")
        return SSwhid(kind, _txt(a), bytes.fromhex(b)), i
    if c == "O":
        cls, i = _until(w, i, ":")
        fields = []
        while w[i] != ".":
            assert w[i] == "k"
            n, i = _until(w, i + 1, "=")
            x, i = _dec(w, i)
            fields.append((n, x))
        return SObj(cls, fields), i + 1
    raise ValueError("bad wire tag %r" % c)


def mk_dt(us, off):
    tz = datetime.timezone(datetime.timedelta(microseconds=off))
    return (EPOCH + datetime.timedelta(microseconds=us)).astimezone(tz)


def realize(v, top_kwargs=False):
    """spec -> real Python value (nested SObj are constructed with /repo's classes)"""
    from swh.model import model as M
    from swh.model import swhids as S
    from swh.model.collections import ImmutableDict
    if isinstance(v, SDate):
        return mk_dt(v.us, v.off)
    if isinstance(v, tuple):
        return tuple(realize(x) for x in v)
    if isinstance(v, list):
        return [realize(x) for x in v]
    if isinstance(v, dict):
        return {realize(k): realize(x) for k, x in v.items()}
    if isinstance(v, SDict):
        return {realize(k): realize(x) for k, x in v.items}
    if isinstance(v, SIDict):
        return ImmutableDict({realize(k): realize(x) for k, x in v.items})
    if isinstance(v, SEnum):
        return getattr(M, ENUM_CODES[v.code])(v.value)
    if isinstance(v, SSwhid):
        if v.kind == "c":
            return S.CoreSWHID(object_type=S.ObjectType(v.tag), object_id=v.oid)
        return S.ExtendedSWHID(object_type=S.ExtendedObjectType(v.tag), object_id=v.oid)
    if isinstance(v, SObj):
        return getattr(M, v.cls)(**{n: realize(x) for n, x in v.fields})
    return v


class NotPlain(Exception):
    pass


def abstract(v):
    """real Python value -> spec (objects: attribute values after construction, in schema order)"""
    import attr
    from enum import Enum
    from swh.model import model as M
    from swh.model import swhids as S
    from swh.model.collections import ImmutableDict
    if v is None or isinstance(v, (bool, bytes, str)) or type(v) is int:
        return v
    if isinstance(v, int):
        return int(v)
    if isinstance(v, datetime.datetime):
        if v.tzinfo is None:
            raise NotPlain("naive datetime")
        return SDate((v - EPOCH) // US, v.utcoffset() // US)
    if isinstance(v, tuple):
        return tuple(abstract(x) for x in v)
    if isinstance(v, list):
        return [abstract(x) for x in v]
    if isinstance(v, ImmutableDict):
        return SIDict([(abstract(k), abstract(x)) for k, x in v.items()])
    if isinstance(v, (dict, types.MappingProxyType)):      # OrderedDict and read-only views are read as their items
        return SDict([(abstract(k), abstract(x)) for k, x in v.items()])
    if isinstance(v, S.CoreSWHID):
        return SSwhid("c", v.object_type.value, v.object_id)
    if isinstance(v, S.ExtendedSWHID):
        return SSwhid("x", v.object_type.value, v.object_id)
    if isinstance(v, Enum):
        for code, name in ENUM_CODES.items():
            if type(v).__name__ == name:
                return SEnum(code, v.value)
        raise NotPlain("enum " + type(v).__name__)
    if isinstance(v, M.BaseModel):
        return SObj(type(v).__name__, [(f.name, abstract(getattr(v, f.name))) for f in attr.fields(type(v))])
    raise NotPlain(type(v).__name__)


PLAIN_TYPES = (type(None), bool, int, bytes, str, datetime.datetime, tuple, list, dict)


def non_plain(v, path="d"):
    """first non-plain value inside a to_dict() result, or None"""
    import collections
    if type(v) not in PLAIN_TYPES and type(v) is not collections.OrderedDict:
        # (an OrderedDict is what the 'odict' mapping mode of the generator itself puts inside free-form metadata, also inside
        # lists, where to_dict() hands the caller's own containers back: plain enough, and serialisable)
        return "%s: %s" % (path, type(v).__name__)
    if isinstance(v, (tuple, list)):
        for k, x in enumerate(v):
            r = non_plain(x, "%s[%d]" % (path, k))
            if r:
                return r
    if isinstance(v, dict):
        for k, x in v.items():
            r = non_plain(k, path + ".key") or non_plain(x, "%s[%r]" % (path, k))
            if r:
                return r
    return None


# ------------------------------------------------------------------ generators (from the schemas)
class G:
    def __init__(self, rng):
        self.r = rng

    def bytes_(self, n=None):
        n = self.r.choice([0, 1, 3, 20]) if n is None else n
        return bytes(self.r.randrange(256) for _ in range(n))

    def sha(self):
        return self.bytes_(20)

    def text(self):
        r = self.r
        return r.choice(["", "a", "https://example.org/repo.git", "café", "漢字", "x y\nz", "\U0001f600",
                         "".join(chr(r.choice([r.randrange(32, 127), r.randrange(0xa0, 0x800), r.randrange(0x4e00, 0x4f00)]))
                                 for _ in range(r.randrange(1, 8)))])

    def url(self):
        return self.r.choice(["https://example.org/" + self.text().replace("swh:", ""), "git://h/p", "", "file:///x", "sw"])

    def date(self):
        r = self.r
        us = r.choice([0, 1, -1, 1_600_000_000_123_456, -86_400_000_000 * 365 * 100 + 7, r.randrange(-2**50, 2**52)])
        off = r.choice([0, 0, 60, -60, 330, -720, 840, 1, -1439, 1439]) * 60_000_000
        if r.random() < 0.1:
            off += r.choice([1_000_000, -1, 500_000, 30_000_000])      # sub-minute offsets are legal tzinfo
        return SDate(us, off)

    def plain(self, depth=2):
        r = self.r
        k = r.randrange(9 if depth > 0 else 6)
        if k == 0:
            return None
        if k == 1:
            return r.choice([True, False])
        if k == 2:
            return r.choice([0, 1, -1, 2**70, -2**63, r.randrange(-1000, 1000)])
        if k == 3:
            return self.bytes_()
        if k == 4:
            return self.text()
        if k == 5:
            return self.date()
        if k == 6:
            return tuple(self.plain(depth - 1) for _ in range(r.randrange(3)))
        if k == 7:
            return [self.plain(depth - 1) for _ in range(r.randrange(3))]
        return SDict([(kk, self.plain(depth - 1)) for kk in self.keys(r.randrange(3))])

    def keys(self, n):
        pool = ["a", "b", "k", "extra", "é", "", "original_artifact"]
        self.r.shuffle(pool)
        return pool[:n]

    def metadata(self, mode, extra=()):
        """mode: 'absent' | 'none' | 'empty' | 'full'"""
        if mode == "none":
            return None
        if mode == "empty":
            return SDict([])
        items = [(k, self.plain()) for k in self.keys(self.r.randrange(1, 4))] + list(extra)
        self.r.shuffle(items)
        return SDict(items)

    def timestamp(self):
        r = self.r
        s = r.choice([0, 1, -1, 1_600_000_000, -62135510961, 253402297199, r.randrange(-62135510961, 253402297200)])
        us = r.choice([0, 1, 999999, r.randrange(10**6)])
        return SObj("Timestamp", [("seconds", s), ("microseconds", us)])

    def offset_bytes(self):
        r = self.r
        if r.random() < 0.5:
            m = r.choice([0, 60, 120, 330, 754, 1439, r.randrange(0, 6000)])
            return ("%s%02d%02d" % (r.choice("+-"), m // 60, m % 60)).encode()
        return r.choice([b"-0000", b"+200", b"-02", b"+0160", b"+200000000000000000", b"", b"+", b"0000", b"+ab",
                         b"\xff\xfe", b"+00:00", b" +0100", b"+01000", b"-9999", b"+99999"])

    def tstz(self):
        return SObj("TimestampWithTimezone", [("timestamp", self.timestamp()), ("offset_bytes", self.offset_bytes())])

    def person(self, name=None, email=None):
        r = self.r
        name = r.random() < 0.5 if name is None else name
        email = r.random() < 0.5 if email is None else email
        fn = r.choice([b"", b"A B <a@b>", b"no-bracket", b"<only@email>", b"x <y", b"n\xc3\xa9 <e>", self.bytes_()])
        return SObj("Person", [("fullname", fn), ("name", self.bytes_() if name else None),
                               ("email", self.bytes_() if email else None)])

    def core(self, tag=None):
        return SSwhid("c", tag or self.r.choice(CORE_TAGS), self.sha())

    def ext(self, tag=None):
        return SSwhid("x", tag or self.r.choice(EXT_TAGS), self.sha())


def id_field(g, mode):
    """mode: 'absent' (computed) | 'right' (filled in later from the computed one) | 'wrong' | 'short'"""
    if mode == "absent":
        return []
    if mode == "right":
        return [("id", "RIGHT")]
    if mode == "empty":
        return [("id", b"")]
    if mode == "short":
        return [("id", b"x")]
    return [("id", g.sha())]


def fix_right_id(spec):
    """replace the placeholder id by the id the implementation computes for the same kwargs"""
    if not any(n == "id" and v == "RIGHT" for n, v in spec.fields):
        return spec
    base = SObj(spec.cls, [(n, v) for n, v in spec.fields if n != "id"])
    try:
        oid = realize(base).id
    except Exception:          # the id cannot be computed (e.g. a release without target): only an explicit id works
        oid = bytes(range(20))
    return SObj(spec.cls, [(n, (oid if (n == "id" and v == "RIGHT") else v)) for n, v in spec.fields])


def subsets(names, rng, cap):
    """all subsets if there are at most `cap` of them, else a sample always containing none/all/singletons"""
    n = len(names)
    if 2 ** n <= cap:
        return [set(c) for k in range(n + 1) for c in itertools.combinations(names, k)]
    out = [set(), set(names)] + [{x} for x in names] + [set(names) - {x} for x in names]
    while len(out) < cap:
        out.append({x for x in names if rng.random() < 0.5})
    return out


MD_MODES = ["absent", "none", "empty", "full"]
ID_MODES = ["absent", "right", "wrong"]


def _gen_class_raw(g, cls, cap):
    """list of SObj kwargs trees for class `cls`; `cap` bounds the presence matrix"""
    r = g.r
    out = []
    if cls == "Person":
        for nm, em in itertools.product([False, True], repeat=2):
            out.append(g.person(nm, em))
    elif cls == "Timestamp":
        out += [g.timestamp() for _ in range(6)]
        out += [SObj("Timestamp", [("seconds", s), ("microseconds", u)])
                for s in (-62135510961, 253402297199) for u in (0, 999999)]
    elif cls == "TimestampWithTimezone":
        out += [g.tstz() for _ in range(max(12, cap // 8))]
    elif cls == "Origin":
        for m in ID_MODES + ["short"]:
            out.append(SObj("Origin", [("url", g.url())] + id_field(g, m)))
    elif cls == "OriginVisit":
        for v in ("absent", "none", "int"):
            f = [("origin", g.url()), ("date", g.date()), ("type", r.choice(["git", "svn", ""]))]
            if v != "absent":
                f.append(("visit", None if v == "none" else r.choice([0, 1, 7, 2**40])))
            out.append(SObj("OriginVisit", f))
    elif cls == "OriginVisitStatus":
        for snap, ty, md in itertools.product([False, True], ["absent", "none", "str"], MD_MODES):
            f = [("origin", g.url()), ("visit", r.choice([1, 2, 10**9])), ("date", g.date()),
                 ("status", r.choice(VISIT_STATUSES)), ("snapshot", g.sha() if snap else None)]
            if ty != "absent":
                f.append(("type", None if ty == "none" else r.choice(["git", "hg"])))
            if md != "absent":
                f.append(("metadata", g.metadata(md)))
            out.append(SObj(cls, f))
    elif cls == "SnapshotBranch":
        for v in ENUM_VALUES["A"]:
            tgt = g.bytes_() if v == "alias" else g.sha()
            out.append(SObj(cls, [("target", tgt), ("target_type", SEnum("A", v))]))
    elif cls == "Snapshot":
        for nb, idm in itertools.product([0, 1, 4], ID_MODES):
            names = list({g.bytes_(r.choice([1, 2, 5])) for _ in range(nb)})
            br = []
            for n in names:
                if r.random() < 0.3:
                    br.append((n, None))
                else:
                    v = r.choice(ENUM_VALUES["A"])
                    br.append((n, SObj("SnapshotBranch", [("target", g.bytes_() if v == "alias" else g.sha()),
                                                         ("target_type", SEnum("A", v))])))
            out.append(SObj(cls, [("branches", SDict(br))] + id_field(g, idm)))
    elif cls == "Release":
        opts = ["message", "target", "author", "date", "metadata", "raw_manifest"]
        for ss in subsets(opts, r, cap):
            if "date" in ss and "author" not in ss:
                continue
            for idm in (ID_MODES if len(ss) in (0, 2, 6) else [r.choice(ID_MODES)]):
                f = [("name", g.bytes_()), ("message", g.bytes_() if "message" in ss else None),
                     ("target", g.sha() if "target" in ss else None),
                     ("target_type", SEnum("B", r.choice(ENUM_VALUES["B"]))), ("synthetic", r.random() < 0.5)]
                if "author" in ss or r.random() < 0.5:
                    f.append(("author", g.person() if "author" in ss else None))
                if "date" in ss or r.random() < 0.5:
                    f.append(("date", g.tstz() if "date" in ss else None))
                md = r.choice(["empty", "full"]) if "metadata" in ss else r.choice(["absent", "none"])
                if md != "absent":
                    f.append(("metadata", g.metadata(md)))
                f += id_field(g, idm)
                if "raw_manifest" in ss or r.random() < 0.3:
                    f.append(("raw_manifest", (b"tag " + g.bytes_()) if "raw_manifest" in ss else None))
                out.append(SObj(cls, f))
    elif cls == "Revision":
        opts = ["message", "author", "committer", "date", "committer_date", "metadata", "parents", "extra_headers",
                "raw_manifest"]
        for ss in subsets(opts, r, cap):
            if ("date" in ss and "author" not in ss) or ("committer_date" in ss and "committer" not in ss):
                continue
            idm = r.choice(ID_MODES)
            eh = tuple((r.choice([b"gpgsig", b"mergetag", b"k", b"encoding", b""]), g.bytes_())
                       for _ in range(r.randrange(1, 4))) if "extra_headers" in ss else ()
            f = [("message", g.bytes_() if "message" in ss else None),
                 ("author", g.person() if "author" in ss else None),
                 ("committer", g.person() if "committer" in ss else None),
                 ("date", g.tstz() if "date" in ss else None),
                 ("committer_date", g.tstz() if "committer_date" in ss else None),
                 ("type", SEnum("C", r.choice(ENUM_VALUES["C"]))), ("directory", g.sha()),
                 ("synthetic", r.random() < 0.5)]
            if "metadata" in ss:
                # with non-empty extra_headers the metadata may keep an 'extra_headers' key of its own
                extra = [("extra_headers", [[b"old", b"v"]])] if (eh and r.random() < 0.4) else []
                f.append(("metadata", g.metadata(r.choice(["empty", "full"]), extra)))
            elif r.random() < 0.5:
                f.append(("metadata", None))
            if "parents" in ss or r.random() < 0.5:
                f.append(("parents", tuple(g.sha() for _ in range(r.randrange(1, 4))) if "parents" in ss else ()))
            f += id_field(g, idm)
            if eh or r.random() < 0.5:
                f.append(("extra_headers", eh))
            if "raw_manifest" in ss or r.random() < 0.3:
                f.append(("raw_manifest", (b"commit " + g.bytes_()) if "raw_manifest" in ss else None))
            out.append(SObj(cls, f))
    elif cls == "DirectoryEntry":
        for ty in ("file", "dir", "rev"):
            out.append(SObj(cls, [("name", r.choice([b"a", b"", b"sub dir", b"\xff\x00", g.bytes_().replace(b"/", b"_")])),
                                  ("type", ty), ("target", g.sha()),
                                  ("perms", r.choice([0o100644, 0o100755, 0o120000, 0o40000, 0o160000, 0, 7]))]))
    elif cls == "Directory":
        for ne, idm, rm in itertools.product([0, 1, 3], ID_MODES, ["absent", "none", "bytes"]):
            ents = tuple(SObj("DirectoryEntry", [("name", b"e%d" % k + g.bytes_(1).replace(b"/", b"_")),
                                                 ("type", r.choice(["file", "dir", "rev"])), ("target", g.sha()),
                                                 ("perms", r.choice([0o100644, 0o40000, 0o160000]))]) for k in range(ne))
            f = [("entries", ents)] + id_field(g, idm)
            if rm != "absent":
                f.append(("raw_manifest", None if rm == "none" else b"tree " + g.bytes_()))
            out.append(SObj(cls, f))
    elif cls == "Content":
        for st, data, ct in itertools.product(["absent", "visible", "hidden"], ["absent", "none", "bytes"],
                                              ["absent", "none", "date"]):
            f = [("sha1", g.sha()), ("sha1_git", g.sha()), ("sha256", g.bytes_(32)), ("blake2s256", g.bytes_(32)),
                 ("length", r.choice([0, 1, 2**40]))]
            if st != "absent":
                f.append(("status", st))
            if data != "absent":
                f.append(("data", None if data == "none" else g.bytes_()))
            if ct != "absent":
                f.append(("ctime", None if ct == "none" else g.date()))
            out.append(SObj(cls, f))
    elif cls == "SkippedContent":
        hs = ["sha1", "sha1_git", "sha256", "blake2s256"]
        for ss in subsets(hs, r, 16):
            for orig, ct in ([(o_, c_) for o_ in ("absent", "none", "str") for c_ in ("absent", "none", "date")]
                             if len(ss) in (0, 4) else [(r.choice(["absent", "none", "str"]), r.choice(["absent", "none", "date"]))]):
                f = [(h, (g.bytes_(32 if h.endswith("256") else 20) if h in ss else None)) for h in hs]
                f += [("length", r.choice([-1, 0, 5, 2**33])), ("status", "absent"), ("reason", r.choice(["too big", "", "é"]))]
                if orig != "absent":
                    f.append(("origin", None if orig == "none" else g.url()))
                if ct != "absent":
                    f.append(("ctime", None if ct == "none" else g.date()))
                out.append(SObj(cls, f))
    elif cls == "MetadataAuthority":
        for v, md in itertools.product(ENUM_VALUES["D"], MD_MODES):
            f = [("type", SEnum("D", v)), ("url", g.url())]
            if md != "absent":
                f.append(("metadata", g.metadata(md)))
            out.append(SObj(cls, f))
    elif cls == "MetadataFetcher":
        for md in MD_MODES:
            f = [("name", g.text()), ("version", r.choice(["1.0", "", "2.3.4-β"]))]
            if md != "absent":
                f.append(("metadata", g.metadata(md)))
            out.append(SObj(cls, f))
    elif cls == "RawExtrinsicMetadata":
        allowed = {"snp": ["origin", "visit"], "rel": ["origin", "visit", "snapshot"],
                   "rev": ["origin", "visit", "snapshot", "release"],
                   "dir": ["origin", "visit", "snapshot", "release", "revision", "path"],
                   "cnt": ["origin", "visit", "snapshot", "release", "revision", "path", "directory"],
                   "ori": [], "emd": []}
        for tag in EXT_TAGS:
            for ss in subsets(allowed[tag], r, cap):
                if "visit" in ss and "origin" not in ss:
                    continue
                out.append(gen_rem(g, tag, ss, r.choice(ID_MODES) if ss else None))
            for idm in ID_MODES:
                out.append(gen_rem(g, tag, set(), idm))
    elif cls == "ExtID":
        for ver, pay, idm in itertools.product(["absent", "zero", "n"], [False, True], ID_MODES + ["short"]):
            f = [("extid_type", r.choice(["git256", "hg-nodeid", ""])), ("extid", g.bytes_()), ("target", g.core())]
            if ver != "absent":
                f.append(("extid_version", 0 if ver == "zero" else r.choice([1, 2, 2**33])))
            if pay:
                f += [("payload_type", r.choice(["disk", "x"])), ("payload", g.sha())]
            elif r.random() < 0.5:
                f += [("payload_type", None), ("payload", None)]
            f += id_field(g, idm)
            out.append(SObj(cls, f))
    return out


def _gen_rem_raw(g, tag, ss, idm):
    r = g.r
    auth = SObj("MetadataAuthority", [("type", SEnum("D", r.choice(ENUM_VALUES["D"]))), ("url", g.url())]
                + ([("metadata", g.metadata(r.choice(MD_MODES[1:])))] if r.random() < 0.4 else []))
    fet = SObj("MetadataFetcher", [("name", g.text()), ("version", "1")]
               + ([("metadata", g.metadata(r.choice(MD_MODES[1:])))] if r.random() < 0.4 else []))
    f = [("target", g.ext(tag)), ("discovery_date", g.date()), ("authority", auth), ("fetcher", fet),
         ("format", r.choice(["json", "xml", ""])), ("metadata", g.bytes_())]
    vals = {"origin": lambda: g.url(), "visit": lambda: r.choice([1, 42, 2**40]), "snapshot": lambda: g.core("snp"),
            "release": lambda: g.core("rel"), "revision": lambda: g.core("rev"), "path": lambda: g.bytes_(),
            "directory": lambda: g.core("dir")}
    for k in ["origin", "visit", "snapshot", "release", "revision", "path", "directory"]:
        if k in ss:
            f.append((k, vals[k]()))
        elif r.random() < 0.3:
            f.append((k, None))
    f += id_field(g, idm or "absent")
    return SObj("RawExtrinsicMetadata", f)


# ------------------------------------------------------------------ literals of the code under test, spliced into the values
FREE_FIELDS = {
    "Person": ["fullname", "name", "email"], "Origin": ["url"], "OriginVisit": ["origin", "type"],
    "OriginVisitStatus": ["origin", "type"], "Release": ["name", "message", "raw_manifest"],
    "Revision": ["message", "raw_manifest"], "Directory": ["raw_manifest"], "DirectoryEntry": ["name"],
    "Content": ["data"], "SkippedContent": ["reason", "origin"], "MetadataAuthority": ["url"],
    "MetadataFetcher": ["name", "version"], "RawExtrinsicMetadata": ["format", "metadata", "origin", "path"],
    "ExtID": ["extid_type", "extid", "payload_type"], "TimestampWithTimezone": ["offset_bytes"],
}
SPLICE_P = 0.1
NFC_P = 0.03


def _tok(g, v):
    """v (str or bytes) with a literal harvested from swh/model/*.py of the tree under test spliced in, 1 time in 10"""
    if g.r.random() < NFC_P:
        try:        # a sequence whose Unicode normal forms differ: nothing may normalise it
            from .gitobj_common import NFC_UNSTABLE
            u = g.r.choice(NFC_UNSTABLE)
            u = u.encode("utf-8") if isinstance(v, bytes) else u
            return g.r.choice([u + v, v + u, u])
        except Exception:
            return v
    if g.r.random() >= SPLICE_P:
        return v
    try:
        from .gitobj_common import splice_token
        return splice_token(g.r, v, "bytes" if isinstance(v, bytes) else "str")
    except Exception:
        return v


def _splice_plain(g, v):
    """free-form mapping content: keys (kept distinct) and str / bytes leaves, at any depth"""
    if isinstance(v, (str, bytes)):
        return _tok(g, v)
    if isinstance(v, tuple):
        return tuple(_splice_plain(g, x) for x in v)
    if isinstance(v, list):
        return [_splice_plain(g, x) for x in v]
    if isinstance(v, SDict):
        items, seen = [], set()
        for k, x in v.items:
            k2 = _tok(g, k) if isinstance(k, (str, bytes)) else k
            if k2 in seen:
                k2 = k
            if k2 in seen:
                continue
            seen.add(k2)
            items.append((k2, _splice_plain(g, x)))
        return SDict(items)
    return v


def splice_spec(g, spec):
    """a kwargs tree with literals of the code under test spliced into its free-form str / bytes values (names,
    messages, fullnames, urls, origins, visit types, formats, extid types, offset bytes, raw manifests, data, header
    keys and values, branch names, alias targets, entry names without '/', metadata keys and values), nested objects too"""
    if not isinstance(spec, SObj):
        return spec
    free = FREE_FIELDS.get(spec.cls, [])
    out = []
    for n, v in spec.fields:
        if isinstance(v, SObj):
            v = splice_spec(g, v)
        elif n in free and isinstance(v, (str, bytes)):
            v = _tok(g, v)
            if spec.cls == "DirectoryEntry":
                v = v.replace(b"/", b"_")
        elif n == "metadata" and isinstance(v, SDict):
            v = _splice_plain(g, v)
        elif n == "extra_headers" and isinstance(v, (tuple, list)):
            v = type(v)((type(p)(_tok(g, x) if isinstance(x, bytes) else x for x in p) if isinstance(p, (tuple, list)) else p)
                        for p in v)
        elif n == "entries" and isinstance(v, tuple):
            ents, seen = [], set()
            for e in v:
                e2 = splice_spec(g, e)
                nm = dict(e2.fields).get("name") if isinstance(e2, SObj) else None
                if nm in seen:
                    e2 = e
                seen.add(dict(e2.fields).get("name") if isinstance(e2, SObj) else None)
                ents.append(e2)
            v = tuple(ents)
        elif n == "branches" and isinstance(v, SDict):
            items, seen = [], set()
            for k, b in v.items:
                k2 = _tok(g, k) if isinstance(k, bytes) else k
                if k2 in seen:
                    k2 = k
                seen.add(k2)
                if isinstance(b, SObj):
                    f = dict(b.fields)
                    tt = f.get("target_type")
                    if isinstance(tt, SEnum) and tt.value == "alias" and isinstance(f.get("target"), bytes):
                        b = SObj(b.cls, [(fn, (_tok(g, fv) if fn == "target" else fv)) for fn, fv in b.fields])
                items.append((k2, b))
            v = SDict(items)
        out.append((n, v))
    if spec.cls == "SnapshotBranch":
        f = dict(out)
        tt = f.get("target_type")
        if isinstance(tt, SEnum) and tt.value == "alias" and isinstance(f.get("target"), bytes):
            out = [(fn, (_tok(g, fv) if fn == "target" else fv)) for fn, fv in out]
    return SObj(spec.cls, out)


def gen_class(g, cls, cap):
    return [splice_spec(g, sp) for sp in _gen_class_raw(g, cls, cap)]


def gen_rem(g, tag, ss, idm):
    return splice_spec(g, _gen_rem_raw(g, tag, ss, idm))


def token_sweep_cases(g, quick):
    """EVERY literal harvested from the tree under test, deterministically, as prefix of (thorough: also as suffix of /
    as the whole of) the values a special case could be keyed on: release name / message / author, origin url, metadata
    origin / format, entry name, branch name and alias target, person fullname, visit type, extid type, fetcher name"""
    try:
        from .gitobj_common import source_tokens
        bt, st = source_tokens("bytes"), source_tokens("str")
    except Exception:
        return []
    r = g.r
    out = []

    def emit(sp):
        try:
            out.append({"cls": sp.cls, "kind": "obj", "route": "token", "w": enc(fix_right_id(sp))})
        except Exception:
            pass

    forms = [lambda t, x: t + x, lambda t, x: t] + ([] if quick else [lambda t, x: x + t])
    for fi, form in enumerate(forms):
        lean = quick and fi > 0          # quick tier: the non-prefix forms only on the values identifiers are derived from
        for t in bt:
            v = form(t, b"x")
            emit(SObj("Release", [("name", v), ("message", form(t, b"m")), ("target", g.sha()),
                                  ("target_type", SEnum("B", "revision")), ("synthetic", False),
                                  ("author", SObj("Person", [("fullname", form(t, b"A <a>")), ("name", v), ("email", None)])),
                                  ("date", None)] + id_field(g, r.choice(["absent", "right"]))))
            if lean:
                continue
            emit(SObj("Directory", [("entries", (SObj("DirectoryEntry", [("name", v.replace(b"/", b"_")), ("type", "file"),
                                                                           ("target", g.sha()), ("perms", 0o100644)]),))]))
            emit(SObj("Snapshot", [("branches", SDict([(v, SObj("SnapshotBranch", [("target", form(t, b"HEAD")),
                                                                                   ("target_type", SEnum("A", "alias"))])),
                                                       (form(t, b"y"), None)]))]))
        for t in st:
            v = form(t, "x")
            emit(SObj("Origin", [("url", v)]))
            if not lean:
                emit(SObj("OriginVisit", [("origin", v), ("date", g.date()), ("type", form(t, "git"))]))
            spec = _gen_rem_raw(g, "dir", set(), "absent")
            emit(SObj(spec.cls, [(n, (form(t, "json") if n == "format" else x)) for n, x in spec.fields if n != "origin"]
                      + [("origin", v)]))
            if not lean:
                emit(SObj("ExtID", [("extid_type", v), ("extid", form(t.encode("utf-8", "replace"), b"e")),
                                    ("target", g.core())]))
    return out


def _other_normal_form(v):
    """the same text in another Unicode normal form (NFC, else NFD), or None when both equal v / v is not UTF-8"""
    import unicodedata
    try:
        t = v.decode("utf-8") if isinstance(v, bytes) else v
        for form in ("NFC", "NFD", "NFKC"):
            n = unicodedata.normalize(form, t)
            if n != t:
                return n.encode("utf-8") if isinstance(v, bytes) else n
    except Exception:
        pass
    return None


def nfc_sweep_cases(g, quick):
    """each sequence whose Unicode normal forms differ, once in every free-text field (str, bytes, mapping keys and
    values) of every class, with its twin in another normal form: both round-trip exactly and are different objects
    with different dictionaries"""
    try:
        from .gitobj_common import NFC_UNSTABLE
    except Exception:
        return []
    out = []
    sha, core, date = g.sha(), g.core(), g.date()
    person = lambda b: SObj("Person", [("fullname", b), ("name", None), ("email", None)])
    auth = lambda u, md=None: SObj("MetadataAuthority", [("type", SEnum("D", "forge")), ("url", u)] + ([("metadata", md)] if md else []))
    fet = lambda n, v="1", md=None: SObj("MetadataFetcher", [("name", n), ("version", v)] + ([("metadata", md)] if md else []))
    rel = lambda **kw: SObj("Release", [("name", kw.get("name", b"n")), ("message", kw.get("message")), ("target", sha),
                                        ("target_type", SEnum("B", "revision")), ("synthetic", False),
                                        ("author", kw.get("author")), ("date", None)]
                            + ([("metadata", kw["metadata"])] if "metadata" in kw else []))
    rev = lambda **kw: SObj("Revision", [("message", kw.get("message")), ("author", kw.get("author")), ("committer", None),
                                         ("date", None), ("committer_date", None), ("type", SEnum("C", "git")),
                                         ("directory", sha), ("synthetic", False)]
                            + ([("metadata", kw["metadata"])] if "metadata" in kw else [])
                            + ([("extra_headers", kw["extra_headers"])] if "extra_headers" in kw else []))
    rem = lambda **kw: SObj("RawExtrinsicMetadata", [("target", SSwhid("x", "dir", sha)), ("discovery_date", date),
                                                     ("authority", kw.get("authority", auth("u"))), ("fetcher", kw.get("fetcher", fet("n"))),
                                                     ("format", kw.get("format", "json")), ("metadata", kw.get("metadata", b"{}"))]
                            + [(k, kw[k]) for k in ("origin", "path") if k in kw])
    skipped = lambda **kw: SObj("SkippedContent", [("sha1", None), ("sha1_git", sha), ("sha256", None), ("blake2s256", None),
                                                   ("length", 1), ("status", "absent"), ("reason", kw.get("reason", "r"))]
                                + ([("origin", kw["origin"])] if "origin" in kw else []))
    makers_b = [
        lambda b: person(b), lambda b: SObj("Person", [("fullname", b"f"), ("name", b), ("email", b)]),
        lambda b: rel(name=b), lambda b: rel(message=b), lambda b: rel(author=person(b)),
        lambda b: rev(message=b), lambda b: rev(author=person(b)), lambda b: rev(extra_headers=((b, b"v"), (b"k", b))),
        lambda b: SObj("Directory", [("entries", (SObj("DirectoryEntry", [("name", b), ("type", "file"), ("target", sha),
                                                                          ("perms", 0o100644)]),))]),
        lambda b: SObj("Snapshot", [("branches", SDict([(b, SObj("SnapshotBranch", [("target", b), ("target_type", SEnum("A", "alias"))]))]))]),
        lambda b: SObj("Content", [("sha1", sha), ("sha1_git", sha), ("sha256", sha), ("blake2s256", sha), ("length", 1), ("data", b)]),
        lambda b: rem(metadata=b), lambda b: rem(path=b),
        lambda b: SObj("ExtID", [("extid_type", "t"), ("extid", b), ("target", core)]),
        lambda b: SObj("TimestampWithTimezone", [("timestamp", SObj("Timestamp", [("seconds", 1), ("microseconds", 0)])), ("offset_bytes", b)]),
        lambda b: rel(metadata=SDict([("k", b), ("l", [b, (b,)])])),
    ]
    makers_s = [
        lambda t: SObj("Origin", [("url", t)]),
        lambda t: SObj("OriginVisit", [("origin", t), ("date", date), ("type", "git")]),
        lambda t: SObj("OriginVisit", [("origin", "o"), ("date", date), ("type", t)]),
        lambda t: SObj("OriginVisitStatus", [("origin", t), ("visit", 1), ("date", date), ("status", "full"), ("snapshot", None),
                                             ("type", t), ("metadata", SDict([(t, t)]))]),
        lambda t: skipped(reason=t), lambda t: skipped(origin=t),
        lambda t: auth(t), lambda t: auth("u", SDict([(t, 1), ("v", t)])),
        lambda t: fet(t), lambda t: fet("n", t), lambda t: fet("n", "1", SDict([(t, SDict([(t, t)]))])),
        lambda t: rem(format=t), lambda t: rem(origin=t), lambda t: rem(authority=auth(t)), lambda t: rem(fetcher=fet(t)),
        lambda t: SObj("ExtID", [("extid_type", t), ("extid", b"e"), ("target", core), ("payload_type", t), ("payload", sha)]),
        lambda t: rel(metadata=SDict([(t, 1)])), lambda t: rev(metadata=SDict([(t, t)])),
    ]
    for u in NFC_UNSTABLE:
        for kind, makers, val in (("b", makers_b, u.encode("utf-8")), ("s", makers_s, u)):
            vals = [val] if quick else [val, (b"x" if kind == "b" else "x") + val, val + (b"y" if kind == "b" else "y")]
            for v in vals:
                tw = _other_normal_form(v)
                for mk in makers:
                    try:
                        c = {"cls": mk(v).cls, "kind": "obj", "route": "nfc", "w": enc(fix_right_id(mk(v)))}
                        if tw is not None:
                            c["twin"] = enc(fix_right_id(mk(tw)))
                        out.append(c)
                    except Exception:
                        pass
    return out


def ori_swhid(url):
    """the SWHID of the origin designated by its URL, written independently: swh:1:ori:<sha1 of the UTF-8 URL>"""
    import hashlib
    return "swh:1:ori:" + hashlib.sha1(url.encode("utf-8")).hexdigest()


def legacy_token_cases(g, quick):
    """every harvested literal and every "looks like another domain object" value (complete SWHID strings of every kind,
    40 / 64-hex strings, ISO dates, numbers, 'None', URLs) as the WHOLE value of the text fields of the LEGACY routes:
    old-schema metadata (type origin: the target is ALWAYS an origin URL, whatever it looks like -> swh:1:ori:sha1(url);
    another type: the key is dropped, the target is read as it is), person dictionaries without fullname, date
    dictionaries whose recorded offset bytes are the token"""
    try:
        from .gitobj_common import source_tokens
        bt, st = source_tokens("bytes"), source_tokens("str")
        base = abstract(realize(_gen_rem_raw(g, "ori", set(), "absent")).to_dict())
    except Exception:
        return []
    r = g.r
    out = []
    items = [(k, v) for k, v in base.items if k != "id"]

    def emit(cls, legacy, leg, cur):
        try:
            c = {"cls": cls, "kind": "dict", "legacy": legacy, "route": "token", "w": enc(leg)}
            if cur is not None:
                c["w2"] = enc(cur)
            out.append(c)
        except Exception:
            pass

    for t in st:
        rest = [(k, v) for k, v in items if k != "target"]
        try:
            cur = SDict(rest + [("target", ori_swhid(t))])
        except Exception:
            cur = None                                       # a URL that does not encode: whatever /repo does, the model says
        leg = rest + [("type", "origin"), ("target", t)]
        r.shuffle(leg)
        emit("RawExtrinsicMetadata", "target", SDict(leg), cur)
        leg = rest + [("target", t), ("type", r.choice(["content", "revision", "snapshot", "directory", "release", t if t != "origin" else "x"]))]
        emit("RawExtrinsicMetadata", "target", SDict(leg), SDict(rest + [("target", t)]))
    for t in bt:
        nm, em = r.choice([(t, t), (t, None), (None, t), (t, b"e@x"), (b"N", t)])
        leg, cur = person_form(g, ABSENT, nm, em)
        emit("Person", "person", leg, cur)
        ts = SDict([("seconds", 1), ("microseconds", 0)])
        leg = [("timestamp", ts), ("offset_bytes", t)] + r.choice([[], [("offset", 120)], [("offset", 0), ("negative_utc", True)]])
        r.shuffle(leg)
        emit("TimestampWithTimezone", "date", SDict(leg), SDict([("timestamp", ts), ("offset_bytes", t)]))
    return out


def invalid_objs(g):
    """constructor-rejected kwargs (validators / binding): the model must reject with the same error class"""
    r = g.r
    ok_ts = SObj("Timestamp", [("seconds", 1), ("microseconds", 2)])
    out = [
        SObj("Timestamp", [("seconds", 253402297200), ("microseconds", 0)]),
        SObj("Timestamp", [("seconds", 0), ("microseconds", 10**6)]),
        SObj("Timestamp", [("seconds", True), ("microseconds", 0)]),
        SObj("Timestamp", [("seconds", 0)]),
        SObj("Timestamp", [("seconds", 0), ("microseconds", 0), ("nanoseconds", 0)]),
        SObj("Person", [("fullname", "text"), ("name", None), ("email", None)]),
        SObj("TimestampWithTimezone", [("timestamp", ok_ts), ("offset_bytes", "+0000")]),
        SObj("TimestampWithTimezone", [("timestamp", 5), ("offset_bytes", b"+0000")]),
        SObj("SnapshotBranch", [("target", g.bytes_(19)), ("target_type", SEnum("A", "revision"))]),
        SObj("SnapshotBranch", [("target", g.sha()), ("target_type", "revision")]),
        SObj("Release", [("name", b"n"), ("message", None), ("target", None), ("target_type", SEnum("B", "revision")),
                         ("synthetic", False), ("author", None), ("date", g.tstz())]),
        SObj("Release", [("name", b"n"), ("message", None), ("target", None), ("target_type", SEnum("A", "revision")),
                         ("synthetic", False)]),
        SObj("Revision", [("message", None), ("author", None), ("committer", g.person()), ("date", g.tstz()),
                          ("committer_date", None), ("type", SEnum("C", "git")), ("directory", g.sha()), ("synthetic", True)]),
        SObj("Revision", [("message", None), ("author", g.person()), ("committer", None), ("date", None),
                          ("committer_date", g.tstz()), ("type", SEnum("C", "git")), ("directory", g.sha()), ("synthetic", True)]),
        SObj("DirectoryEntry", [("name", b"a/b"), ("type", "file"), ("target", g.sha()), ("perms", 0)]),
        SObj("DirectoryEntry", [("name", b"a"), ("type", "symlink"), ("target", g.sha()), ("perms", 0)]),
        SObj("Content", [("sha1", g.sha()), ("sha1_git", g.sha()), ("sha256", g.sha()), ("blake2s256", g.sha()),
                         ("length", -1)]),
        SObj("Content", [("sha1", g.sha()), ("sha1_git", g.sha()), ("sha256", g.sha()), ("blake2s256", g.sha()),
                         ("length", 1), ("status", "absent")]),
        SObj("SkippedContent", [("sha1", None), ("sha1_git", None), ("sha256", None), ("blake2s256", None),
                                ("length", 0), ("status", "absent")]),
        SObj("SkippedContent", [("sha1", None), ("sha1_git", None), ("sha256", None), ("blake2s256", None),
                                ("length", -2), ("status", "absent"), ("reason", "r")]),
        SObj("SkippedContent", [("sha1", None), ("sha1_git", None), ("sha256", None), ("blake2s256", None),
                                ("length", 0), ("status", "visible"), ("reason", "r")]),
        SObj("ExtID", [("extid_type", "t"), ("extid", b"e"), ("target", g.core()), ("payload_type", "p")]),
        SObj("ExtID", [("extid_type", "t"), ("extid", b"e"), ("target", g.core()), ("payload", g.sha())]),
        SObj("ExtID", [("extid_type", "t"), ("extid", b"e"), ("target", g.ext("rev"))]),
        SObj("OriginVisitStatus", [("origin", "u"), ("visit", 1), ("date", g.date()), ("status", "done"), ("snapshot", None)]),
        SObj("MetadataAuthority", [("type", "forge"), ("url", "u")]),
        SObj("Origin", [("url", "x" * 2048)]),
        SObj("Origin", [("url", b"bytes")]),
    ]
    d3 = SObj("DirectoryEntry", [("name", b"dup"), ("type", "file"), ("target", g.sha()), ("perms", 0o100644)])
    out.append(SObj("Directory", [("entries", (d3, d3))]))
    # inadmissible metadata contexts
    for tag, key in [("ori", "origin"), ("snp", "snapshot"), ("rel", "release"), ("rev", "revision"), ("rev", "path"),
                     ("dir", "directory"), ("emd", "visit")]:
        s = gen_rem(g, tag, set(), "absent")
        extra = {"origin": "https://o", "visit": 1, "snapshot": g.core("snp"), "release": g.core("rel"),
                 "revision": g.core("rev"), "path": b"p", "directory": g.core("dir")}[key]
        fl = [(n, v) for n, v in s.fields if n not in (key, "origin")]
        if key == "visit":
            fl.append(("origin", "https://o"))
        out.append(SObj(s.cls, fl + [(key, extra)]))
    s = gen_rem(g, "cnt", set(), "absent")
    out.append(SObj(s.cls, [(n, v) for n, v in s.fields if n not in ("visit", "origin")] + [("visit", 3)]))
    out.append(SObj(s.cls, [(n, v) for n, v in s.fields if n not in ("visit", "origin")] + [("origin", "o"), ("visit", 0)]))
    out.append(SObj(s.cls, [(n, v) for n, v in s.fields if n not in ("origin",)] + [("origin", "swh:1:cnt:" + "0" * 40)]))
    out.append(SObj(s.cls, [(n, v) for n, v in s.fields if n not in ("snapshot",)] + [("snapshot", g.core("rev"))]))
    return out


def legacy_cases(g, n):
    """the three legacy encodings (+ the other inputs TimestampWithTimezone.from_dict accepts)"""
    r = g.r
    out = []
    # (1) numeric offset + negative_utc
    offs = [0, 1, -1, 59, 60, -60, 330, -330, 754, 5999, 6000, -6000, 32767, -32768, 32768, -32769, 100000]
    for k in range(n):
        off = r.choice(offs) if r.random() < 0.7 else r.randrange(-33000, 33000)
        negs = r.choice(["absent", None, False, True])
        tsm = r.choice(["dict", "dict", "int", "partial"])
        sec, us = r.choice([0, 1, -5, 1_600_000_000]), r.choice([0, 7, 999999])
        if tsm == "int":
            ts, us = sec, 0
        elif tsm == "partial":
            ts, sec, us = SDict([]), 0, 0
        else:
            ts = SDict([("seconds", sec), ("microseconds", us)])
        items = [("timestamp", ts), ("offset", off)]
        if negs != "absent":
            items.append(("negative_utc", negs))
        r.shuffle(items)
        case = {"cls": "TimestampWithTimezone", "kind": "dict", "legacy": "offset", "w": enc(SDict(items))}
        neg = bool(negs is True)
        if -32768 <= off < 32768 and not (neg and off > 0):
            negative = off < 0 or neg
            ob = ("%s%02d%02d" % ("-" if negative else "+", abs(off) // 60, abs(off) % 60)).encode()
            case["w2"] = enc(SDict([("timestamp", SDict([("seconds", sec), ("microseconds", us)])), ("offset_bytes", ob)]))
        out.append(case)
    # other accepted inputs: datetime, int, bool, garbage
    for v in [g.date() for _ in range(max(4, n // 4))] + [0, 5, -7, 253402297200, True, None, "2020", b"x", SDict([]),
                                                          SDict([("timestamp", "x"), ("offset_bytes", b"+0000")]),
                                                          SDict([("timestamp", 1)]),
                                                          SDict([("timestamp", SDict([("seconds", 1), ("microseconds", 1), ("x", 2)])),
                                                                 ("offset_bytes", b"+0100"), ("ignored", 1)])]:
        out.append({"cls": "TimestampWithTimezone", "kind": "dict", "legacy": "tstz-input", "w": enc(v)})
    # (2) extra headers inside metadata
    for k in range(n):
        spec = [s for s in gen_class(g, "Revision", 24) if not dict(s.fields).get("extra_headers")][k % 7]
        spec = fix_right_id(spec)
        o = realize(spec)
        d = o.to_dict()
        eh = [[r.choice([b"gpgsig", b"k", b"mergetag"]), g.bytes_()] for _ in range(r.randrange(0, 3))]
        eh = r.choice([eh, [tuple(p) for p in eh], tuple(tuple(p) for p in eh)])
        cur = dict(d)
        cur["extra_headers"] = tuple(tuple(p) for p in eh)
        md = dict(d["metadata"] or {})
        leg = dict(d)
        leg["metadata"] = {**md, "extra_headers": eh}
        if r.random() < 0.5:
            leg.pop("extra_headers")
        if not md and "metadata" in cur and r.random() < 0.5:
            cur["metadata"] = {} if d["metadata"] is not None else {}
        # without an explicit id both encodings compute it; with one it is kept
        if r.random() < 0.5:
            leg.pop("id"), cur.pop("id")
        # the current encoding of the same revision keeps an EMPTY metadata dict where the legacy one had only the headers
        cur["metadata"] = md
        out.append({"cls": "Revision", "kind": "dict", "legacy": "extra_headers", "w": enc(abstract(leg)),
                    "w2": enc(abstract(cur))})
    # (3) old-style metadata target
    for k in range(n):
        tag = r.choice(EXT_TAGS)
        spec = fix_right_id(gen_rem(g, tag, set(), r.choice(ID_MODES)))
        o = realize(spec)
        d = o.to_dict()
        leg = dict(d)
        if r.random() < 0.6:
            url = _tok(g, g.url())
            leg["type"], leg["target"] = "origin", url
            cur = dict(d)
            cur["target"] = ori_swhid(url)          # always the origin's SWHID: sha1 of the URL, written independently
            # the id of the dictionary belongs to another target: keep it as an explicit (wrong) id or drop it
            if r.random() < 0.5:
                leg.pop("id"), cur.pop("id")
        else:
            leg["type"] = {"snp": "snapshot", "rel": "release", "rev": "revision", "dir": "directory", "cnt": "content",
                           "ori": "whatever", "emd": "x"}[tag]
            cur = dict(d)
        items = list(leg.items())
        r.shuffle(items)
        out.append({"cls": "RawExtrinsicMetadata", "kind": "dict", "legacy": "target", "w": enc(abstract(dict(items))),
                    "w2": enc(abstract(cur))})
    return out


ABSENT = "<absent>"
PERSON_PARTS = [ABSENT, None, b"", b"Jane Doe", b"J <x> D", b" a  b ", b"j@d.org", b"<", b">"]
NONCANON_OFFSETS = [b"+200", b"+0160", b"", b"-0000", b"+1", b"+123456", b"-00000", b"+02", b"+2000000000", b"0000",
                    b"+01:00", b"\xff"]


def legacy_fullname(name, email):
    """the documented legacy rule of Person.from_dict (no "fullname" key): the name if it is not None, then the
    email in angle brackets if it is not None, joined by one space - an EMPTY name or email still counts"""
    parts = []
    if name is not None:
        parts.append(name)
    if email is not None:
        parts.append(b"<" + email + b">")
    return b" ".join(parts)


RANDOM = "<random>"


def person_form(g, fullname=RANDOM, name=RANDOM, email=RANDOM):
    """(legacy person dict, the current dict it must decode like | None when the rule gives no object)"""
    r = g.r
    fullname = r.choice([ABSENT, ABSENT, b"Full Name <f@n>", b""]) if fullname == RANDOM else fullname
    name = r.choice(PERSON_PARTS) if name == RANDOM else name
    email = r.choice(PERSON_PARTS) if email == RANDOM else email
    fullname, name, email = [(_tok(g, x) if isinstance(x, bytes) else x) for x in (fullname, name, email)]
    items = [(k, v) for k, v in (("fullname", fullname), ("name", name), ("email", email)) if v != ABSENT]
    r.shuffle(items)
    leg = SDict(items)
    if fullname == ABSENT:
        if name == ABSENT or email == ABSENT:
            return leg, None                                  # d["name"] / d["email"]: KeyError
        fn = legacy_fullname(name, email)
    else:
        fn = fullname
    cur = SDict([("fullname", fn), ("name", None if name == ABSENT else name), ("email", None if email == ABSENT else email)])
    return leg, cur


def fmt_offset(off, neg):
    negative = off < 0 or neg
    return ("%s%02d%02d" % ("-" if negative else "+", abs(off) // 60, abs(off) % 60)).encode()


def date_form(g, kind=None):
    """(legacy date dict, the {timestamp, offset_bytes} dict it must decode like | None).  Documented rule:
    recorded offset_bytes are kept verbatim whenever present (also next to a numeric offset); the numeric offset
    (+ negative_utc) is only the fallback and is formatted [+-]HHMM"""
    r = g.r
    kind = kind or r.choice(["bytes", "num", "both", "both"])
    sec, us = r.choice([0, 1, -5, 1_600_000_000, -62135510961]), r.choice([0, 7, 999999])
    tsm = r.choice(["dict", "dict", "dict", "int", "partial", "empty"])
    if tsm == "int":
        ts, us = sec, 0
    elif tsm == "partial":
        ts, us = SDict([("seconds", sec)]), 0
    elif tsm == "empty":
        ts, sec, us = SDict([]), 0, 0
    else:
        ts = SDict([("seconds", sec), ("microseconds", us)])
    items = [("timestamp", ts)]
    m = r.choice([0, 60, 120, 330, 754, 1439, r.randrange(0, 6000)])
    canon = fmt_offset(r.choice([m, -m]), r.random() < 0.2)
    ob = r.choice([canon, canon, r.choice(NONCANON_OFFSETS), r.choice(NONCANON_OFFSETS)])
    off = r.choice([0, 0, 120, -120, 96, m, -m, 32767, -32768, 40000])
    negs = r.choice([ABSENT, ABSENT, None, False, True])
    if kind in ("bytes", "both"):
        items.append(("offset_bytes", ob))
    if kind in ("num", "both"):
        items.append(("offset", off))
        if negs != ABSENT:
            items.append(("negative_utc", negs))
    r.shuffle(items)
    leg = SDict(items)
    tsd = SDict([("seconds", sec), ("microseconds", us)])
    if kind in ("bytes", "both"):
        return leg, SDict([("timestamp", tsd), ("offset_bytes", ob)])
    neg = negs is True
    if -32768 <= off < 32768 and not (neg and off > 0):
        return leg, SDict([("timestamp", tsd), ("offset_bytes", fmt_offset(off, neg))])
    return leg, None


def nested_legacy_cases(g, quick):
    """legacy Person / date dictionaries, standalone and embedded in Release / Revision dictionaries; dates of
    OriginVisit / OriginVisitStatus dictionaries in the forms from_dict does NOT decode (they must be datetimes)"""
    r = g.r
    out = []

    def case(cls, legacy, leg, cur, exp=None):
        try:
            c = {"cls": cls, "kind": "dict", "legacy": legacy, "w": enc(abstract(leg) if isinstance(leg, dict) else leg)}
            if cur is not None:
                c["w2"] = enc(abstract(cur) if isinstance(cur, dict) else cur)
            if exp is not None:
                c["exp"] = enc(exp)
            out.append(c)
        except Exception:
            pass

    # standalone persons: the full matrix without fullname, a sample with one
    parts = PERSON_PARTS if not quick else [ABSENT, None, b"", b"Jane Doe", b"J <x> D", b" a  b "]
    for nm in parts:
        for em in parts:
            leg, cur = person_form(g, ABSENT, nm, em)
            exp = SObj("Person", cur.items) if cur is not None else None
            case("Person", "person", leg, cur, exp)
    for _ in range(12 if quick else 200):
        leg, cur = person_form(g, r.choice([b"Full Name <f@n>", b"", b"x"]))
        case("Person", "person", leg, cur, SObj("Person", cur.items))
    # standalone dates
    for k in range(90 if quick else 3000):
        leg, cur = date_form(g, ["bytes", "num", "both", "both", "both"][k % 5])
        exp = None
        if cur is not None:
            d = dict(cur.items)
            exp = SObj("TimestampWithTimezone", [("timestamp", SObj("Timestamp", d["timestamp"].items)),
                                                 ("offset_bytes", d["offset_bytes"])])
        case("TimestampWithTimezone", "date", leg, cur, exp)
    for v in ["2020-01-01T00:00:00+00:00", "2020-01-01", b"2020-01-01T00:00:00Z"]:
        case("TimestampWithTimezone", "date", v, None)
    # embedded
    bases = {}
    for cls in ("Release", "Revision"):
        bases[cls] = []
        try:
            for spec in gen_class(g, cls, 16):
                try:
                    bases[cls].append(abstract(realize(fix_right_id(spec)).to_dict()).items)
                except Exception:
                    pass
        except Exception:
            pass
    for k in range(120 if quick else 4000):
        cls = ("Release", "Revision")[k % 2]
        if not bases[cls]:
            continue
        d0 = r.choice(bases[cls])
        leg, cur, ok = dict(d0), dict(d0), True
        slots = [("author", "date")] if cls == "Release" else [("author", "date"), ("committer", "committer_date")]
        for pk, dk in slots:
            mode = r.choice(["both", "both", "person", "none"])
            if mode == "none":
                leg[pk] = cur[pk] = leg[dk] = cur[dk] = None
                continue
            pl, pc = person_form(g)
            leg[pk], cur[pk] = pl, pc
            ok = ok and pc is not None
            if mode == "both":
                dl, dc = date_form(g)
                leg[dk], cur[dk] = dl, dc
                ok = ok and dc is not None
            else:
                leg[dk] = cur[dk] = None
        if r.random() < 0.6:
            leg.pop("id", None), cur.pop("id", None)
        order = [k0 for k0, _ in d0 if k0 in leg]
        r.shuffle(order)
        case(cls, "embedded", SDict([(k0, leg[k0]) for k0 in order]),
             SDict([(k0, cur[k0]) for k0 in order]) if ok else None)
    # origin visits: the date must already be a datetime
    for cls in ("OriginVisit", "OriginVisitStatus"):
        for dv in [g.date(), g.date(), "2020-01-01T00:00:00+00:00", 1600000000, None,
                   SDict([("timestamp", 1), ("offset_bytes", b"+0000")])]:
            items = [("origin", g.url()), ("date", dv), ("type", "git")]
            if cls == "OriginVisitStatus":
                items += [("visit", 3), ("status", "full"), ("snapshot", None)]
            elif r.random() < 0.5:
                items.append(("visit", r.choice([None, 7])))
            case(cls, "visit-date", SDict(items), None)
    return out



# ------------------------------------------------------------------ "from_dict leaves its argument alone", systematically
# which class decodes the dictionaries nested under a key (read off the from_dict bodies of model.py)
NESTED = {
    ("Release", "author"): "Person", ("Release", "date"): "TimestampWithTimezone",
    ("Revision", "author"): "Person", ("Revision", "committer"): "Person",
    ("Revision", "date"): "TimestampWithTimezone", ("Revision", "committer_date"): "TimestampWithTimezone",
    ("Revision", "metadata"): "<revision-metadata>",
    ("TimestampWithTimezone", "timestamp"): "Timestamp",
    ("Directory", "entries"): "DirectoryEntry", ("Snapshot", "branches"): "SnapshotBranch",
    ("RawExtrinsicMetadata", "authority"): "MetadataAuthority", ("RawExtrinsicMetadata", "fetcher"): "MetadataFetcher",
}
INVALID_VALUES = [5, b"x", "s", [], SDict([])]


def known_keys(cls_name):
    """the keys cls.from_dict knows about: the attrs fields of the class plus every identifier-like string literal
    in the bodies of the from_dict / __attrs_post_init__ methods along its MRO (read from the source, not guessed)"""
    import ast
    import inspect
    import textwrap
    import attr
    from swh.model import model as M
    if cls_name == "<revision-metadata>":
        return ["extra_headers"]
    cls = getattr(M, cls_name)
    keys = [f.name for f in attr.fields(cls)] if attr.has(cls) else []
    for k in cls.__mro__:
        for meth in ("from_dict", "__attrs_post_init__", "from_numeric_offset"):
            f = k.__dict__.get(meth)
            if f is None:
                continue
            f = getattr(f, "__func__", f)
            try:
                tree = ast.parse(textwrap.dedent(inspect.getsource(f)))
            except Exception:
                continue
            doc = ast.get_docstring(tree.body[0]) if tree.body else None
            for node in ast.walk(tree):
                if isinstance(node, ast.Constant) and isinstance(node.value, str) and node.value != doc:
                    v = node.value
                    if v.isidentifier() and len(v) < 24 and v not in keys:
                        keys.append(v)
    return keys


def _positions(cls_name, d, path=()):
    """(path, class) of every dictionary inside d that some from_dict decodes, d itself first"""
    out = [(path, cls_name)]
    for k, v in d.items:
        sub = NESTED.get((cls_name, k))
        if sub is None:
            continue
        if isinstance(v, SDict) and sub == "SnapshotBranch":
            for bk, bv in v.items:
                if isinstance(bv, SDict):
                    out += _positions(sub, bv, path + (k, bk))
        elif isinstance(v, SDict):
            out += _positions(sub, v, path + (k,)) if not sub.startswith("<") else [(path + (k,), sub)]
        elif isinstance(v, (tuple, list)):
            for i, x in enumerate(v):
                if isinstance(x, SDict):
                    out += _positions(sub, x, path + (k, i))
    return out


def _set_at(d, path, key, value):
    """a copy of the spec d with d[path...][key] = value (key appended when new)"""
    if not path:
        items = [(k, (value if k == key else v)) for k, v in d.items]
        if key not in [k for k, _ in d.items]:
            items.append((key, value))
        return SDict(items)
    h, rest = path[0], path[1:]
    if isinstance(d, SDict):
        return SDict([(k, (_set_at(v, rest, key, value) if k == h else v)) for k, v in d.items])
    seq = [(_set_at(x, rest, key, value) if i == h else x) for i, x in enumerate(d)]
    return tuple(seq) if isinstance(d, tuple) else seq


def untouched_cases(g, quick):
    """for every class and every from_dict route (direct, BaseContent dispatch, nested): dictionaries that carry the
    optional / legacy / to-be-dropped keys the route knows about, each with None, a valid and an invalid value;
    nested dictionaries also as OrderedDict / MappingProxyType"""
    r = g.r
    out = []
    bases, pool = {}, {}
    for cls in CLASSES:
        bases[cls] = []
        for spec in _guard(gen_class, g, cls, 8):
            try:
                d = abstract(realize(fix_right_id(spec)).to_dict())
            except Exception:
                continue
            bases[cls].append(d)
            for k, v in d.items:
                pool.setdefault((cls, k), []).append(v)
    legacy_pool = {"offset": [0, 120, -330], "negative_utc": [True, False], "offset_bytes": [b"+0200", b"+200", b"-0000"],
                   "data": [b"data", b""], "type": ["origin", "revision"], "ctime": [g.date()], "reason": ["why"],
                   "extra_headers": [[[b"k", b"v"]], ()], "fullname": [b"A <a>"], "name": [b"A"], "email": [b"a"],
                   "seconds": [1], "microseconds": [2], "perms": [0o100644], "path": [b"p"], "id": [g.sha(), b""],
                   "raw_manifest": [b"tree 0\x00"], "target": [g.sha()]}
    per_base = 14 if quick else 10**6
    for top in CLASSES + ["BaseContent"]:
        srcs = (bases["Content"] + bases["SkippedContent"]) if top == "BaseContent" else bases[top]
        if not srcs:
            continue
        r.shuffle(srcs)
        for d in srcs[: (3 if quick else 12)]:
            top_cls = top
            if top == "BaseContent":
                top_cls = "SkippedContent" if dict(d.items).get("status") == "absent" else "Content"
            variants = []
            for path, pcls in _positions(top_cls, d):
                try:
                    keys = known_keys(pcls)
                except Exception:
                    keys = []
                fields = set(k for k, _ in d.items) if not path else set()
                for key in keys:
                    valid = pool.get((pcls, key), []) + legacy_pool.get(key, [])
                    vals = [None, r.choice(valid) if valid else g.bytes_(), r.choice(INVALID_VALUES)]
                    if key == "get_data":
                        vals = [None]            # loader hooks are not data (DESIGN 7): only "no hook"
                    extra_key = key not in fields                    # a key to_dict never emits at this place
                    for v in vals:
                        variants.append((0 if (extra_key or path) else 1, path, key, v))
            r.shuffle(variants)
            variants.sort(key=lambda t: t[0])                       # legacy / nested keys first, plain fields sampled
            for _, path, key, v in variants[:per_base]:
                try:
                    w = enc(_set_at(d, path, key, v))
                except Exception:
                    continue
                c = {"cls": top, "kind": "dict", "legacy": None, "route": "keys", "w": w}
                m = r.random()
                if m < 0.15:
                    c["mapping"] = "odict"
                elif m < 0.3:
                    c["mapping"] = "proxy"
                out.append(c)
    return out


def to_mapping(v, kind, top=True):
    """the same dictionary with every nested dict (odict: the top one too) as another Mapping type"""
    if isinstance(v, dict):
        inner = {k: to_mapping(x, kind, False) for k, x in v.items()}
        if kind == "odict":
            return collections.OrderedDict(inner)
        if kind == "proxy_top":
            return types.MappingProxyType(inner) if top else inner
        return inner if top else types.MappingProxyType(inner)
    if isinstance(v, list):
        return [to_mapping(x, kind, False) for x in v]
    if isinstance(v, tuple):
        return tuple(to_mapping(x, kind, False) for x in v)
    return v



# ------------------------------------------------------------------ audit dimensions
def _field_types(cls_name):
    import attr
    from swh.model import model as M
    return [(f.name, type_code(f.type)) for f in attr.fields(getattr(M, cls_name))]


def _with(spec, name, value):
    fl = [(n, (value if n == name else v)) for n, v in spec.fields]
    if name not in [n for n, _ in spec.fields]:
        fl.append((name, value))
    return SObj(spec.cls, fl)


def falsy_cases(g, quick):
    """every field of every class set to the falsy value(s) its declared type admits (b"", "", 0, False, (), {}),
    to True / False where an int is declared (bool is an int), one field at a time and all at once"""
    r = g.r
    out = []
    for cls in CLASSES:
        specs = [sp for sp in _guard(gen_class, g, cls, 8)]
        if not specs:
            continue
        r.shuffle(specs)
        for base in specs[: (2 if quick else 8)]:
            allf = base
            for name, t in _field_types(cls):
                vals = []
                if name == "get_data":
                    continue                 # loader hooks are not data (DESIGN 7)
                if "bytes" in t and "Tuple" not in t and "Dict" not in t:
                    vals.append(b"")
                if t in ("str", "Optional[str]"):
                    vals.append("")
                if t in ("int", "Optional[int]"):
                    vals += [0, True, False]
                if t == "bool":
                    vals.append(False)
                if t.startswith("Tuple"):
                    vals.append(())
                if "ImmutableDict" in t:
                    vals.append(SDict([]))
                for v in vals:
                    out.append({"cls": cls, "kind": "obj", "route": "falsy", "w": enc(fix_right_id(_with(base, name, v)))})
                if vals and name != "id":
                    allf = _with(allf, name, vals[0])
            out.append({"cls": cls, "kind": "obj", "route": "falsy", "w": enc(fix_right_id(allf))})
    return out


def neighbour_cases(g, quick):
    """A, then A with ONE field changed (also a field that takes no part in == or in unique_key: name / email of a
    person, ctime, the metadata of an authority or fetcher, the payload of an ExtID ...), then A again, in this
    order in the same process: a decoder that remembers earlier calls by key is seen"""
    r = g.r
    out = []
    for cls in CLASSES:
        specs = [sp for sp in _guard(gen_class, g, cls, 8)]
        if len(specs) < 2:
            continue
        r.shuffle(specs)
        for base in specs[: (1 if quick else 6)]:
            pool = {}
            for sp in specs:
                for n, v in sp.fields:
                    pool.setdefault(n, []).append(v)
            a = {"cls": cls, "kind": "obj", "route": "neighbour", "w": enc(fix_right_id(base))}
            for name, _ in _field_types(cls):
                if name in ("id", "get_data"):
                    continue
                cur = dict(base.fields).get(name, "<unset>")
                others = [v for v in pool.get(name, []) if enc(v) != (enc(cur) if cur != "<unset>" else None)]
                if not others:
                    continue
                b = _with(base, name, r.choice(others))
                out += [a, {"cls": cls, "kind": "obj", "route": "neighbour", "w": enc(fix_right_id(b))}, a]
    return out


def mixed_dict_cases(g, quick):
    """dictionaries that are not pure dictionary forms: enum MEMBERS where the value is expected, SWHID objects where
    the string is expected, already decoded objects where a dictionary is expected, dates given as datetime / int
    inside Release / Revision, falsy branch values, parents as a list, non-string keys, a textual ctime"""
    r = g.r
    out = []

    def add(cls, spec, **kw):
        try:
            c = {"cls": cls, "kind": "dict", "legacy": None, "route": "mixed", "w": enc(spec)}
            c.update(kw)
            out.append(c)
        except Exception:
            pass

    def base(cls, n):
        res = []
        for sp in _guard(gen_class, g, cls, 8):
            try:
                o = realize(fix_right_id(sp))
                res.append((o, abstract(o), abstract(o.to_dict())))
            except Exception:
                pass
        r.shuffle(res)
        return res[:n]

    n = 3 if quick else 20
    enum_fields = {"SnapshotBranch": ("target_type", "A"), "Release": ("target_type", "B"), "Revision": ("type", "C"),
                   "MetadataAuthority": ("type", "D")}
    for cls, (key, code) in enum_fields.items():
        for o, so, d in base(cls, n):
            val = dict(d.items)[key]
            add(cls, _set_at(d, (), key, SEnum(code, val)), w2=enc(d))              # the member itself: like its value
            other = [c for c in "ABCD" if c != code and val in ENUM_VALUES[c]]
            add(cls, _set_at(d, (), key, SEnum(other[0], val) if other else SEnum("C", "git")))   # a member of another enum
    for o, so, d in base("ExtID", n):
        add("ExtID", _set_at(d, (), "target", dict(so.fields)["target"]))          # CoreSWHID object instead of str
    for o, so, d in base("RawExtrinsicMetadata", n):
        f = dict(so.fields)
        add("RawExtrinsicMetadata", _set_at(d, (), "target", f["target"]))
        add("RawExtrinsicMetadata", _set_at(d, (), "authority", f["authority"]))   # decoded objects
        add("RawExtrinsicMetadata", _set_at(d, (), "fetcher", f["fetcher"]))
        for k in ("snapshot", "release", "revision", "directory"):
            if f.get(k) is not None:
                add("RawExtrinsicMetadata", _set_at(d, (), k, f[k]))
    for cls, keys in (("Release", ("author", "date")), ("Revision", ("author", "committer", "date", "committer_date"))):
        for o, so, d in base(cls, n * 2):
            f = dict(so.fields)
            for k in keys:
                if f.get(k) is not None:
                    add(cls, _set_at(d, (), k, f[k]))                                # decoded Person / date object
            for k in keys:
                if k.endswith("date") and (f.get("author" if k == "date" else "committer") is not None):
                    for dv in (g.date(), r.choice([0, 5, 1_600_000_000]), True):        # datetime / int / bool
                        kw = {}
                        try:     # composition (not for the int 0: /repo tests `if d.get("date")`, so the epoch given as an
                            # int is left undecoded and rejected - observed, reported, not a listed legacy encoding)
                            if isinstance(dv, int) and not isinstance(dv, bool) and dv == 0:
                                raise ValueError("falsy int date")
                            # the embedded date decodes like the standalone decoder's dictionary
                            from swh.model.model import TimestampWithTimezone
                            kw["w2"] = enc(_set_at(d, (), k, abstract(TimestampWithTimezone.from_dict(realize(dv)).to_dict())))
                        except Exception:
                            pass
                        add(cls, _set_at(d, (), k, dv), **kw)
            if cls == "Revision":
                add(cls, _set_at(d, (), "parents", list(f["parents"])))
                add(cls, _set_at(d, (), "parents", SDict([(p, 1) for p in f["parents"]])))
    for o, so, d in base("Directory", n):
        ents = dict(so.fields)["entries"]
        if ents:
            add("Directory", _set_at(d, (), "entries", [ents[0]] + list(dict(d.items)["entries"][1:])))
        add("Directory", _set_at(d, (), "entries", list(dict(d.items)["entries"])))
    for o, so, d in base("Snapshot", n):
        br = dict(d.items)["branches"]
        sbr = dict(so.fields)["branches"]
        for v in (None, SDict([]), 0, (), "x", b""):
            add("Snapshot", _set_at(d, (), "branches", SDict([(b"falsy", v)] + list(br.items))))
        obj = [x for _, x in sbr.items if x is not None]
        if obj:
            add("Snapshot", _set_at(d, (), "branches", SDict([(b"obj", obj[0])])))
        add("Snapshot", _set_at(d, (), "branches", [(k, v) for k, v in br.items]))   # a list of pairs is no mapping
    for cls in CLASSES:
        for o, so, d in base(cls, 1):
            add(cls, SDict(list(d.items) + [(1, 2)]))                                 # non-string keys
            add(cls, SDict(list(d.items) + [(b"id", b"x")]))
            add(cls, SDict(list(d.items)), mapping="proxy_top")
    for cls in ("Content", "BaseContent"):
        for o, so, d in base("Content", n):
            for txt in ("2020-01-01T00:00:00+00:00", "2021-06-01 10:20:30.123456-05:30", "Thu, 1 Jan 2015 00:00:00 +0100",
                        "2020-01-01", "garbage", ""):
                add(cls, _set_at(d, (), "ctime", txt))
    return out


def boundary_cases(g):
    """values at, just below and just above the limits the validators know"""
    e2 = "\u00e9"
    ok_ts = SObj("Timestamp", [("seconds", 1), ("microseconds", 2)])
    out = [
        SObj("Origin", [("url", "x" * 2047)]), SObj("Origin", [("url", e2 * 1023 + "x")]),      # 2047 bytes
        SObj("Origin", [("url", e2 * 1024)]),                                                      # 2048 bytes, 1024 characters
        SObj("Origin", [("url", "\ud800")]), SObj("Origin", [("url", "u"), ("id", None)]),
        SObj("Timestamp", [("seconds", -62135510962), ("microseconds", 0)]),
        SObj("Timestamp", [("seconds", -62135510961), ("microseconds", 999999)]),
        SObj("Timestamp", [("seconds", 0), ("microseconds", -1)]),
        SObj("Timestamp", [("seconds", 0), ("microseconds", False)]),
        SObj("SnapshotBranch", [("target", g.bytes_(21)), ("target_type", SEnum("A", "content"))]),
        SObj("SnapshotBranch", [("target", g.bytes_(21)), ("target_type", SEnum("A", "alias"))]),
        SObj("SnapshotBranch", [("target", b""), ("target_type", SEnum("A", "alias"))]),
        SObj("OriginVisit", [("origin", "o"), ("date", g.date()), ("type", "git"), ("visit", 0)]),
        SObj("OriginVisit", [("origin", "o"), ("date", g.date()), ("type", "git"), ("visit", True)]),
        SObj("OriginVisit", [("origin", "o"), ("date", g.date()), ("type", "git"), ("visit", -1)]),
        SObj("DirectoryEntry", [("name", b"a"), ("type", "file"), ("target", g.sha()), ("perms", True)]),
        SObj("DirectoryEntry", [("name", b"a"), ("type", "file"), ("target", g.sha()), ("perms", -1)]),
        SObj("DirectoryEntry", [("name", b"a"), ("type", "file"), ("target", g.sha()), ("perms", "644")]),
        SObj("DirectoryEntry", [("name", b"a"), ("type", "file"), ("target", g.sha()), ("perms", None)]),
        SObj("Content", [("sha1", g.sha()), ("sha1_git", g.sha()), ("sha256", g.sha()), ("blake2s256", g.sha()),
                         ("length", True)]),
        SObj("SkippedContent", [("sha1", None), ("sha1_git", None), ("sha256", None), ("blake2s256", None),
                                ("length", None), ("status", "absent"), ("reason", "r")]),
        SObj("SkippedContent", [("sha1", None), ("sha1_git", None), ("sha256", None), ("blake2s256", None),
                                ("length", -1), ("status", "absent"), ("reason", "")]),
        SObj("ExtID", [("extid_type", "t"), ("extid", b"e"), ("target", g.core()), ("extid_version", True)]),
        SObj("Release", [("name", b"n"), ("message", None), ("target", None), ("target_type", SEnum("B", "revision")),
                         ("synthetic", 1), ("id", g.sha())]),
        SObj("Release", [("name", b"n"), ("message", None), ("target", g.sha()), ("target_type", SEnum("B", "revision")),
                         ("synthetic", False), ("metadata", SDict([(1, 2)]))]),
        SObj("Release", [("name", b"n"), ("message", None), ("target", g.sha()), ("target_type", SEnum("B", "revision")),
                         ("synthetic", False), ("metadata", SDict([(b"k", 2)]))]),
        SObj("Revision", [("message", None), ("author", None), ("committer", None), ("date", None), ("committer_date", None),
                          ("type", SEnum("C", "git")), ("directory", g.sha()), ("synthetic", True),
                          ("parents", [g.sha()])]),
        SObj("Revision", [("message", None), ("author", None), ("committer", None), ("date", None), ("committer_date", None),
                          ("type", SEnum("C", "git")), ("directory", g.sha()), ("synthetic", True),
                          ("extra_headers", [[b"a", b"b"], (b"c", b"d")])]),
        SObj("Revision", [("message", None), ("author", None), ("committer", None), ("date", None), ("committer_date", None),
                          ("type", SEnum("C", "git")), ("directory", g.sha()), ("synthetic", True),
                          ("extra_headers", ((b"a", "b"),))]),
        SObj("TimestampWithTimezone", [("timestamp", ok_ts), ("offset_bytes", None)]),
    ]
    # large and deep values
    deep = 1
    for _ in range(40):
        deep = SDict([("d", [(deep,)])])
    out.append(SObj("MetadataFetcher", [("name", "n"), ("version", "v"), ("metadata", SDict([("deep", deep)]))]))
    out.append(SObj("Revision", [("message", bytes(5000)), ("author", None), ("committer", None), ("date", None),
                                 ("committer_date", None), ("type", SEnum("C", "git")), ("directory", g.sha()),
                                 ("synthetic", True), ("parents", tuple(g.sha() for _ in range(300))),
                                 ("extra_headers", tuple((b"k%d" % i, g.bytes_()) for i in range(200)))]))
    out.append(SObj("Directory", [("entries", tuple(
        SObj("DirectoryEntry", [("name", b"f%d" % i), ("type", "file"), ("target", g.sha()), ("perms", 0o100644)])
        for i in range(300)))]))
    out.append(SObj("Snapshot", [("branches", SDict([(b"b%d" % i, None if i % 7 == 0 else SObj("SnapshotBranch", [
        ("target", g.sha()), ("target_type", SEnum("A", "revision"))])) for i in range(300)]))]))
    return [{"cls": sp.cls, "kind": "obj", "route": "boundary", "w": enc(fix_right_id(sp))} for sp in out]



def dict_variants(g, specs):
    """dictionary-level cases derived from generated objects: optional keys dropped, unknown keys, wrong values"""
    r = g.r
    out = []
    for spec in specs:
        try:
            o = realize(fix_right_id(spec))
            d = o.to_dict()
        except Exception:
            continue
        keys = list(d.keys())
        if not keys:
            continue
        k = r.randrange(4)
        d2 = dict(d)
        if k == 0:
            d2.pop(r.choice(keys))
        elif k == 1:
            d2["bogus_key"] = 1
        elif k == 2:
            d2[r.choice(keys)] = r.choice([None, 5, b"x", "s", {}, ()])
        else:
            if spec.cls == "Person":
                d2.pop("fullname")
            elif "id" in d2:
                d2["id"] = b""
            else:
                d2.pop(keys[-1])
        try:
            out.append({"cls": spec.cls, "kind": "dict", "legacy": None, "w": enc(abstract(d2))})
        except NotPlain:
            pass
    return out


def _guard(f, *a):
    """generation uses /repo's constructors (right ids, to_dict of base objects): a library exception must not
    escape gen() - the stream concerned is dropped and the comparison streams that remain still run"""
    try:
        return f(*a)
    except Exception:
        return []


def gen(rng, tier):
    g = G(rng)
    quick = tier != "thorough"
    cap = 64 if quick else 256
    rounds = 2 if quick else 30
    cases = []
    specs = []
    for _ in range(rounds):
        for cls in CLASSES:
            specs += _guard(gen_class, g, cls, cap)
    for s in specs:
        try:
            cases.append({"cls": s.cls, "kind": "obj", "w": enc(fix_right_id(s))})
        except Exception:
            pass
    for s in _guard(invalid_objs, g):
        cases.append({"cls": s.cls, "kind": "obj", "w": enc(s)})
    cases += _guard(legacy_cases, g, 80 if quick else 4000)
    cases += _guard(nested_legacy_cases, g, quick)
    cases += _guard(untouched_cases, g, quick)
    cases += _guard(falsy_cases, g, quick)
    cases += _guard(neighbour_cases, g, quick)
    cases += _guard(mixed_dict_cases, g, quick)
    cases += _guard(boundary_cases, g)
    cases += _guard(token_sweep_cases, g, quick)
    cases += _guard(legacy_token_cases, g, quick)
    cases += _guard(nfc_sweep_cases, g, quick)
    rng.shuffle(specs)
    cases += _guard(dict_variants, g, specs[: (600 if quick else 20000)])
    # BaseContent.from_dict dispatches on status
    for s in specs:
        if s.cls in ("Content", "SkippedContent") and rng.random() < (0.3 if quick else 0.1):
            try:
                d = realize(s).to_dict()
                cases.append({"cls": "BaseContent", "kind": "dict", "legacy": None, "w": enc(abstract(d))})
            except Exception:
                pass
    return cases


# ------------------------------------------------------------------ implementation side
def _cls(name):
    from swh.model import model as M
    return getattr(M, name)


def _ids(o):
    r = {}
    if hasattr(o, "id"):
        r["id"] = o.id.hex() if isinstance(o.id, bytes) else repr(o.id)
    for m in ("swhid",):
        if hasattr(o, m):
            try:
                r[m] = str(getattr(o, m)())
            except Exception as e:
                from .core import exc_class
                r[m] = "!" + exc_class(e)
    return r


def impl(c):
    from .core import exc_class
    res = {}
    if c["kind"] == "obj":
        spec = dec(c["w"])
        try:
            o = realize(spec)
        except Exception as e:
            return {"new": "!" + exc_class(e)}
        res["new"] = enc(abstract(o))
        if c["cls"] == "Release" and not any(n == "id" for n, _ in spec.fields):
            ref = ref_release_id(o)          # the id was computed at construction: it is the id of the git tag object
            res["ref_id"] = None if ref is None or ref == o.id.hex() else ref
        try:
            d = o.to_dict()
        except Exception as e:
            res["d"] = "!" + exc_class(e)
            return res
        res["non_plain"] = non_plain(d)
        try:
            res["d"] = enc(abstract(d))
        except NotPlain as e:
            res["d"] = "!NotPlain"
        dc = copy.deepcopy(d)
        try:
            o2 = type(o).from_dict(d)
        except Exception as e:
            res["o2"] = "!" + exc_class(e)
            return res
        res["o2"] = enc(abstract(o2))
        res["eq"] = bool(o2 == o) and bool(o == o2)
        res["hash_eq"] = True
        try:
            res["hash_eq"] = hash(o2) == hash(o)
        except TypeError:
            pass                       # unhashable metadata values: hash() fails on both alike
        res["ids"] = [_ids(o), _ids(o2)]
        try:
            res["d_after"] = enc(abstract(d))
            res["untouched"] = (res["d_after"] == enc(abstract(dc))) and d == dc
        except NotPlain:
            res["untouched"] = d == dc
        if c.get("twin"):
            try:      # the same object written in another Unicode normal form is ANOTHER object with another dictionary
                tw = realize(dec(c["twin"]))
                res["twin_distinct"] = enc(abstract(tw)) != res["new"] and enc(abstract(tw.to_dict())) != res["d"]
                res["exact"] = res["o2"] == res["new"]
            except Exception as e:
                res["twin_distinct"] = "!" + exc_class(e)
        try:
            res["twice"] = bool(type(o).from_dict(d) == o2)
        except Exception:
            res["twice"] = False
        d2 = o2.to_dict()
        res["idem"] = d2 == d
        try:
            res["d2"] = enc(abstract(d2))
        except NotPlain:
            res["d2"] = "!NotPlain"
        return res
    # dictionary-level case
    d = realize(dec(c["w"]))
    if c.get("mapping"):
        d = to_mapping(d, c["mapping"])
    cls = _cls(c["cls"])

    def snapshot(x):
        try:
            return enc(abstract(x))          # keys, their order and every nested value
        except Exception:
            return repr(x)

    def outcome(f):
        try:
            o = f()
            return o, enc(abstract(o))
        except Exception as e:
            return None, "!" + exc_class(e)

    before = snapshot(d)
    o, res["o"] = outcome(lambda: cls.from_dict(d))
    res["d_after"] = snapshot(d)
    res["untouched"] = res["d_after"] == before
    _, again = outcome(lambda: cls.from_dict(d))          # the SAME dictionary object, a second time
    res["twice"] = again == res["o"] and snapshot(d) == before
    res["again"] = again
    if o is not None:
        try:
            d1 = o.to_dict()
            res["d1"] = enc(abstract(d1))
            res["non_plain"] = non_plain(d1)
            res["re_eq"] = type(o).from_dict(d1) == o
        except Exception as e:
            res["d1"] = "!" + exc_class(e)
    if c.get("w2"):
        try:
            o_cur = cls.from_dict(realize(dec(c["w2"])))
            res["cur"] = enc(abstract(o_cur))
            res["legacy_eq"] = (o is not None) and bool(o == o_cur) and res["cur"] == res["o"]
            if o is not None and hasattr(o, "id"):
                res["legacy_eq"] = res["legacy_eq"] and o.id == o_cur.id
        except Exception as e:
            res["cur"] = "!" + exc_class(e)
            res["legacy_eq"] = (o is None) and res["cur"] == res["o"]      # both rejected alike
    return res


# ------------------------------------------------------------------ model side
def _oracle_id(make):
    """the answer of the id oracle for this case: compute_hash() of the object `make(id)` builds with a dummy
    explicit id (hex), or the error class compute_hash raises"""
    from .core import exc_class
    try:
        o = make(b"\x01" * 20)
    except Exception:
        return "00" * 20                  # no such object whatever the id: the oracle is never asked
    if not hasattr(o, "compute_hash"):
        return "00" * 20
    if type(o).__name__ == "Release":
        ref = ref_release_id(o)
        if ref is not None:
            return ref
    try:
        return o.compute_hash().hex()
    except Exception as e:
        return "!" + exc_class(e)


GIT_TYPE = {"content": b"blob", "directory": b"tree", "revision": b"commit", "release": b"tag", "snapshot": b"refs"}


def ref_release_id(o):
    """the id of a release written independently of /repo: SHA-1 of the git tag object (object / type / tag / tagger
    headers, continuation lines for embedded newlines, blank line + message), or of the raw manifest when there is one;
    None where the rule gives no id (no target: /repo's own answer is used)"""
    import hashlib
    try:
        from .gitobj_common import author_line_spec
        if o.raw_manifest is not None:
            return hashlib.sha1(o.raw_manifest).hexdigest()
        if o.target is None:
            return None
        esc = lambda v: v.replace(b"\n", b"\n ")
        lines = [b"object " + o.target.hex().encode(), b"type " + GIT_TYPE[o.target_type.value], b"tag " + esc(o.name)]
        if o.author is not None:
            date = None
            if o.date is not None:
                date = (o.date.timestamp.seconds, o.date.timestamp.microseconds, o.date.offset_bytes.hex())
            lines.append(b"tagger " + esc(author_line_spec(o.author.fullname, date)))
        body = b"\n".join(lines) + b"\n"
        if o.message is not None:
            body += b"\n" + o.message
        return hashlib.sha1(b"tag %d\x00" % len(body) + body).hexdigest()
    except Exception:
        return None


def _origin_id(d):
    """legacy metadata target: the id of Origin(url), needed by the model's oracle for the nested Origin"""
    import hashlib
    try:
        if isinstance(d, dict) and d.get("type") == "origin" and isinstance(d.get("target"), str):
            return hashlib.sha1(d["target"].encode()).hexdigest()
    except Exception:
        pass
    return "00" * 20


def _dateparse(txt):
    """dateutil's answer for a textual ctime, handed to the model as an oracle (a naive result is rejected by the
    ctime validator with a ValueError, like a parse error)"""
    from .core import exc_class
    try:
        import dateutil.parser
        dt = dateutil.parser.parse(txt)
        if dt.tzinfo is None:
            return "!ValueError"
        return enc(abstract(dt))
    except Exception as e:
        k = exc_class(e)
        return "!" + (k if k in ("TypeError", "ValueError", "KeyError") else "ValueError")


def kwargs_wire(spec):
    """constructor kwargs with nested objects already constructed (post-construction attribute trees)"""
    items = []
    for n, v in spec.fields:
        items.append((n, abstract(realize(v))))
    return enc(SDict(items))


def requests(c):
    reqs = []
    if c["kind"] == "obj":
        spec = dec(c["w"])
        try:
            kw = kwargs_wire(spec)
        except Exception:
            c["_skip"] = True            # a NESTED object is rejected: nothing to ask the model
            return []
        try:
            o = realize(spec)
        except Exception:
            o = None
        oid = _oracle_id(lambda i: realize(SObj(spec.cls, [(n, v) for n, v in spec.fields if n != "id"] + [("id", i)])))
        reqs.append("new %s %s %s" % (c["cls"], oid, kw))
        if o is not None:
            reqs.append("rt %s %s %s" % (c["cls"], oid, enc(abstract(o))))
        return reqs
    def oid_for(d):
        if not isinstance(d, dict):
            return "00" * 20
        return _oracle_id(lambda i: _cls(c["cls"]).from_dict({**copy.deepcopy(d), "id": i}))
    def orig_for(d):                  # the oracle's answer for a (nested) Origin
        return oid_for(d) if c["cls"] == "Origin" else _origin_id(d)
    if c.get("mapping") in ("proxy", "proxy_top"):
        c["_skip"] = True                # read-only views are not values of the model: implementation-only oracle
        return []
    d = realize(dec(c["w"]))
    if c["cls"] in ("Content", "BaseContent") and isinstance(d, dict) and isinstance(d.get("ctime"), str):
        reqs.append("fdp %s %s %s %s %s" % (c["cls"], oid_for(d), orig_for(d), _dateparse(d["ctime"]), c["w"]))
        return reqs
    reqs.append("%s %s %s %s %s" % (c.get("op", "fd"), c["cls"], oid_for(d), orig_for(d), c["w"]))
    if c.get("w2"):
        d2 = realize(dec(c["w2"]))
        reqs.append("fd %s %s %s %s" % (c["cls"], oid_for(d2), orig_for(d2), c["w2"]))
    return reqs


def model(c, resp):
    if c.pop("_skip", None):
        return {"skipped": True}
    res = {}
    if c["kind"] == "obj":
        res["new"] = resp[0].split(" ")[1] if resp[0].startswith("ok ") else resp[0]
        if len(resp) > 1:
            p = resp[1].split(" ")
            if p[0] != "ok" or len(p) != 6:
                res["rt"] = resp[1]
            else:
                res.update({"construct": p[1], "d": p[2], "o2": p[3], "d_after": p[4], "d2": p[5]})
        return res
    p = resp[0].split(" ")
    if p[0] != "ok" or len(p) != 4:
        res["fd"] = resp[0]
    else:
        res.update({"o": p[1], "d_after": p[2], "d1": p[3]})
    if len(resp) > 1:
        p = resp[1].split(" ")
        res["cur"] = p[1] if p[0] == "ok" else resp[1]
    return res


# ------------------------------------------------------------------ the property on the implementation
def oracle(c, ires, mres):
    if c["kind"] == "obj":
        if ires.get("new", "").startswith("!"):
            return None                                   # not an object: nothing to round-trip
        if ires.get("ref_id"):
            return ("the id computed for the release is not the SHA-1 of its git tag object written independently "
                    "(expected %s): the ids the round trip preserves are not the objects' ids" % ires["ref_id"])
        if ires.get("d", "").startswith("!") and ires["d"] != "!NotPlain":
            return "to_dict raised " + ires["d"]
        if ires.get("non_plain"):
            return "the dictionary contains a non-plain value at " + ires["non_plain"]
        if ires.get("o2", "").startswith("!"):
            return "from_dict(to_dict(o)) raised " + ires["o2"]
        if not ires.get("eq"):
            return "from_dict(to_dict(o)) != o"
        if not ires.get("hash_eq"):
            return "from_dict(to_dict(o)) has another hash than o"
        if ires["ids"][0] != ires["ids"][1]:
            return "from_dict(to_dict(o)) has another id: %r" % (ires["ids"],)
        if not ires.get("idem"):
            return "to_dict(from_dict(to_dict(o))) != to_dict(o)"
        if not ires.get("untouched"):
            return "from_dict modified the dictionary it was given"
        if ires.get("twice") is False:
            return "decoding to_dict(o) a second time does not give the same object"
        if ires.get("twin_distinct") is False:
            return "the object and its twin in another Unicode normal form are the same object / have the same dictionary"
        if ires.get("exact") is False:
            return "from_dict(to_dict(o)) is not o attribute for attribute: %s" % ires.get("o2")
        return None
    if not ires.get("untouched"):
        return "from_dict modified the dictionary it was given: before/after differ (after: %s)" % ires.get("d_after")
    if ires.get("twice") is False:
        return "decoding the same dictionary twice gives %s then %s" % (ires.get("o"), ires.get("again"))
    if c.get("mapping") in ("proxy", "proxy_top"):
        return None       # read-only views stored in an unvalidated field are outside the typed domain: only the two oracles above
    if ires.get("non_plain"):
        return "the dictionary of the decoded object contains a non-plain value at " + ires["non_plain"]
    if "re_eq" in ires and not ires["re_eq"]:
        return "the decoded object does not round-trip"
    if c.get("exp") and ires.get("o") != c["exp"]:
        return "legacy encoding (%s): from_dict gives %s, the documented legacy rule gives %s" % (
            c.get("legacy"), ires.get("o"), c["exp"])
    if c.get("w2") and not ires.get("legacy_eq"):
        return "legacy encoding (%s) and current encoding decode to different objects: %s vs %s" % (
            c.get("legacy"), ires.get("o"), ires.get("cur"))
    return None


def _blank_id(w):
    """drop the value of the top-level id field of an object wire (ids computed by the oracle are compared apart)"""
    try:
        s = dec(w)
    except Exception:
        return w
    if isinstance(s, SObj):
        return enc(SObj(s.cls, [(n, (b"" if n == "id" else v)) for n, v in s.fields]))
    return w


def _err(w):
    return w.startswith("!") or w.startswith("err")


def _same(a, b):
    """wire equality; errors are compared by class (model: !ValueError etc.)"""
    return a == b


def compare(c, ires, mres):
    if mres.get("skipped"):
        return None
    if c["kind"] == "obj":
        if mres.get("new") != ires.get("new"):
            return "constructor: model %s, implementation %s" % (mres.get("new"), ires.get("new"))
        if ires["new"].startswith("!"):
            return None
        if "rt" in mres:
            return "model failed: " + mres["rt"]
        if mres["construct"] != ires["new"]:
            return "the model's constructor is not idempotent on the implementation's object: " + mres["construct"]
        for k, ik in (("d", "d"), ("o2", "o2"), ("d_after", "d_after"), ("d2", "d2")):
            if ik in ires and mres[k] != ires[ik]:
                return "%s: model %s, implementation %s" % (k, mres[k], ires[ik])
        return None
    if "fd" in mres:
        return "model failed: " + mres["fd"]
    mo, io = mres["o"], ires["o"]
    if mo != io:
        return "from_dict: model %s, implementation %s" % (mo, io)
    if ires.get("d_after") is not None and mres["d_after"] != ires["d_after"]:
        return "caller's dictionary afterwards: model %s, implementation %s" % (mres["d_after"], ires["d_after"])
    if "d1" in ires and mres["d1"] != ires["d1"]:
        return "to_dict of the decoded object: model %s, implementation %s" % (mres["d1"], ires["d1"])
    if "cur" in ires and mres.get("cur") != ires["cur"]:
        return "current encoding: model %s, implementation %s" % (mres.get("cur"), ires["cur"])
    return None


def nontrivial(c):
    if c["kind"] != "obj":
        return True
    s = dec(c["w"])
    try:
        o = realize(s)
    except Exception:
        return True
    import attr
    opt = [f for f in attr.fields(type(o)) if f.default is not attr.NOTHING or "Optional" in str(f.type)]
    vals = [getattr(o, f.name) for f in opt if f.name != "id"]
    some_set = any(v is not None and v != () for v in vals)
    some_none = any(v is None or v == () for v in vals)
    return some_set and some_none


def classify(c):
    ks = ["cls=" + c["cls"], "kind=" + c["kind"]]
    if c.get("legacy"):
        ks.append("legacy=" + c["legacy"])
    if c["kind"] == "obj":
        s = dec(c["w"])
        names = [n for n, _ in s.fields]
        if "id" in names:
            ks.append("explicit-id")
        ks.append("nkw=%d" % len(names))
    return ks


def shrink(c):
    """clear optional fields one at a time"""
    if c["kind"] != "obj":
        return
    s = dec(c["w"])
    for k in range(len(s.fields) - 1, -1, -1):
        yield {"cls": c["cls"], "kind": "obj", "w": enc(SObj(s.cls, s.fields[:k] + s.fields[k + 1:]))}
    for k, (n, v) in enumerate(s.fields):
        if v is not None and not isinstance(v, (SObj, SEnum, SSwhid)):
            continue
        if v is not None and n in ("author", "committer", "date", "committer_date"):
            yield {"cls": c["cls"], "kind": "obj", "w": enc(SObj(s.cls, s.fields[:k] + [(n, None)] + s.fields[k + 1:]))}


# ------------------------------------------------------------------ run-time cross-checks of the hard-coded tables
SCHEMA_EXPECT = None      # filled from the model's table by pre_checks via the driver (op `schema`)


def type_code(t):
    """attrs field type -> the type code of model/Codec.v"""
    s = str(t).replace("typing.", "").replace("swh.model.model.", "").replace("swh.model.swhids.", "") \
        .replace("swh.model.collections.", "").replace("datetime.datetime", "datetime")
    s = s.replace("<class '", "").replace("<enum '", "").replace("'>", "").replace(" ", "")
    return s


def pre_checks(ctx):
    """the model hard-codes per field: type, default value, elided-when-None; compare with attr.fields now"""
    import attr
    from . import core
    from swh.model import model as M
    fails = []
    resp = core.run_driver(ID, ["schema %s" % c for c in CLASSES])
    for cls, line in zip(CLASSES, resp):
        if not line.startswith("ok "):
            fails.append(("table:schema-" + cls, "driver: " + line))
            continue
        rows = [r.split("|") for r in line[3:].split(" ") if r]
        fields = attr.fields(getattr(M, cls))
        if [r[0] for r in rows] != [f.name for f in fields]:
            fails.append(("table:schema-" + cls, "field names/order: model %s, source %s" % ([r[0] for r in rows], [f.name for f in fields])))
            continue
        for r, f in zip(rows, fields):
            name, ty, dflt, elide = r
            src_ty = type_code(f.type)
            if ty != src_ty:
                fails.append(("table:schema-%s.%s" % (cls, name), "type: model %s, source %s" % (ty, src_ty)))
            if f.default is attr.NOTHING:
                src_d = "-"
            else:
                try:
                    src_d = enc(abstract(f.default))
                except Exception:
                    src_d = "?" + repr(f.default)
            if dflt != src_d:
                fails.append(("table:schema-%s.%s" % (cls, name), "default: model %s, source %s" % (dflt, src_d)))
        # elision: observed on an object with every optional field None
    # enum tables
    for code, name in ENUM_CODES.items():
        src = [m.value for m in getattr(M, name)]
        if src != ENUM_VALUES[code]:
            fails.append(("table:enum-" + name, "harness %s, source %s" % (ENUM_VALUES[code], src)))
    resp = core.run_driver(ID, ["enum %s" % c for c in ENUM_CODES])
    for (code, name), line in zip(ENUM_CODES.items(), resp):
        want = "ok " + " ".join(_s(v) for v in ENUM_VALUES[code])
        if line.strip() != want.strip():
            fails.append(("table:enum-" + name, "model %s, source %s" % (line, want)))
    return fails


# functions of /repo whose executed-line coverage by this run is reported in the evidence
ANCHORS = [('swh/model/model.py', 'dictify'),
           ('swh/model/model.py', '*.to_dict'),
           ('swh/model/model.py', '*.from_dict'),
           ('swh/model/model.py', 'TimestampWithTimezone.from_numeric_offset'),
           ('swh/model/collections.py', 'ImmutableDict.copy_pop')]


# the case stream is ordered by family and class: coq_cases gets every case and keeps a spread over the whole stream (it
# shrinks the list it is given IN PLACE: the evidence's `n` is the number evaluated)
COQ_SAMPLE = 1 << 30


def coq_cases(cases):
    """construct_x / to_dict_x / from_dict_x / from_dict_old_x / fd_BaseContent_x / as_kwargs evaluated by vm_compute inside
    Coq vs the extracted driver.  The Coq terms are built from the very request lines the driver receives (the wire values
    parsed as the driver parses them), and the Coq side prints the answer LINE itself (a transcription of the driver's
    printer into Gallina): the checksum is over the bytes of the answer line; one checksum per case (extraction cross-check)"""
    from . import core
    fam = {"obj": [], "dict": []}
    for c in cases:
        fam.setdefault(c["kind"], []).append(c)
    def spread(l, n):
        return l[::max(1, len(l) // n)][:n] if l else []
    chosen = []
    for c in spread(fam["obj"], 16) + spread(fam["dict"], 16):
        try:
            rqs = requests(c)
        finally:
            c.pop("_skip", None)
        if rqs and sum(len(r) for r in rqs) <= 2000:
            chosen.append((c, rqs))
    cases[:] = [c for c, _ in chosen]
    CLS = ["Person", "Timestamp", "TimestampWithTimezone", "Origin", "OriginVisit", "OriginVisitStatus", "SnapshotBranch", "Snapshot",
           "Release", "Revision", "DirectoryEntry", "Directory", "Content", "SkippedContent", "MetadataAuthority", "MetadataFetcher",
           "RawExtrinsicMetadata", "ExtID"]
    ENUM = {"A": "ESnapshotTarget", "B": "EReleaseTarget", "C": "ERevisionType", "D": "EAuthorityType"}

    def nl(h):
        return "[" + "; ".join("%d" % b for b in bytes.fromhex(h)) + "]%N"
    def t6(h):
        return "[" + "; ".join("%d" % int(h[i:i + 6], 16) for i in range(0, len(h), 6)) + "]%N"
    def asc(s):
        return "[" + "; ".join("%d" % ord(ch) for ch in s) + "]%N"
    def parse(w):
        """the driver's `parse`, producing a Coq term"""
        pos = 0
        def until(ch):
            nonlocal pos
            j = w.index(ch, pos)
            t = w[pos:j]
            pos = j + 1
            return t
        def seq(close):
            nonlocal pos
            out = []
            while w[pos] != close:
                out.append(value())
            pos += 1
            return out
        def pairs(close):
            nonlocal pos
            out = []
            while w[pos] != close:
                k = value()
                x = value()
                out.append("(%s, %s)" % (k, x))
            pos += 1
            return out
        def value():
            nonlocal pos
            c = w[pos]
            pos += 1
            if c == "N":
                return "VNone"
            if c in "TF":
                return "(VBool %s)" % ("true" if c == "T" else "false")
            if c == "i":
                return "(VInt (%d)%%Z)" % int(until(";"))
            if c == "b":
                return "(VBytes %s)" % nl(until(";"))
            if c == "s":
                return "(VStr %s)" % t6(until(";"))
            if c == "d":
                a, b = until(";").split(",")
                return "(VDate (%d)%%Z (%d)%%Z)" % (int(a), int(b))
            if c == "(":
                return "(VTuple [%s])" % "; ".join(seq(")"))
            if c == "[":
                return "(VList [%s])" % "; ".join(seq("]"))
            if c == "{":
                return "(VDict [%s])" % "; ".join(pairs("}"))
            if c == "<":
                return "(VIDict [%s])" % "; ".join(pairs(">"))
            if c == "e":
                code = w[pos]
                pos += 1
                return "(VEnum %s %s)" % (ENUM[code], t6(until(";")))
            if c == "w":
                k = w[pos]
                pos += 1
                a, b = until(";").split(",")
                return "(VSwhid %s %s %s)" % ("Core" if k == "c" else "Extended", t6(a), nl(b))
            if c == "O":
                cn = until(":")
                assert cn in CLS, cn
                flds = []
                while w[pos] != ".":
                    assert w[pos] == "k", w[pos:pos + 20]
                    pos += 1
                    n = until("=")
                    flds.append("(%s, %s)" % (asc(n), value()))
                pos += 1
                return "(VObj c%s [%s])" % (cn, "; ".join(flds))
            raise ValueError("bad wire tag " + c)
        v = value()
        assert pos == len(w), "trailing wire data"
        return v
    def oid(s):
        if s.startswith("!"):
            e = s[1:] if s[1:] in ("TypeError", "ValueError", "KeyError", "AssertionError", "ValidationError", "AttributeError") else "ValueError"
            return "(Err %s)" % e
        return "(Ok %s)" % nl(s)
    def term(rq):
        w = rq.split(" ")
        if w[0] == "new":
            return "xc_new %s c%s %s" % (oid(w[2]), w[1], parse(w[3]))
        if w[0] == "rt":
            return "xc_rt %s c%s %s" % (oid(w[2]), w[1], parse(w[3]))
        if w[0] == "fdp":
            dp = oid(w[4]) if w[4].startswith("!") else "(Ok %s)" % parse(w[4])
            if w[1] == "BaseContent":
                f = "(fd_BaseContent_xd %s %s)" % (oid(w[2]), dp)
            else:
                f = "(from_dict_xd %s %s %s c%s)" % (oid(w[2]), oid(w[3]), dp, w[1])
            return "xc_fd %s %s" % (f, parse(w[5]))
        assert w[0] in ("fd", "fdold"), rq
        if w[1] == "BaseContent":
            f = "(fd_BaseContent_x %s)" % oid(w[2])
        else:
            f = "(%s %s %s c%s)" % ("from_dict_x" if w[0] == "fd" else "from_dict_old_x", oid(w[2]), oid(w[3]), w[1])
        return "xc_fd %s %s" % (f, parse(w[4]))
    src = ("From Coq Require Import List NArith ZArith.\nFrom SWH.lib Require Import Bytes Dec Hex.\nFrom SWH.model Require Import Codec.\n"
           "Import ListNotations.\n" + core.COQ_CHECKSUM + """
(* the driver's printer (ocaml/drv_C12.ml), transcribed: the answer line as bytes *)
Definition xc_hex6 (t : list N) : list N := concat (map (fun c => hexlify [c / 65536; (c / 256) mod 256; c mod 256]%N) t).
Definition xc_cls (c : cls) : list N := match c with
""" + "\n".join("  | c%s => bs \"%s\"" % (n, n) for n in CLS) + """
  end.
Definition xc_cls_eqb (a b : cls) : bool := match a, b with
""" + "\n".join("  | c%s, c%s => true" % (n, n) for n in CLS) + """
  | _, _ => false end.
Definition xc_enum (e : enum_ty) : list N :=
  match e with ESnapshotTarget => bs "A" | EReleaseTarget => bs "B" | ERevisionType => bs "C" | EAuthorityType => bs "D" end.
Fixpoint xc_show (v : pyval) : list N :=
  match v with
  | VNone => bs "N"
  | VBool b => if b then bs "T" else bs "F"
  | VInt z => bs "i" ++ dec_Z z ++ bs ";"
  | VBytes b => bs "b" ++ hexlify b ++ bs ";"
  | VStr s => bs "s" ++ xc_hex6 s ++ bs ";"
  | VDate us off => bs "d" ++ dec_Z us ++ bs "," ++ dec_Z off ++ bs ";"
  | VTuple l => bs "(" ++ concat (map xc_show l) ++ bs ")"
  | VList l => bs "[" ++ concat (map xc_show l) ++ bs "]"
  | VDict l => bs "{" ++ concat (map (fun kx : pyval * pyval => xc_show (fst kx) ++ xc_show (snd kx)) l) ++ bs "}"
  | VIDict l => bs "<" ++ concat (map (fun kx : pyval * pyval => xc_show (fst kx) ++ xc_show (snd kx)) l) ++ bs ">"
  | VEnum e s => bs "e" ++ xc_enum e ++ xc_hex6 s ++ bs ";"
  | VSwhid k t i => bs "w" ++ (match k with Core => bs "c" | Extended => bs "x" end) ++ xc_hex6 t ++ bs "," ++ hexlify i ++ bs ";"
  | VObj c fs => bs "O" ++ xc_cls c ++ bs ":"
                 ++ concat (map (fun nx : list N * pyval => bs "k" ++ fst nx ++ bs "=" ++ xc_show (snd nx)) fs) ++ bs "."
  end.
Definition xc_err (e : err) : list N :=
  match e with
  | TypeError => bs "!TypeError" | ValueError => bs "!ValueError" | KeyError => bs "!KeyError"
  | AssertionError => bs "!AssertionError" | ValidationError => bs "!ValidationError" | AttributeError => bs "!AttributeError"
  end.
Definition xc_res (r : result pyval) : list N := match r with Ok v => xc_show v | Err e => xc_err e end.
Definition xc_new (oid : result (list N)) (c : cls) (w : pyval) : list N :=
  match w with
  | VDict kw => bs "ok " ++ xc_res (construct_x oid oid c kw)
  | _ => bs "err bad_request"
  end.
Definition xc_rt (oid : result (list N)) (c : cls) (w : pyval) : list N :=
  match w with
  | VObj c' fs =>
      if xc_cls_eqb c' c then
        let r0 := construct_x oid oid c (as_kwargs fs) in
        let d := to_dict_x (VObj c fs) in
        let (r, after) := from_dict_x oid oid c d in
        let d2 := match r with Ok o2 => xc_show (to_dict_x o2) | Err e => xc_err e end in
        bs "ok " ++ xc_res r0 ++ bs " " ++ xc_show d ++ bs " " ++ xc_res r ++ bs " " ++ xc_show after ++ bs " " ++ d2
      else bs "err bad_request"
  | _ => bs "err bad_request"
  end.
Definition xc_fd (f : pyval -> result pyval * pyval) (v : pyval) : list N :=
  let (r, after) := f v in
  let d1 := match r with Ok o => xc_show (to_dict_x o) | Err e => xc_err e end in
  bs "ok " ++ xc_res r ++ bs " " ++ xc_show after ++ bs " " ++ d1.
""" + "Definition cases : list (list (list N)) := [" +
           ";\n ".join("[" + ";\n  ".join(term(r) for r in rqs) + "]" for _, rqs in chosen) + "].\n"
           "Eval vm_compute in map (fun rs => cksum (map cksum rs)) cases.\n")
    flat = [r for _, rqs in chosen for r in rqs]
    resp = iter(core.run_driver(ID, flat))
    exp = [core.py_cksum([core.py_cksum(next(resp).encode()) for _ in rqs]) for _, rqs in chosen]
    return src, exp
