"""C10 - Merkle nodes never report a stale hash (swh/model/merkle.py, from_disk.Directory/Content).

Tie: every generated history (new node / set / replace / delete / bulk update /
nested path keys / read hash / swhid / forced update / entries / to_model /
collect / reset / out-of-band data write) is run on /repo's classes and on the extracted heap machine
(coq/model/Merkle.v), and every output is compared op by op:
  * generic world: a MerkleNode/MerkleLeaf subclass whose compute_hash is the
    driver's NH (md5 of an injective encoding of data and, in dict order,
    (name, child.data, child.hash)); the reported hashes are compared directly;
  * disk world: real from_disk.Directory / Content nodes; the model's hash of a
    node is compared with the NH-hash computed from scratch over the
    implementation's current structure (same structure <=> same value, NH being
    injective up to md5), and the implementation's real id is compared with the
    git id computed from scratch (oracle);
  * exception classes (KeyError / ValueError) are compared.
Oracle (the property on the implementation alone): after EVERY operation,
every value the implementation returned for a hash / entries / to_model / collect
equals the value recomputed from scratch by a pure recursion over the current
dict structure (no caches), and - without disturbing the caches - every node
whose private cached hash is set holds the from-scratch value (this is what
`.hash` would return).  In "readall" histories `.hash` of every live node is read
after every operation on both sides.
"""
import hashlib

ID = "C10"
PROPS = "Props/C10.v"
EXTRACT = "extract/ExC10.v"
OBLIGATION = "merkle-history"
THEOREMS = ["C10_inv_init", "C10_inv_step", "C10_reachable", "C10_no_stale", "C10_swhid_fresh", "C10_eq_is_pure",
            "C10_path_ops_total",
            "C10_chain_any_depth", "C10_chain_top_ops", "C10_acyclic_equiv", "C10_acyclic_no_self_reach", "C10_force_restores", "C10_inv_split",
            "C10_write_force_fresh", "C10_write_force_satisfiable", "C10_fresh_unique",
            "C10_delete_keeps_other_parent", "C10_no_stale_refuted_old_remove",
            "C10_falsy_hash_refuted_old", "C10_guards_satisfiable"]
RULE = ("bulk updates of GENERIC nodes whose keys are b'', b'/' or nested-looking paths, then deletes / replacements / "
        "lookups / reads of those names (Directory bulk updates use plain names only), and, generally, failing mutator calls "
        "right after hashes were cached or nodes collected, followed by successful mutations and reads; "
        "collect as the first operation on freshly built / attached nodes followed by mutations and a second collect "
        "without any read in between (the runner itself never reads .hash of collected nodes); "
        "chains of 150, 300, 450 nested nodes (must agree exactly with the model) and of 1100, 1500 (more in the "
        "thorough tier; the library's RecursionError there is the open known finding chain-deeper-than-recursion-limit, "
        "everything before it is compared), built top-down or bottom-up by one macro op, with hash read / collect / "
        "reset / forced update / swhid as the first deep operation and mutations at the bottom; then "
        "histories of 5-60 operations over <= 12 nodes (generic MerkleNode/MerkleLeaf subclass, and real "
        "from_disk Directory/Content), seeded with the proof's case splits (child shared by two structurally "
        "equal parents, replace in place, delete then re-attach, nested path keys 3 levels deep, forced update "
        "inside a diamond, reads before/after each mutation, generic nodes whose hash is the falsy b'', a child "
        "replaced by a different but structurally equal node, an entry replaced by a leaf with the same bytes and "
        "another mode, the same child set twice under one name); three worlds: generic, from_disk, and mixed (generic "
        "and on-disk nodes in one history: a Directory must refuse a generic child); further read routes: iter_tree "
        "with dedup on/off (op T), get_data (op A), the three spellings of a hash read, == / != of nodes whose "
        "hashes may not be computed (op Q); update() given another node as the mapping (op V) or an empty one; "
        "Directory keys b'', b'/', leading / trailing / doubled slashes, and keys that are not bytes (op K: ValueError, "
        "nothing changes); entry lists are compared in order; the derived identifier swhid() (op I) is read like hash / entries / to_model / collect, and "
        "after half of the mutations ONE of these reads is issued first, on the mutated node, an ancestor or a "
        "root, so that no read heals what another would have shown stale; failing operations (missing names, "
        "paths through leaves, assignments under a Content, updates of leaves) are issued after collects and must "
        "change nothing; in 60 % of the histories also out-of-band data writes "
        "(op W: node.data reassigned, the library is not told) followed - not necessarily at once - by "
        "update_hash(force=True) at a dominating node, at a non-dominating node (written node shared under two "
        "roots) or by nothing: the written node and everything above it are excused from freshness until a forced "
        "update has them below or above (C10_force_restores), everything else is checked as before; never "
        "creating a cycle; non-trivial = at least "
        "one successful mutation below a node that was read before and has >= 2 parents or height >= 2; "
        "distinct = distinct request line")
TRUSTED = ["macro operations are unfolded for the model by the harness: iter_tree -> a hash read of its root (the state "
           "effect) with the yielded sequence checked against a from-scratch pre-order; get_data of a Directory -> hash "
           "read + entries; update(node) -> update(its children); a non-bytes key on a Directory -> expected ValueError",
           "Python dict semantics as modelled in model/Merkle.v (insertion order, replace keeps position, "
           "update), list.append / identity scan of `parents`, set() hashing a node through __hash__ -> .hash",
           "compute_hash reads every child through `.hash` (true of the harness subclass and of "
           "Directory.to_model); NH abstracts the manifest/sha1 part (covered by C02/C06)"]
ASSUMPTIONS = ["histories never create a cycle (trees and DAGs only)",
               "children are changed through __setitem__ / __delitem__ / update only: the methods inherited from dict that "
               "bypass them (pop, popitem, clear, setdefault, |=, dict.update called directly) leave hashes stale and are "
               "outside the property; update() is given a mapping of existing nodes (an iterable of pairs or a non-node "
               "value makes it raise AFTER it has invalidated); the list returned by Directory.entries / get_data() is the "
               "cache itself and is not mutated by the caller",
               "compute_hash never returns None (None is the 'not computed' marker); any other value, b'' included, is fine",
               "bulk update keys of a Directory are plain names (non-empty, no '/'), in the theorems and in the generated "
               "histories; generic nodes also get the keys b'', b'/' and nested-looking paths (plain dict keys there)",
               "OUTSIDE the checked domain (recorded observation about /repo, not flagged): a Directory entry named b'' "
               "or containing '/' created through a bulk update. The code mis-handles it: d[b''] is d itself, so `del d[b'']` "
               "and a bulk update replacing the entry raise ValueError AFTER invalidate_hash() (a failed operation drops "
               "hashes and collected flags and leaves stale links), and '/'-names make every later hash read raise",
               "node.data may be reassigned behind the library's back (op W): the node and everything above it are then "
               "excused from freshness until update_hash(force=True) at a node r; that restores every node below r and "
               "above r (C10_force_restores); nodes neither below nor above r stay excused"]
CASE_TIMEOUT = 30

KEYS = [b"a", b"b", b"c"]
CHAIN_KEY = b"a"
DEPTH_OK = 450          # chains up to this depth must behave exactly like the model.  The library recurses one Python
                        # frame per level (two for Directory.invalidate_hash: the override + the base method), so
                        # with the default recursion limit of 1000 a mutation at the bottom of a from_disk chain fails
                        # beyond ~498 levels and every other walk beyond ~985: recorded as the open known finding
                        # "chain-deeper-than-recursion-limit"
MUT = ("S", "D", "U", "V")


def hexs(b):
    return b.hex() if b else "."


DMARK = b"\x01d:"      # the model-side data of a from_disk.Directory is DMARK + its name: the node hash function (here and
                       # in the driver) sorts the entries of such a node by name, as Directory.compute_hash does, so
                       # that two directories with the same children inserted in another order hash alike (they are ==
                       # and a set keeps one of them); generic nodes keep the insertion-ordered hash of their class


def nh(data, entries):
    if data.startswith(DMARK):
        entries = sorted(entries, key=lambda e: e[0])
    if data == b"z" and not entries:
        return b""          # a falsy hash: the cache test must be `is None`, not truthiness
    enc = "D" + hexs(data) + "|" + ",".join(hexs(n) + ":" + hexs(d) + ":" + hexs(h) for n, d, h in entries)
    return hashlib.md5(enc.encode()).digest()


# ------------------------------------------------------------------ shadow structure (generator side only)
class Shadow:
    """kinds and children dicts only; mirrors the key resolution rules so that the generator
    knows where a path key lands (to keep histories acyclic) - it predicts no hash."""

    def __init__(self):
        self.kind, self.kids = [], []
        self.written = set()     # nodes whose data was written out of band and not yet below a forced update
        self.nchain = 0          # nodes created by chain macro ops

    def new(self, k):
        self.kind.append(k)
        self.kids.append({})
        return len(self.kind) - 1

    def getitem(self, n, key):
        k = self.kind[n]
        if k in "lc":
            return None
        if k == "n":
            return self.kids[n].get(key)
        if key == b"":
            return n
        if b"/" not in key:
            return self.kids[n].get(key)
        k1, k2 = key.split(b"/", 1)
        t = self.getitem(n, k1)
        return None if t is None else self.getitem(t, k2)

    def dir_checks(self, key, c):
        return self.kind[c] in "dc" and key != b"" and b"\x00" not in key

    def set_target(self, p, key, c):
        """(target, name) the assignment lands on, or None if it raises"""
        k = self.kind[p]
        if k in "lc":
            return None
        if k == "n":
            return (p, key)
        if not self.dir_checks(key, c):
            return None
        if b"/" not in key:
            return (p, key)
        k1, k2 = key.rsplit(b"/", 1)
        t = self.getitem(p, k1)
        if t is None or self.kind[t] in "lc":
            return None
        if self.kind[t] == "d" and not self.dir_checks(k2, c):
            return None
        return (t, k2)

    def del_target(self, p, key):
        k = self.kind[p]
        if k in "lc":
            return None
        if k == "d" and key == b"":
            return None          # KeyError if absent; if present (bulk update), self[b""] is the directory itself: ValueError
        if k == "n" or b"/" not in key:
            return (p, key) if key in self.kids[p] else None
        k1, k2 = key.rsplit(b"/", 1)
        t = self.getitem(p, k1)
        if t is None or self.kind[t] in "lc":
            return None
        if self.kind[t] == "d" and k2 == b"":
            return None
        return (t, k2) if k2 in self.kids[t] else None

    def reach(self, n):
        seen, todo = set(), [n]
        while todo:
            x = todo.pop()
            if x not in seen:
                seen.add(x)
                todo += list(self.kids[x].values())
        return seen

    def height(self, n):
        """longest path below n; iterative (chains may be deeper than the interpreter's recursion limit)"""
        order, seen, todo = [], set(), [n]
        while todo:
            x = todo.pop()
            if x not in seen:
                seen.add(x)
                order.append(x)
                todo += list(self.kids[x].values())
        h = {x: 0 for x in order}
        changed = True
        while changed:
            changed = False
            for x in reversed(order):
                for c in self.kids[x].values():
                    if h[x] < h[c] + 1:
                        h[x] = h[c] + 1
                        changed = True
        return h[n]

    def dominators(self, n):
        """nodes r such that every ancestor-or-self of n is below or above r (a forced update at r restores everything)"""
        N = range(len(self.kind))
        anc = [a for a in N if n in self.reach(a)]
        return [r for r in N if n in self.reach(r) and all(a in self.reach(r) or r in self.reach(a) for a in anc)]

    def nparents(self, n):
        return sum(1 for p in range(len(self.kids)) for c in self.kids[p].values() if c == n)

    def apply(self, op):
        """apply a (guarded) op; returns the node whose children changed, or None"""
        t = op[0]
        if t == "N":
            self.new(op[1])
        elif t == "X":
            base = len(self.kind)
            self.nchain += op[2]
            for _ in range(op[2]):
                self.new(op[1])
            for i in range(op[2] - 1):
                self.kids[base + i][CHAIN_KEY] = base + i + 1
        elif t == "W":
            self.written.add(op[1])
        elif t == "F":
            self.written -= self.reach(op[1])
        elif t == "S":
            r = self.set_target(op[1], bytes.fromhex(op[2]), op[3])
            if r:
                self.kids[r[0]][r[1]] = op[3]
                return r[0]
        elif t == "D":
            r = self.del_target(op[1], bytes.fromhex(op[2]))
            if r:
                del self.kids[r[0]][r[1]]
                return r[0]
        elif t in ("U", "V"):
            items = op[2] if t == "U" else op[3]
            if self.kind[op[1]] == "d" and b"" in self.kids[op[1]] and any(k in ("", ".") for k, _ in items):
                return None      # self[b""] is the directory itself: ValueError in the relinking loop, no dict change
            if self.kind[op[1]] in "nd" and items:
                for k, c in items:
                    self.kids[op[1]][bytes.fromhex(k)] = c
                return op[1]
        return None

    def safe(self, op):
        """guards: handles exist, no cycle is created, update keys plain / right classes"""
        t = op[0]
        n = len(self.kind)
        if t == "X":
            return True
        if t == "N":
            return n - self.nchain < 12
        if t == "K":
            return 0 <= op[2] < n and self.kind[op[2]] == "d" and 0 <= op[4] < n
        if not 0 <= op[1] < n or (t == "S" and not 0 <= op[3] < n):
            return False
        if t == "S":
            r = self.set_target(op[1], bytes.fromhex(op[2]), op[3])
            return r is None or r[0] not in self.reach(op[3])
        if t == "Q":
            return 0 <= op[2] < n
        if t == "V":
            if not 0 <= op[2] < n or [[k.hex(), c] for k, c in self.kids[op[2]].items()] != [list(i) for i in op[3]]:
                return False
            op = ["U", op[1], op[3]]
            t = "U"
        if t == "U":
            if self.kind[op[1]] in "lc":
                return True
            for k, c in op[2]:
                kb = bytes.fromhex(k)
                # on a Directory only plain names: an entry named b"" or containing "/" can only come from a bulk update
                # and the code itself mis-handles it (d[b""] is d: deleting / replacing the entry raises AFTER the
                # invalidation; "/"-names make every later hash read raise) - outside the checked domain
                if not 0 <= c < n or ((kb == b"" or b"/" in kb) and self.kind[op[1]] != "n") or op[1] in self.reach(c):
                    return False
                if self.kind[op[1]] == "d" and self.kind[c] not in "dc":
                    return False
            return len({k for k, _ in op[2]}) == len(op[2])
        return True


# ------------------------------------------------------------------ generator
def H(b):
    return b.hex()


def scenario(rng, world, which):
    """seed histories hitting the proof's case splits; handles are creation indexes"""
    if world == "generic":
        inner, leaf, d = "n", rng.choice(["n", "l"]), H(b"x")
        ops = [["N", inner, d], ["N", inner, d], ["N", inner, d], ["N", inner, H(b"r")], ["N", leaf, H(b"y")]]
    else:
        inner, leaf, d = "d", "c", H(b"")
        ops = [["N", "d", d], ["N", "d", d], ["N", "d", d], ["N", "d", H(b"r")], ["N", "c", H(b"644:A")]]
    c, p1, p2, root, y = 0, 1, 2, 3, 4
    a, b, x, z = H(b"a"), H(b"b"), H(b"c"), H(b"b")
    if which == 0:      # shared child under two structurally equal parents; delete from one; mutate the child
        ops += [["S", p2, x, c], ["S", p1, x, c], ["S", root, a, p1], ["S", root, b, p2], ["H", root],
                ["D", p1, x], ["H", root], ["S", c, z, y], ["H", p2], ["H", root]]
    elif which == 1:    # replace in place, then mutate old and new child
        ops += [["S", p1, x, c], ["S", root, a, p1], ["H", root], ["S", p1, x, p2], ["H", root],
                ["S", c, z, y], ["H", root], ["S", p2, z, y], ["H", root]]
    elif which == 2:    # delete then re-attach (mutated or not in between)
        ops += [["S", p1, x, c], ["S", root, a, p1], ["H", root], ["D", root, a], ["H", root]]
        if rng.random() < 0.5:
            ops += [["S", c, z, y]]
        ops += [["S", root, a, p1], ["H", root], ["S", c, a, y], ["H", root]]
    elif which == 3:    # nested keys three levels deep
        if world == "disk":
            ops += [["S", root, a, p1], ["S", root, H(b"a/b"), p2], ["S", root, H(b"a/b/c"), c], ["H", root],
                    ["S", root, H(b"a/b/c/a"), y], ["H", root], ["C", root, H(b"a/b/c/a")], ["G", root, H(b"a/b/c")],
                    ["D", root, H(b"a/b/c/a")], ["H", root], ["D", root, H(b"a/b")], ["H", root]]
        else:
            ops += [["S", root, a, p1], ["S", p1, b, p2], ["S", p2, x, c], ["H", root], ["S", c, a, y], ["H", root],
                    ["D", c, a], ["H", root], ["D", p1, b], ["H", root]]
    elif which == 4:    # forced update at inner nodes of a diamond (+ an edge between the two middle nodes)
        ops += [["S", p1, x, c], ["S", p2, x, c], ["S", root, a, p1], ["S", root, b, p2], ["H", root]]
        if rng.random() < 0.5:
            ops += [["S", p1, H(b"a"), p2]]
        ops += [["F", rng.choice([p1, p2, c])], ["H", root], ["S", c, z, y], ["F", rng.choice([p1, p2, root])], ["H", root]]
    elif which == 5:    # bulk update replacing an entry by a shared child
        ops += [["S", p1, x, c], ["S", p2, x, c], ["S", root, a, p1], ["S", root, b, p2], ["H", root],
                ["U", p1, [[x, y], [a, c]]], ["H", root], ["U", p2, [[x, c]]], ["H", root], ["D", p1, a], ["H", root]]
    elif which == 7:    # a node whose hash is falsy (b""): generic world only
        if world == "generic":
            ops[0] = ["N", "n", H(b"z")]
        ops += [["S", p1, a, c], ["S", root, a, p1], ["H", root], ["L", root], ["S", c, z, y], ["H", root], ["L", root],
                ["D", c, z], ["H", root], ["F", c], ["H", root]]
    elif which == 8:    # out-of-band data write, made visible by a forced update at a dominating node
        wd = write_data_for(rng, world, "c" if world == "disk" else leaf)
        ops += [["S", p1, x, c], ["S", root, a, p1], ["S", c, z, y], ["L", root],
                ["W", y, wd]]
        if rng.random() < 0.5:
            ops += [["H", root]]
        if rng.random() < 0.3:
            ops += [["W", c, write_data_for(rng, world, inner)]]
        ops += [["F", rng.choice([root, root, p1])], ["L", root], ["H", root], ["L", root]]
    elif which == 9:    # written node shared under two roots; forced update on one root only
        wd = write_data_for(rng, world, "c" if world == "disk" else leaf)
        ops += [["S", p1, x, y], ["S", p2, x, y], ["S", root, a, p1], ["H", root], ["H", p2], ["L", root], ["L", p2],
                ["W", y, wd], ["F", root], ["L", root], ["H", root], ["F", p2], ["L", p2], ["H", p2]]
    elif which == 10:   # a child replaced (bulk update or assignment) by a DIFFERENT node that is structurally equal to it
        ops += [["S", root, a, p1], ["S", root, b, c], rng.choice([["H", root], ["L", root]])]
        ops += [rng.choice([["U", root, [[a, p2]]], ["U", root, [[b, p2], [a, p2]]], ["S", root, a, p2]])]
        if rng.random() < 0.5:
            ops += [rng.choice([["H", root], ["L", root]])]
        ops += [["S", p2, z, y], ["H", root], ["L", root], ["S", p1, z, y], ["H", root], ["L", root]]
    elif which == 11:   # an entry replaced by a leaf with the same content (hence, on disk, the same hash) but other attributes
        other = H(b"755:A") if world == "disk" else H(b"y")
        ops += [["S", p1, z, y], ["S", root, a, p1], rng.choice([["H", root], ["L", root], ["M", root]]),
                ["N", "c" if world == "disk" else leaf, other],
                rng.choice([["S", p1, z, 5], ["S", root, H(b"a/b"), 5]]) if world == "disk" else ["S", p1, z, 5],
                ["H", root], ["M", root], ["L", root]]
    elif which == 12:   # read orders: a derived value read, a mutation below, then each derived read as the FIRST read
        rd = lambda: rng.choice(["I", "I", "H", "E", "M", "L"] if world == "disk" else ["H", "L", "I"])   # noqa
        ops += [["S", p1, x, c], ["S", root, a, p1], ["S", c, z, y]]
        ops += [[rd(), rng.choice([root, p1, c])] for _ in range(rng.choice([1, 2, 3]))] + [["I", root], ["I", p1]]
        mut = rng.choice([["D", c, z], ["S", c, a, y], ["S", p1, H(b"c/a" if world == "disk" else b"q"), y],
                          ["U", c, [[a, y]]], ["D", root, H(b"a/c") if world == "disk" else a]])
        first = rng.choice([root, p1, c])
        ops += [mut, [rd(), first], ["I", first], ["I", root], ["H", root], ["I", c], ["I", y]]
    elif which == 13:   # failed operations between two collects are not a change
        ops += [["S", p1, x, c], ["S", root, a, p1], ["S", c, z, y], ["H", root], ["L", root]]
        fails = [["D", p1, H(b"zz")], ["D", root, H(b"zz")], ["D", c, H(b"zz")], ["D", y, z], ["G", p1, H(b"zz")],
                 ["S", y, a, c], ["U", y, [[a, c]]], ["D", root, H(b"a/zz")], ["D", root, H(b"zz/a")]]
        if world == "disk":
            fails += [["S", root, H(b"a/c/b/q"), y], ["S", root, H(b""), y], ["D", root, H(b"a/c/b/q")], ["S", p1, H(b"zz/q"), y],
                      ["C", root, H(b"a/zz")]]
        ops += [rng.choice(fails) for _ in range(rng.choice([1, 1, 2, 3]))]
        ops += [["L", rng.choice([root, root, p1])], ["H", root], ["L", root]]
    elif which == 14:   # the same child set twice under one name; a replaced child keeps a link to its old parent
        ops += [["S", p1, x, c], ["S", p1, x, c], ["S", root, a, p1], ["S", root, b, p2], ["H", root], ["Q", p1, p2],
                ["S", p2, x, c], ["Q", p1, p2], ["T", root, 1], ["T", root, 0], ["D", p1, x], ["H", root], ["S", c, z, y], ["H", root],
                ["S", p2, x, y], ["S", c, a, y], ["H", root], ["T", root, 1], ["L", root], ["V", p1, p2, [[x, y]]], ["H", root]]
    elif which == 15:   # collect FIRST, on freshly built and on freshly attached nodes, then mutate below, collect again:
        #                 no hash / swhid / entries / to_model / iter_tree / get_data read anywhere in between
        leafd = H(b"644:B") if world == "disk" else H(b"w")
        ops += [["S", p1, x, c], ["S", root, a, p1], ["L", root]]
        ops += [rng.choice([["S", c, z, y], ["U", c, [[z, y]]], ["S", root, H(b"a/c/b"), y] if world == "disk" else ["S", c, z, y]])]
        ops += [["L", root]]
        ops += [["N", "c" if world == "disk" else leaf, leafd], ["S", p2, z, 5], ["S", c, a, p2], ["L", root],
                rng.choice([["D", p2, z], ["S", p2, z, y], ["S", p2, b, y]]), ["L", root],
                rng.choice([["D", c, z], ["S", c, z, 5]]), ["L", rng.choice([root, p1])], ["L", root]]
    elif which == 16:   # an entry named b"" (only a bulk update can create it); on a Directory d[b""] is d itself, so deleting
        #                 or replacing that entry raises after the invalidation; then a successful mutation and reads
        e = H(b"")
        ops += [["S", root, a, p1], ["S", p1, x, c], rng.choice([["H", root], ["L", root], ["M", root] if world == "disk" else ["H", root]]),
                ["U", p1, [[e, y], [z, y]] if rng.random() < 0.5 else [[e, y]]], ["H", root], ["L", root],
                rng.choice([["D", p1, e], ["U", p1, [[e, c]]], ["U", p1, [[b, y], [e, y]]], ["D", root, H(b"a/")]]),
                rng.choice([["H", root], ["I", root], ["L", root], ["G", p1, e]]), ["C", p1, e], ["G", p1, e],
                rng.choice([["S", p1, b, y], ["D", p1, x], ["S", c, z, y]]), ["H", root], ["L", root], ["H", p1]]
    elif which == 6:    # collect / mutate / collect
        ops += [["S", p1, x, c], ["S", p2, x, c], ["S", root, a, p1], ["S", root, b, p2], ["L", root], ["L", root],
                ["S", c, z, y], ["L", root], ["R", p1], ["L", root]]
    return ops


def write_data_for(rng, world, kind):
    if world == "generic" or kind in "nl":
        return H(rng.choice([b"x", b"y", b"w", b"w2", b"z"]))
    if kind == "d":
        return H(rng.choice([b"", b"q", b"w"]))
    return H(rng.choice([b"644:A", b"755:A", b"644:W", b"644:W2", b"755:W"]))


def rand_key(rng, world, sh, p):
    r = rng.random()
    if world == "disk" and r < 0.35:
        parts = [rng.choice(KEYS) for _ in range(rng.choice([2, 2, 3, 4]))]
        return b"/".join(parts)
    if r < 0.40:
        return rng.choice([b"", b"a/", b"/a", b"a//b", b"a\x00", b"zz", b"a/zz", b"/", b"//", b"a/b/", b"/a/b", b"a/./b"])
    return rng.choice(KEYS)


def rand_op(rng, world, sh, w):
    n = len(sh.kind)
    kinds = ["N", "S", "D", "U", "G", "C", "H", "F", "E", "M", "L", "R", "W", "I", "T", "A", "Q", "V", "K"]
    t = rng.choices(kinds, weights=[w.get(k, 0) for k in kinds])[0]
    if n == 0 or t == "N":
        if world == "mixed":
            world = rng.choice(["generic", "disk"])
        if world == "generic":
            return ["N", rng.choice("nnnl"), H(rng.choice([b"x", b"x", b"x", b"y", b"z", b"z"]))]
        if rng.random() < 0.6:
            return ["N", "d", H(rng.choice([b"", b"", b"q"]))]
        return ["N", "c", H(rng.choice([b"644:A", b"644:A", b"755:A", b"644:", b"644:B"]))]
    inner = [i for i in range(n) if sh.kind[i] in "nd"] or [0]
    anyn = rng.randrange(n)
    p = rng.choice(inner) if rng.random() < 0.9 else anyn
    if t == "S":
        return ["S", p, H(rand_key(rng, world, sh, p)), rng.randrange(n)]
    if t == "D":
        # mostly an existing key
        ks = list(sh.kids[p].keys())
        if ks and rng.random() < 0.75:
            k = rng.choice(ks)
            if world == "disk" and rng.random() < 0.4:
                sub = [k2 for k2 in sh.kids[sh.kids[p][k]].keys()]
                if sub:
                    k = k + b"/" + rng.choice(sub)
            return ["D", p, H(k)]
        return ["D", p, H(rand_key(rng, world, sh, p))]
    if t == "U":
        m = rng.choice([0, 1, 2, 2, 3])
        pool = KEYS + [b"d"]
        if rng.random() < 0.25:        # names that item assignment refuses or reads as paths
            pool = pool + ([b"", b"", b"/", b"a/b", b"sub/x", b"a/"] if sh.kind[p] == "n" else [])
        ks = rng.sample(pool, min(m, len(pool)))
        ks = list(dict.fromkeys(ks))
        return ["U", p, [[H(k), rng.randrange(n)] for k in ks]]
    if t in ("G", "C"):
        return [t, p, H(rand_key(rng, world, sh, p))]
    if t in ("E", "M"):
        dirs = [i for i in range(n) if sh.kind[i] == "d"]
        return [t, rng.choice(dirs) if dirs and rng.random() < 0.95 else anyn]
    if t == "W":
        return ["W", anyn, write_data_for(rng, world, sh.kind[anyn])]
    if t == "T":
        return ["T", anyn, rng.choice([1, 1, 0])]                    # iter_tree(dedup=...)
    if t == "Q":
        return ["Q", anyn, rng.randrange(n)]                         # a == b, a != b
    if t == "V":                                                     # p.update(q): another node as the mapping
        q = rng.randrange(n)
        return ["V", p, q, [[H(k), c] for k, c in sh.kids[q].items()]]
    if t == "K":                                                     # a key that is not bytes, on a Directory
        dirs = [i for i in range(n) if sh.kind[i] == "d"]
        if not dirs:
            return ["H", anyn]
        return ["K", rng.choice("GSD"), rng.choice(dirs), rng.choice(["str", "int", "none", "bytearray"]), rng.randrange(n)]
    if t in ("F", "L") and sh.written and rng.random() < (0.7 if t == "F" else 0.4):
        # a forced update (or a collect) at a node dominating a written node
        dom = sh.dominators(rng.choice(sorted(sh.written)))
        if dom:
            return [t, rng.choice(dom)]
    return [t, anyn]


WEIGHTS_C10 = {"N": 3, "S": 8, "D": 4, "U": 2, "G": 1, "C": 1, "H": 5, "F": 2.5, "E": 1, "M": 1, "L": 1.5, "R": 0.5, "W": 1.5,
               "I": 2.5, "T": 1, "A": 0.8, "Q": 0.8, "V": 0.6, "K": 0.5}


def first_read(rng, world, sh, changed):
    """a derived read issued right after a mutation: which value (hash, swhid, entries, model object, collection) and
    where (the mutated node, one of its ancestors, a root above it) vary, so that no read can hide the staleness
    of another one by recomputing the hash first"""
    above = [a for a in range(len(sh.kind)) if changed in sh.reach(a)]
    roots = [a for a in above if sh.nparents(a) == 0] or above
    n = rng.choice([changed, rng.choice(above), rng.choice(roots)])
    if world == "disk":
        t = rng.choice(["I", "I", "H", "L", "T"] + (["E", "M", "A"] if sh.kind[n] == "d" else []))
    else:
        t = rng.choice(["H", "H", "L", "T", "I"])
    return [t, n] if t != "T" else ["T", n, rng.choice([0, 1])]


def failing_op(rng, world, sh):
    """an operation that raises (and must therefore change nothing)"""
    n = len(sh.kind)
    inner = [i for i in range(n) if sh.kind[i] in "nd"]
    leaves = [i for i in range(n) if sh.kind[i] in "lc"]
    for _ in range(8):
        r = rng.random()
        p = rng.choice(inner) if inner else 0
        if r < 0.35:
            op = ["D", p, H(rng.choice([b"zz", b"a/zz", b"zz/a", b"a/b/zz", b""]))]
            ok = sh.del_target(op[1], bytes.fromhex(op[2])) is None
        elif r < 0.5 and leaves:
            op = rng.choice([["D", rng.choice(leaves), H(b"a")], ["S", rng.choice(leaves), H(b"a"), rng.randrange(n)],
                             ["U", rng.choice(leaves), [[H(b"a"), rng.randrange(n)]]]])
            ok = True
        elif r < 0.8:
            ks = list(sh.kids[p].keys())
            k = (rng.choice(ks) + b"/" if ks else b"") + rng.choice([b"zz/a", b"zz/b/c"])
            op = ["S", p, H(k if world == "disk" else b""), rng.randrange(n)] if world == "disk" else ["G", p, H(b"zz")]
            ok = op[0] == "G" or sh.set_target(op[1], bytes.fromhex(op[2]), op[3]) is None
        else:
            op = [rng.choice(["G", "C"]), p, H(rng.choice([b"zz", b"a/zz"]))]
            ok = op[0] == "C" or sh.getitem(op[1], bytes.fromhex(op[2])) is None
        if ok and sh.safe(op):
            return op
    return None


def gen_case(rng, world, nops, weights, nscen=17, readall=None):
    sh = Shadow()
    ops = []
    flav = world if world != "mixed" else rng.choice(["generic", "disk"])     # scenario / helper flavour
    if rng.random() < 0.6:
        for op in scenario(rng, flav, rng.randrange(nscen)):
            if sh.safe(op):
                sh.apply(op)
                ops.append(op)
    w = dict(weights)
    if rng.random() < 0.4:
        w["W"] = 0          # a share of histories without out-of-band writes (the guarded histories of the theorems)
    if world == "generic":
        w["E"] = w["M"] = 0.05
    tries = 0
    while len(ops) < nops and tries < 10 * nops:
        tries += 1
        op = rand_op(rng, world, sh, w)
        if sh.safe(op):
            changed = sh.apply(op)
            ops.append(op)
            if op[0] == "W":
                changed = op[1]
            if changed is not None and rng.random() < 0.5:
                ops.append(first_read(rng, flav, sh, changed))
            if (op[0] == "L" and rng.random() < 0.3) or (op[0] in ("H", "I", "M", "E", "A", "T") and rng.random() < 0.12):
                # error paths of the mutators right after hashes were cached / nodes collected
                for _ in range(rng.choice([1, 1, 2])):
                    f = failing_op(rng, flav, sh)
                    if f:
                        sh.apply(f)          # a no-op on the shadow: the operation fails
                        ops.append(f)
                if op[0] == "L":
                    ops.append(["L", op[1]])
    if readall is None:
        readall = rng.random() < 0.18
    if readall:
        full, cnt = [], 0
        first = rng.choice(["H", "H", "I", "I", "M", "E"]) if world != "generic" else "H"
        kinds = []
        for op in ops:
            full.append(op)
            if op[0] == "N":
                cnt += 1
                kinds.append(op[1])
            if op[0] != "H":
                for i in range(cnt):
                    if (first == "I" and kinds[i] in "dc") or (first in "ME" and kinds[i] == "d"):
                        full.append([first, i])
                    full.append(["H", i])
        ops = full
    else:
        ops += [["H", i] for i in range(len(sh.kind))]
    return {"world": world, "ops": ops, "by_id": 1}


def deep_case(rng, world, depth, variant, direction):
    """a chain of `depth` nested nodes (macro op X: handles 0 = top .. depth-1 = bottom, linked top-down or
    bottom-up), two extra leaves, then a short history whose FIRST deep operation varies: hash read at the top,
    collect, reset, forced update, or swhid/to_model; a mutation at the bottom after the hashes are cached walks
    the whole chain upwards"""
    inner, leaf = ("n", "l") if world == "generic" else ("d", "c")
    d = H(b"x") if world == "generic" else H(b"")
    ld = H(b"y") if world == "generic" else H(b"644:A")
    top, bottom, l1, l2 = 0, depth - 1, depth, depth + 1
    mid = depth // 2
    ops = [["X", inner, depth, d, direction], ["N", leaf, ld], ["N", leaf, ld]]
    b, cc = H(b"b"), H(b"c")
    if variant == 0:
        ops += [["H", top], ["S", bottom, b, l1], ["H", top], ["L", top], ["L", top], ["H", mid]]
    elif variant == 1:
        ops += [["L", top], ["S", bottom, b, l1], ["L", top], ["H", top], ["D", bottom, b], ["L", top]]
    elif variant == 2:
        ops += [["R", top], ["L", top], ["S", mid, b, l1], ["H", top], ["R", mid], ["L", top]]
    elif variant == 3:
        ops += [["F", top], ["W", bottom, d if world == "disk" else H(b"w")], ["F", top], ["L", top], ["H", bottom]]
    elif variant == 4:
        first = ["I", top] if world == "disk" else ["H", top]
        ops += [["S", bottom, b, l1], first, ["M" if world == "disk" else "H", mid], ["U", bottom, [[cc, l2]]], ["H", top], ["L", mid]]
    else:
        ops += [["H", bottom], ["H", mid], ["S", bottom, b, l1], ["H", top], ["F", mid], ["L", top], ["R", top], ["L", top]]
    return {"world": world, "ops": ops, "by_id": 1}


def deep_cases(rng, tier):
    below = [150, 300, DEPTH_OK] if tier == "quick" else [50, 100, 200, 300, 400, DEPTH_OK]
    above = [1100, 1500] if tier == "quick" else [520, 700, 900, 1100, 1300, 1500, 2000, 3000]
    cases = []
    k = 0
    for depth in below + above:
        for rep in range((2 if depth <= DEPTH_OK else 1) if tier == "quick" else 6):
            world = "generic" if k % 2 == 0 else "disk"
            variant = rng.randrange(6) if tier == "quick" else rep
            cases.append(deep_case(rng, world, depth, variant, rng.choice(["down", "up"])))
            k += 1
    return cases


def gen(rng, tier, weights=WEIGHTS_C10, nscen=17):
    n_cases = 1000 if tier == "quick" else 30000
    cases = deep_cases(rng, tier)
    for k in range(n_cases):
        world = "mixed" if k % 10 == 9 else "generic" if k % 2 == 0 else "disk"
        nops = rng.randrange(5, 61)
        cases.append(gen_case(rng, world, nops, weights, nscen))
    return cases


def replay_shadow(c):
    sh = Shadow()
    read = set()
    hit = False
    info = {"shared": False, "equal_parents": False, "replace": False, "nested": False, "force": False, "errors": False,
            "write": False, "write-then-force-above": False, "swhid-first-after-mutation": False,
            "failing-op-after-collect": False}
    last_mut = prev = None
    for op in c["ops"]:
        t = op[0]
        if t == "W":
            info["write"] = True
        if t == "I" and last_mut:
            info["swhid-first-after-mutation"] = True
        if prev == "L" and t in "SDUGC" and op[1] < len(sh.kind) and (
                (t == "S" and op[3] < len(sh.kind) and sh.set_target(op[1], bytes.fromhex(op[2]), op[3]) is None)
                or (t == "D" and sh.del_target(op[1], bytes.fromhex(op[2])) is None)
                or (t == "U" and sh.kind[op[1]] in "lc")):
            info["failing-op-after-collect"] = True
        prev = t
        if t == "F" and op[1] < len(sh.kind) and sh.written & sh.reach(op[1]):
            info["write-then-force-above"] = True
        if t in ("H", "F", "L", "E", "M") and op[1] < len(sh.kind):
            read.add(op[1])
            if t == "F" and sh.kids[op[1]]:
                info["force"] = True
        if t == "S":
            r = sh.set_target(op[1], bytes.fromhex(op[2]), op[3]) if max(op[1], op[3]) < len(sh.kind) else None
            if r and r[1] in sh.kids[r[0]]:
                info["replace"] = True
            if r and b"/" in bytes.fromhex(op[2]) and sh.kind[op[1]] == "d":
                info["nested"] = True
        changed = sh.apply(op)
        if t in ("H", "I", "E", "M", "L", "F"):
            last_mut = False
        if changed is not None or t == "W":
            last_mut = True
        if changed is not None:
            for n in read:
                if changed in sh.reach(n) and (sh.nparents(n) >= 2 or sh.height(n) >= 2 or sh.nparents(changed) >= 2):
                    hit = True
            if any(sh.nparents(n) >= 2 for n in range(len(sh.kind))):
                info["shared"] = True
    return hit, info


def max_chain(c):
    return max([op[2] for op in c["ops"] if op[0] == "X"], default=0)


def nontrivial(c):
    if max_chain(c):
        return True
    return replay_shadow(c)[0]


def classify(c):
    d = max_chain(c)
    if d:
        first = next((op[0] for op in c["ops"] if op[0] not in "XN"), "-")
        return ["world=" + c["world"], "deep-chain", "deep-chain:" + ("<=%d" % DEPTH_OK if d <= DEPTH_OK else ">%d" % DEPTH_OK),
                "deep-first-op=" + first]
    hit, info = replay_shadow(c)
    n = len(c["ops"])
    ks = ["world=" + c["world"], "len=" + ("<=20" if n <= 20 else "<=60" if n <= 60 else ">60")]
    ks += [k for k, v in info.items() if v]
    ks += ["op=" + t for t in sorted({op[0] for op in c["ops"]})]
    return ks


# ------------------------------------------------------------------ implementation side
_classes = {}


def classes():
    if not _classes:
        from swh.model.merkle import MerkleNode, MerkleLeaf

        class GNode(MerkleNode):
            __slots__ = []

            def compute_hash(self):
                return nh(self.data, [(name, mdata(child), child.hash) for name, child in self.items()])

        class GLeaf(MerkleLeaf):
            __slots__ = []

            def compute_hash(self):
                return nh(self.data, [])
        _classes.update(GNode=GNode, GLeaf=GLeaf)
    return _classes


def mk_node(kind, data):
    from swh.model import from_disk
    if kind == "n":
        return classes()["GNode"](data)
    if kind == "l":
        return classes()["GLeaf"](data)
    if kind == "d":
        return from_disk.Directory({"name": data})
    perms, _, raw = data.partition(b":")
    return from_disk.Content.from_bytes(mode=int(b"100" + perms, 8), data=raw)


def write_data(node, data):
    """node.data = <new data>, as a caller who knows that the file / attributes changed would do; the library is
    not told (no invalidate_hash)"""
    from swh.model import from_disk
    if isinstance(node, from_disk.Directory):
        node.data = {"name": data}
    elif isinstance(node, from_disk.Content):
        node.data = mk_node("c", data).data
    else:
        node.data = data


def up_closure(nodes, dirty):
    """ids of the nodes that have a node of `dirty` (ids) below them, in the current structure"""
    if not dirty:
        return set()
    parents = {}
    for nd in nodes:
        for ch in dict.values(nd):
            parents.setdefault(id(ch), []).append(id(nd))
    seen, todo = set(dirty), list(dirty)
    while todo:
        x = todo.pop()
        for p in parents.get(x, ()):
            if p not in seen:
                seen.add(p)
                todo.append(p)
    return seen


def mdata(node):
    """the model's `data` of an implementation node"""
    from_disk = _mods()[0]
    if isinstance(node, from_disk.Directory):
        return DMARK + node.data["name"]
    if isinstance(node, from_disk.Content):
        return b"%o:" % (int(node.data["perms"]) & 0o777) + node.data["data"]
    return node.data


_MEMO = {}     # (kind, id(node)) -> from-scratch value; emptied by impl() before every operation (pure speed-up:
               # the from-scratch functions read the structure only, which does not change within one operation's checks)


def _prefill(node):
    """memoise the from-scratch values of everything below `node`, children first, WITHOUT recursion: the structures
    may be deeper than the interpreter's recursion limit (which is never raised around library calls)"""
    stack = [(node, False)]
    opened = set()          # a cycle (never generated; a defective implementation may let one in) must not hang the harness
    while stack:
        x, expanded = stack.pop()
        if ("m", id(x)) in _MEMO:
            continue
        if expanded:
            _MEMO[("m", id(x))] = nh(mdata(x), [(name, mdata(ch), _MEMO.get(("m", id(ch)), b"<cycle>"))
                                               for name, ch in dict.items(x)])
            from_disk, model = _mods()
            if isinstance(x, from_disk.Directory):
                _MEMO[("r", id(x))] = model.Directory(entries=tuple(scratch_entries(x))).id
            elif not isinstance(x, from_disk.Content):
                _MEMO[("r", id(x))] = nh(mdata(x), [(name, mdata(ch), _MEMO.get(("r", id(ch)), ch.data.get("sha1_git", b"<cycle>")
                                                                   if isinstance(ch.data, dict) else b"<cycle>"))
                                                     for name, ch in dict.items(x)])
        elif id(x) not in opened:
            opened.add(id(x))
            stack.append((x, True))
            stack.extend((ch, False) for ch in dict.values(x) if ("m", id(ch)) not in _MEMO and id(ch) not in opened)


def scratch_m(node):
    """NH-hash from scratch over the current dict structure (no cache is read)"""
    _prefill(node)
    return _MEMO[("m", id(node))]


_MODS = []


def _mods():
    if not _MODS:
        from swh.model import from_disk, model
        _MODS.extend([from_disk, model])
    return _MODS


def scratch_real(node):
    """the hash the implementation should report, from scratch"""
    from_disk, model = _mods()
    if isinstance(node, from_disk.Content):
        return node.data["sha1_git"]
    if isinstance(node, from_disk.Directory):
        _prefill(node)
        return _MEMO[("r", id(node))]
    _prefill(node)
    return _MEMO[("r", id(node))]


def scratch_entries(node):
    from_disk, model = _mods()
    es = []
    for name, ch in dict.items(node):
        if isinstance(ch, from_disk.Directory):
            es.append(model.DirectoryEntry(type="dir", perms=from_disk.DentryPerms.directory, target=scratch_real(ch), name=name))
        else:
            es.append(model.DirectoryEntry(type="file", perms=ch.data["perms"], target=scratch_real(ch), name=name))
    return es


def err_tok(e):
    from .core import exc_class
    k = exc_class(e)
    return {"KeyError": "!key", "ValueError": "!value", "AttributeError": "!attr"}.get(k, "!" + k)


def reach_impl(node):
    seen, out, todo = set(), [], [node]
    while todo:
        x = todo.pop()
        if id(x) not in seen:
            seen.add(id(x))
            out.append(x)
            todo += list(dict.values(x))
    return out


def impl(c):
    from swh.model import from_disk
    nodes = []
    outs = []
    bad = []                 # oracle failures (the property on the implementation)
    handle = {}
    generic = c["world"] == "generic"
    reported = set()         # real hashes reported by any collect so far (C14)
    quiet = {}               # root handle -> "collect"/"reset" while no mutation happened since
    owed = set()             # id() of the nodes below some reset_collect() that no collection has visited since (C14:
                             # "after a collection reset every node is reported again", whichever node is reset or collected)
    dirty = set()            # id() of the nodes excused from freshness: a node whose data was written out of band ("W")
                             # and everything above it, until update_hash(force=True) at a node r: that restores the
                             # nodes below r and empties the caches of the nodes above r (C10_force_restores); a node
                             # neither below nor above r stays excused (it is stale, legitimately: nobody told it)
    recursion_at, recursion_first = None, False
    loose = []               # op indexes whose output is not compared with the model (disk world, excused node: the
                             # harness token is derived from the structure there, not from the reported value)
    for idx, op in enumerate(c["ops"]):
        t = op[0]
        _MEMO.clear()
        flags = [nd.collected for nd in nodes]      # `collected` is a public attribute of MerkleNode
        try:
            if t == "N":
                nd = mk_node(op[1], bytes.fromhex(op[2]))
                handle[id(nd)] = len(nodes)
                nodes.append(nd)
                tok = "h%d" % (len(nodes) - 1)
            elif t == "X":
                base = len(nodes)
                for _ in range(op[2]):
                    nd = mk_node(op[1], bytes.fromhex(op[3]))
                    handle[id(nd)] = len(nodes)
                    nodes.append(nd)
                order = range(op[2] - 1) if op[4] == "down" else range(op[2] - 2, -1, -1)
                for i in order:
                    nodes[base + i][CHAIN_KEY] = nodes[base + i + 1]
                tok = "X%d-%d" % (base, base + op[2] - 1)
            elif t == "S":
                nodes[op[1]][bytes.fromhex(op[2])] = nodes[op[3]]
                tok = "u"
            elif t == "D":
                del nodes[op[1]][bytes.fromhex(op[2])]
                tok = "u"
            elif t == "U":
                nodes[op[1]].update({bytes.fromhex(k): nodes[ch] for k, ch in op[2]})
                tok = "u"
            elif t == "G":
                tok = "h%d" % handle[id(nodes[op[1]][bytes.fromhex(op[2])])]
            elif t == "C":
                tok = "b1" if bytes.fromhex(op[2]) in nodes[op[1]] else "b0"
            elif t == "T":
                nd = nodes[op[1]]
                seq = [handle[id(x)] for x in nd.iter_tree(dedup=bool(op[2]))]
                # expected: pre-order over the dict order; with dedup a node whose (from-scratch) hash was already
                # met is skipped together with what is below it
                want, seen, todo = [], set(), [nd]
                while todo:
                    x = todo.pop()
                    hx = scratch_real(x)
                    if hx in seen:
                        continue
                    if op[2]:
                        seen.add(hx)
                    want.append(handle[id(x)])
                    todo += list(dict.values(x))[::-1]
                if id(nd) in dirty or any(id(nodes[i]) in dirty for i in want):
                    loose.append(idx)
                elif seq != want:
                    bad.append("op %d %s: iter_tree yields nodes %s, the current structure gives %s" % (idx, op, seq, want))
                tok = "x" + hexs(scratch_m(nd))
            elif t == "A":
                nd = nodes[op[1]]
                gd = nd.get_data()
                if isinstance(nd, from_disk.Directory):
                    excused = id(nd) in dirty
                    if excused:
                        loose.append(idx)
                    got = [(e["name"], e["type"], int(e["perms"]), e["target"]) for e in gd["entries"]]
                    want = [(e.name, e.type, int(e.perms), e.target)
                            for e in sorted(scratch_entries(nd), key=lambda e: e.name + (b"/" if e.type == "dir" else b""))]
                    if not excused and (gd["id"] != scratch_real(nd) or got != want):
                        bad.append("op %d %s: get_data() of node %d is not the from-scratch id / entry list" % (idx, op, op[1]))
                    tok = "ax" + hexs(scratch_m(nd)) + "|e" + "+".join(
                        sorted(hexs(name) + ":" + hexs(scratch_m(ch)) for name, ch in dict.items(nd)))
                else:
                    if gd is not nd.data:
                        bad.append("op %d %s: get_data() of a %s is not its data" % (idx, op, type(nd).__name__))
                    tok = "a"
            elif t == "Q":
                a, b = nodes[op[1]], nodes[op[2]]
                eq, ne = (a == b), (a != b)
                if eq == ne:
                    bad.append("op %d %s: == and != agree" % (idx, op))
                tok = "b1" if eq else "b0"
            elif t == "V":
                src = nodes[op[2]]
                if [[k.hex(), handle[id(ch)]] for k, ch in dict.items(src)] != [list(i) for i in op[3]]:
                    tok = "?stale-macro"
                else:
                    nodes[op[1]].update(src)
                    tok = "u"
            elif t == "K":
                key = {"str": "a", "int": 1, "none": None, "bytearray": bytearray(b"a")}[op[3]]
                if op[1] == "G":
                    nodes[op[2]][key]
                elif op[1] == "S":
                    nodes[op[2]][key] = nodes[op[4]]
                else:
                    del nodes[op[2]][key]
                tok = "u"
            elif t == "W":
                write_data(nodes[op[1]], bytes.fromhex(op[2]))
                dirty.add(id(nodes[op[1]]))
                quiet = {}
                tok = "u"
            elif t in ("H", "F"):
                nd = nodes[op[1]]
                if t == "F":
                    h = nd.update_hash(force=True)
                else:       # the three spellings of a plain read
                    h = (nd.hash, nd.update_hash(), nd.update_hash(force=False))[idx % 3]
                if t == "F":
                    below = {id(r) for r in reach_impl(nd)}
                    above = up_closure(nodes, {id(nd)})
                    dirty -= below | above
                    dirty = up_closure(nodes, dirty)
                want = scratch_real(nd)
                if not generic and id(nd) in dirty:
                    loose.append(idx)
                if h != want and id(nd) not in dirty:
                    bad.append("op %d %s: node %d reports hash %s but its current structure hashes to %s"
                               % (idx, op, op[1], hexs(h), hexs(want)))
                tok = "x" + hexs(h if generic else scratch_m(nd))
            elif t == "I":
                nd = nodes[op[1]]
                sw = nd.swhid()                      # AttributeError for the generic classes
                from swh.model.swhids import ObjectType
                want_t = ObjectType.DIRECTORY if isinstance(nd, from_disk.Directory) else ObjectType.CONTENT
                want = scratch_real(nd)
                if id(nd) in dirty:
                    loose.append(idx)
                else:
                    if sw.object_id != want:
                        bad.append("op %d %s: swhid() of node %d carries id %s but its current structure hashes to %s"
                                   % (idx, op, op[1], hexs(sw.object_id), hexs(want)))
                    if sw.object_type != want_t:
                        bad.append("op %d %s: swhid() of node %d has object type %s" % (idx, op, op[1], sw.object_type))
                tok = "x" + hexs(scratch_m(nd))
            elif t in ("E", "M"):
                nd = nodes[op[1]]
                excused = id(nd) in dirty
                if excused:
                    loose.append(idx)
                if t == "E":
                    got = [(e["name"], e["type"], int(e["perms"]), e["target"]) for e in nd.entries]
                else:
                    mo = nd.to_model()
                    got = [(e.name, e.type, int(e.perms), e.target) for e in mo.entries]
                    if mo.id != scratch_real(nd) and not excused:
                        bad.append("op %d %s: to_model().id is stale" % (idx, op))
                # the list is handed out in git tree order (the library's own sort key, which C02 is about)
                want = [(e.name, e.type, int(e.perms), e.target)
                        for e in sorted(scratch_entries(nd), key=lambda e: e.name + (b"/" if e.type == "dir" else b""))]
                if got != want and not excused:
                    bad.append("op %d %s: entries differ from the from-scratch entries: %r vs %r" % (idx, op, got, want))
                tok = "e" + "+".join(sorted(hexs(name) + ":" + hexs(scratch_m(ch)) for name, ch in dict.items(nd)))
            elif t == "L":
                nd = nodes[op[1]]
                got = nd.collect()
                dirty = up_closure(nodes, dirty)
                hs = set()
                toks = set()
                for g in got:
                    hr = scratch_real(g)
                    # NOT g.hash: reading the hash of a reported node would compute and cache it, and hide a collect
                    # that flags nodes without a cached hash (invalidate_hash stops at a node without one).  The hash
                    # the consumer would read is the cached one if there is one, else the from-scratch one.
                    gh = getattr(g, "_MerkleNode__hash", None)
                    if gh is None:
                        gh = hr
                    if gh != hr and id(g) not in dirty:
                        bad.append("op %d %s: collected node %d has a stale hash" % (idx, op, handle[id(g)]))
                    reported.add(gh)
                    hs.add(scratch_m(g))
                    toks.add((gh if id(g) in dirty else scratch_m(g)) if generic else scratch_m(g))
                    if not generic and id(g) in dirty:
                        loose.append(idx)
                for r in reach_impl(nd):
                    if id(r) not in dirty and scratch_real(r) not in reported:
                        bad.append("op %d %s: node %d is in the tree but no collection reported its current hash"
                                   % (idx, op, handle[id(r)]))
                        break
                below = reach_impl(nd)
                miss = [r for r in below if id(r) in owed and scratch_m(r) not in hs]
                if miss:
                    bad.append("op %d %s: node %d was reset by reset_collect() and is below the collected node, but this "
                               "collection did not report it again" % (idx, op, handle[id(miss[0])]))
                owed -= {id(r) for r in below}
                if quiet.get(op[1]) == "collect" and got:
                    bad.append("op %d %s: collecting again without an intervening change reported %d nodes" % (idx, op, len(got)))
                if quiet.get(op[1]) == "reset":
                    if hs != {scratch_m(r) for r in reach_impl(nd)}:
                        bad.append("op %d %s: collect after reset_collect did not report every node" % (idx, op))
                quiet = {k: v for k, v in quiet.items() if v == "collect"}
                quiet[op[1]] = "collect"
                tok = ntok(sorted(hexs(h) for h in toks))
            elif t == "R":
                nodes[op[1]].reset_collect()
                owed |= {id(r) for r in reach_impl(nodes[op[1]])}
                quiet = {op[1]: "reset"}
                tok = "u"
            else:
                tok = "?"
        except RecursionError as e:
            # the library recurses one Python frame per level of the structure; what it has half done is undefined
            # (an invalidation stopped on its way up, a collection stopped on its way down): the history ends here
            recursion_at = idx
            recursion_first = not bad
            outs.append(err_tok(e))
            if not bad:
                bad.append("op %d %s: RecursionError - the operation needs one Python frame per level of the structure "
                           "(deepest chain of this history: %d nodes), so no hash / collection is reported at all"
                           % (idx, op, max_chain(c)))
            break
        except Exception as e:   # noqa
            tok = err_tok(e)
        failed = tok.startswith("!")
        # RECORDED corner of /repo (not a violation raised here): when a Directory holds an entry named b"" (bulk update
        # only), `del d[b""]` / a bulk update replacing it raise ValueError AFTER invalidate_hash(), because d[b""] is d
        # itself: the failed operation does drop hashes and collected flags.  Such a failure is treated as a change.
        empty_name = failed and t in MUT and any(isinstance(nd, from_disk.Directory) and b"" in dict.keys(nd) for nd in nodes)
        if (t in MUT and not failed) or t == "F" or empty_name:
            quiet = {}
        if failed and not empty_name:
            # an operation that raises is not a change: in particular it must not clear a collected flag (the next
            # collect would report the node again although nothing changed), which `quiet` - kept - checks as well
            for i, (was, nd) in enumerate(zip(flags, nodes)):
                if was and not nd.collected:
                    bad.append("op %d %s failed (%s) and yet cleared the collected flag of node %d: collecting again "
                               "without an intervening change would report it" % (idx, op, tok, i))
                    break
        outs.append(tok)
        dirty = up_closure(nodes, dirty)
        # the property, without touching any cache: a set private hash must be the from-scratch hash
        for i, nd in enumerate(nodes):
            ch = getattr(nd, "_MerkleNode__hash", None)
            if ch and id(nd) not in dirty:
                try:
                    want = scratch_real(nd)
                except RecursionError:
                    continue
                if ch != want:
                    bad.append("after op %d %s: node %d caches hash %s but its current structure hashes to %s"
                               % (idx, op, i, hexs(ch), hexs(want)))
        if len(bad) > 3:
            break
    return {"outs": outs, "oracle": bad[0] if bad else None, "loose": sorted(set(loose)),
            "recursion_at": recursion_at, "recursion_first": recursion_first}


# ------------------------------------------------------------------ model side
def enc_op(op):
    t = op[0]
    if t == "N":
        return "N,%s,%s" % (op[1], op[2] or ".")
    if t == "S":
        return "S,%d,%s,%d" % (op[1], op[2] or ".", op[3])
    if t in ("D", "G", "C", "W"):
        return "%s,%d,%s" % (t, op[1], op[2] or ".")
    if t == "Q":
        return "Q,%d,%d" % (op[1], op[2])
    if t == "U":
        return "U,%d,%s" % (op[1], "+".join("%s=%d" % (k or ".", ch) for k, ch in op[2]) or ".")
    return "%s,%d" % (t, op[1])


def expand(c):
    """the primitive operations of a history (chain macro ops unfolded), with the number of primitives per op"""
    prim, sizes, n = [], [], 0
    kinds = []
    dm = DMARK.hex()
    for op in c["ops"]:
        if op[0] == "N":
            kinds.append(op[1])
            if op[1] == "d":
                op = ["N", "d", dm + op[2]]
        elif op[0] == "W" and op[1] < len(kinds) and kinds[op[1]] == "d":
            op = ["W", op[1], dm + op[2]]
        if op[0] == "T":
            sub = [["H", op[1]]]
        elif op[0] == "A":
            sub = [["H", op[1]], ["E", op[1]]] if op[1] < len(kinds) and kinds[op[1]] == "d" else []
        elif op[0] == "V":
            sub = [["U", op[1], op[3]]]
        elif op[0] == "K":
            sub = []
        elif op[0] == "X":
            kinds += [op[1]] * op[2]
            _, kind, depth, data, direction = op
            sub = [["N", kind, (dm + data) if kind == "d" else data] for _ in range(depth)]
            links = [["S", n + i, H(CHAIN_KEY), n + i + 1] for i in range(depth - 1)]
            sub += links if direction == "down" else links[::-1]
            n += depth
        else:
            sub = [op]
            if op[0] == "N":
                n += 1
        prim += sub
        sizes.append(len(sub))
    return prim, sizes


MACRO = ("X", "T", "A", "V", "K")


def requests(c):
    prim, _ = expand(c)
    return ["run %d %d %s" % (c.get("by_id", 1), c.get("old_truthy", 0), ";".join(enc_op(op) for op in prim))]


def ntok(hashes):
    """the token of a collection: the sorted distinct hashes, abbreviated to count + digest when there are many"""
    if len(hashes) <= 24:
        return "n" + ",".join(hashes)
    return "n#%d:%s" % (len(hashes), hashlib.md5(",".join(hashes).encode()).hexdigest())


def canon_model_tok(tok):
    if tok.startswith("e"):
        items = [it for it in tok[1:].split("+") if it]
        return "e" + "+".join(sorted(it.split(":")[0] + ":" + it.split(":")[2] for it in items))
    if tok.startswith("n"):
        items = [it for it in tok[1:].split(",") if it]
        return ntok(sorted({it.split(":")[1] for it in items}))
    return tok


def model(c, resp):
    r = resp[0]
    if not r.startswith("ok "):
        return {"error": r}
    toks = [canon_model_tok(t) for t in r[3:].split(";")] if len(r) > 3 else []
    if not any(op[0] in MACRO for op in c["ops"]):
        return {"outs": toks}
    # fold the answers to the primitives of a chain macro op into one token
    _, sizes = expand(c)
    outs, i = [], 0
    for op, k in zip(c["ops"], sizes):
        part = toks[i:i + k]
        i += k
        if op[0] == "X":
            hs = [t for t in part if t.startswith("h")]
            ok = len(hs) == op[2] and all(t == "u" for t in part[op[2]:])
            outs.append("X%s-%s" % (hs[0][1:], hs[-1][1:]) if ok and hs else "!expansion:" + ",".join(sorted(set(part)))[:80])
        elif op[0] == "K":
            outs.append("!value")                  # a Directory refuses a key that is not bytes, and nothing changes
        elif op[0] == "A":
            outs.append("a" + "|".join(part))      # "a" alone for the classes whose get_data() is just .data
        else:
            outs.append(part[0] if part else "?")
    return {"outs": outs}


def oracle(c, ires, mres):
    if "outs" not in ires:
        return "implementation run crashed: " + str(ires.get("error"))
    return ires.get("oracle")


def compare(c, ires, mres):
    if "outs" not in mres:
        return "model failed: " + str(mres)
    a, b = ires["outs"], mres["outs"]
    loose = set(ires.get("loose", ()))
    for i, (x, y) in enumerate(zip(a, b)):
        if x != y and i not in loose:
            return "op %d %s: implementation %s, model %s" % (i, c["ops"][i], x, y)
    if len(a) != len(b) and ires.get("recursion_at") is None:
        return "output count differs: %d vs %d" % (len(a), len(b))
    return None


def finding_key(c, ires, mres, verdict=None):
    """the one recorded class: the history contains a chain deeper than DEPTH_OK, the FIRST thing that goes wrong is a
    RecursionError raised by the library on an operation the model answers normally, and everything before agrees.
    A RecursionError on a shallow structure, or a wrong value on a deep one, is not in the class."""
    r = ires.get("recursion_at") if isinstance(ires, dict) else None
    if r is None or not ires.get("recursion_first") or max_chain(c) <= DEPTH_OK:
        return None
    mo = (mres or {}).get("outs")
    if not mo or r >= len(mo) or mo[r].startswith("!"):
        return None
    loose = set(ires.get("loose", ()))
    if any(ires["outs"][i] != mo[i] and i not in loose for i in range(r)):
        return None
    if not ires["outs"][r].startswith("!Other(RecursionError"):
        return None
    return "chain-deeper-than-recursion-limit"


def shrink(c):
    ops = c["ops"]
    # drop one op (never a node creation: handles are creation indexes), then chunks
    n = len(ops)
    for size in (8, 4, 2, 1):
        for i in range(0, n, size):
            rest = [op for j, op in enumerate(ops) if not (i <= j < i + size and op[0] not in ("N", "X"))]
            if len(rest) < n:
                sh = Shadow()
                ok = True
                for op in rest:
                    if not sh.safe(op):
                        ok = False
                        break
                    sh.apply(op)
                if ok:
                    yield dict(c, ops=rest)


# functions of /repo whose executed-line coverage by this run is reported in the evidence
ANCHORS = [('swh/model/merkle.py', 'MerkleNode.*'),
           ('swh/model/merkle.py', 'MerkleLeaf.*'),
           ('swh/model/from_disk.py', 'Directory.invalidate_hash'),
           ('swh/model/from_disk.py', 'Directory.entries'),
           ('swh/model/from_disk.py', 'Directory.to_model'),
           ('swh/model/from_disk.py', 'Directory.compute_hash'),
           ('swh/model/from_disk.py', 'Directory.__getitem__'),
           ('swh/model/from_disk.py', 'Directory.__setitem__'),
           ('swh/model/from_disk.py', 'Directory.__delitem__'),
           ('swh/model/from_disk.py', 'Directory.__contains__'),
           ('swh/model/from_disk.py', 'Directory.child_to_directory_entry')]
