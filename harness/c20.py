"""C20 - topological sort of a revision log (swh/model/toposort.py).

Tie: every generated log is run through /repo's toposort() and through the
extracted model.  Three comparisons, from strict to semantic:
  (1) the FIFO instance of the model gives the identical sequence (cheap; only recorded),
  (2) trace inclusion: the implementation's emission order, replayed step by
      step in the model (is_model_run), is one of the model's runs,
  (3) the extracted, proved checker is_topo_order accepts the output.
The property predicate is evaluated directly on the implementation in pure
Python as well (oracle).  (2) failing with (3) and the oracle passing is a
model disagreement, not a property violation.
"""
import itertools

ID = "C20"
PROPS = "Props/C20.v"
EXTRACT = "extract/ExC20.v"
OBLIGATION = "toposort"
THEOREMS = ["C20_topo", "C20_checker_sound", "C20_checker_complete", "C20_trace_inclusion", "C20_hyps_satisfiable"]
RULE = ("random DAGs (linear, forks, merges up to 6 parents, repeated parents, several roots, disconnected "
        "components), ids relabelled at random, log order shuffled; plus deep histories of 1100-2600 (thorough: up to 12000) "
        "revisions in a row - linear, mostly linear with side branches, merge ladders - newest-first, oldest-first and "
        "shuffled; every log is also sorted with its ids as 20-byte strings / str / tuples / mixed types and parents as tuples "
        "(same order required); non-trivial = at least one merge "
        "(>=2 parents) or >=2 roots; distinct = distinct (log) request")
TRUSTED = ["Python dict/deque/defaultdict semantics as modelled in model/Topo.v (dict keeps last value per key, "
           "defaultdict(list) appends, deque FIFO generalised to an arbitrary pick oracle)"]
ASSUMPTIONS = ["revision ids are pairwise distinct, every parent is in the log, the parent relation is acyclic "
               "(the property's own hypotheses)"]


def enc_log(log):
    if not log:
        return "."
    return "|".join(str(i) + (":" + ",".join(map(str, ps)) if ps else "") for i, ps in log)


def enc_ids(ids):
    return ",".join(map(str, ids)) if ids else "."


def gen_dag(rng, n, shape):
    """returns list of (id, parents) in creation (topological) order with ids 0..n-1"""
    log = []
    for i in range(n):
        if i == 0 or shape == "roots" and rng.random() < 0.3:
            ps = []
        elif shape == "linear":
            ps = [i - 1]
        elif shape == "forks":
            ps = [rng.randrange(i)]
        elif shape == "merges":
            k = rng.choice([1, 1, 2, 2, 3, 6])
            ps = [rng.randrange(i) for _ in range(k)]      # repeated parents possible
        elif shape == "components":
            lo = (i // 5) * 5
            ps = [rng.randrange(lo, i)] if i > lo else []
        else:
            k = rng.choice([0, 1, 1, 2, 3])
            ps = [rng.randrange(i) for _ in range(k)]
        log.append((i, ps))
    return log


def gen(rng, tier):
    n_cases = 1500 if tier == "quick" else 60000
    cases = [{"log": []}, {"log": [[7, []]]}, {"log": [[2, [1, 1]], [1, []]]}, {"log": [[2, [1]], [1, [0]], [0, []]]}]
    shapes = ["linear", "forks", "merges", "roots", "components", "mixed"]
    for k in range(n_cases):
        n = rng.choice([1, 2, 3, 4, 5, 8, 13, 25, 40]) if tier == "quick" else rng.randrange(0, 60)
        dag = gen_dag(rng, n, shapes[k % len(shapes)])
        relabel = list(range(0, 3 * n + 2))      # 0 included: a falsy id is an id like any other
        rng.shuffle(relabel)
        dag = [[relabel[i], [relabel[p] for p in ps]] for i, ps in dag]
        for _ in range(2):
            perm = dag[:]
            rng.shuffle(perm)
            cases.append({"log": perm})
    # deep histories: thousands of revisions in a row (longer than the interpreter's recursion limit), as real logs are
    for k, n in enumerate([1100, 1500, 2600] if tier == "quick" else [1001, 1100, 1500, 2600, 5000, 12000, 1300, 1700, 3100]):
        dag = []
        for i in range(n):
            ps = [i - 1] if i else []
            if k % 3 == 1 and i > 3 and rng.random() < 0.05:        # mostly linear, a few side branches merged back
                ps.append(rng.randrange(i - 1))
            if k % 3 == 2 and i > 1 and i % 2 == 0:                  # a ladder: every other revision also merges i-2
                ps.append(i - 2)
            dag.append([i + 1, [p + 1 for p in ps]])
        for order in ("newest-first", "oldest-first", "shuffled"):
            perm = dag[:]
            if order == "newest-first":
                perm.reverse()
            elif order == "shuffled":
                rng.shuffle(perm)
            cases.append({"log": perm})
    if tier == "thorough":
        # exhaustive: all DAGs on <= 4 nodes (parents among earlier nodes, as sets) x all permutations
        for n in range(0, 5):
            choices = [[list(s) for r in range(i + 1) for s in itertools.combinations(range(i), r)] for i in range(n)]
            for combo in itertools.product(*choices):
                dag = [[i + 1, [p + 1 for p in ps]] for i, ps in enumerate(combo)]
                for perm in itertools.permutations(dag):
                    cases.append({"log": list(perm)})
    return cases


def nontrivial(c):
    log = c["log"]
    return any(len(ps) >= 2 for _, ps in log) or sum(1 for _, ps in log if not ps) >= 2


def classify(c):
    log = c["log"]
    ks = ["n=%s" % (len(log) if len(log) < 6 else "6-20" if len(log) <= 20 else "21-999" if len(log) < 1000 else ">=1000")]
    if any(len(ps) >= 2 for _, ps in log):
        ks.append("merge")
    if any(len(set(ps)) < len(ps) for _, ps in log):
        ks.append("repeated-parent")
    if sum(1 for _, ps in log if not ps) >= 2:
        ks.append("multi-root")
    return ks


def _idv(i, kind, k=0):
    """the revision id i in another hashable type (real logs carry 20-byte ids; nothing may depend on ids being ints)"""
    if kind == "bytes":
        return i.to_bytes(20, "big")
    if kind == "str":
        return "rev-%d" % i
    if kind == "tuple":
        return (i, "x")
    if kind == "mixed":
        return [i, i.to_bytes(20, "big"), "rev-%d" % i, (i,)][(i + k) % 4]
    return i


def impl(c):
    from swh.model.toposort import toposort
    log = [{"id": i, "parents": list(ps)} for i, ps in c["log"]]
    try:
        out = [r["id"] for r in toposort(log)]
        # same log with ids of other hashable types, parents as tuples, extra keys: the order must be the same
        kind = ["bytes", "str", "tuple", "mixed"][len(c["log"]) % 4]
        back = {}
        for i, ps in c["log"]:
            for x in [i] + list(ps):
                back[_idv(x, kind)] = x
        log2 = [{"id": _idv(i, kind), "parents": tuple(_idv(p, kind) for p in ps), "message": b"m", "date": None} for i, ps in c["log"]]
        out2 = [back[r["id"]] for r in toposort(log2)]
        if out2 != out:
            return {"ok": out, "ok_generator": out, "ok_iterator": out, "other_id_types": [kind, out2[:12]]}
        # the same log as one-shot iterables (a generator, an iterator), as Storage.revision_log() yields it
        out_gen = [r["id"] for r in toposort(r for r in log)]
        out_it = [r["id"] for r in toposort(iter(tuple(log)))]
        return {"ok": out, "ok_generator": out_gen, "ok_iterator": out_it}
    except Exception as e:
        from .core import exc_class
        return {"error": exc_class(e)}


REQUESTS_NEED_IMPL = True


def requests(c, ires):
    l = enc_log(c["log"])
    trace = ires.get("ok")           # the trace to replay is the implementation's own output
    reqs = ["topo fifo " + l]
    if trace is not None:
        reqs.append("run %s %s" % (l, enc_ids(trace)))
        reqs.append("chk %s %s" % (l, enc_ids(trace)))
    return reqs


def model(c, resp):
    res = {"fifo": resp[0]}
    if len(resp) > 1:
        res["is_model_run"] = resp[1]
        res["is_topo_order"] = resp[2]
    return res


def oracle(c, ires, mres):
    """the property, directly on the implementation's output (pure Python)"""
    if "ok" not in ires:
        return "toposort raised " + ires.get("error", "?")
    out = ires["ok"]
    log = c["log"]
    if "other_id_types" in ires:
        return "the order changes when the ids are %s instead of ints (parents given as tuples): %s instead of %s" % (
            ires["other_id_types"][0], ires["other_id_types"][1], out[:12])
    if ires.get("ok_generator") != out or ires.get("ok_iterator") != out:
        return "the result depends on whether the log is a list or a one-shot iterable: %s / %s / %s" % (
            out[:8], ires.get("ok_generator", [])[:8], ires.get("ok_iterator", [])[:8])
    if sorted(out) != sorted(i for i, _ in log):
        return "output is not a permutation of the log: each revision must appear exactly once"
    pos = {i: k for k, i in enumerate(out)}
    for i, ps in log:
        for p in ps:
            if pos[p] >= pos[i]:
                return f"revision {i} is emitted before its parent {p}"
    if mres.get("is_topo_order") != "ok true":
        return "the proved checker is_topo_order rejects the implementation's output: " + str(mres.get("is_topo_order"))
    return None


def compare(c, ires, mres):
    if mres.get("is_model_run") != "ok true":
        return "the implementation's emission order is not a run of the model (trace inclusion): " + str(mres.get("is_model_run"))
    if not mres["fifo"].startswith("ok"):
        return "model failed: " + mres["fifo"]
    return None


def shrink(c):
    log = c["log"]
    size = len(log) // 2
    while size >= 8:                      # long logs: drop whole chunks first
        for a in range(0, len(log), size):
            gone = {i for i, _ in log[a:a + size]}
            yield {"log": [[i, [p for p in ps if p not in gone]] for i, ps in log if i not in gone]}
        size //= 2
    for k in range(len(log)):
        gone = log[k][0]
        yield {"log": [[i, [p for p in ps if p != gone]] for j, (i, ps) in enumerate(log) if j != k]}
    for k, (i, ps) in enumerate(log):
        for j in range(len(ps)):
            yield {"log": [[i2, (ps2[:j] + ps2[j + 1:]) if k2 == k else ps2] for k2, (i2, ps2) in enumerate(log)]}

ANCHORS = [("swh/model/toposort.py", "toposort")]


def coq_cases(cases):
    """the FIFO instance evaluated by vm_compute inside Coq vs the extracted driver (extraction cross-check)"""
    from . import core
    def coq_log(log):
        return "[" + "; ".join("(%d%%N, [%s])" % (i, "; ".join("%d%%N" % p for p in ps)) for i, ps in log) + "]"
    src = ("From Coq Require Import List NArith.\nFrom SWH.model Require Import Topo.\nImport ListNotations.\n" + core.COQ_CHECKSUM +
           "\nDefinition cases : list (list rev) := [" + ";\n ".join(coq_log(c["log"]) for c in cases) + "].\n"
           "Eval vm_compute in map (fun l => match toposort fifo l with TopoOk out => cksum (map rid out) | _ => 0%N end) cases.\n")
    resp = core.run_driver(ID, ["topo fifo " + enc_log(c["log"]) for c in cases])
    exp = []
    for r in resp:
        ids = [] if r in ("ok .",) else [int(x) for x in r[3:].split(",")] if r.startswith("ok ") else None
        exp.append(core.py_cksum(ids) if ids is not None else 0)
    return src, exp
