"""C20 - topological sort of a revision log (swh/model/toposort.py).

Tie: every generated log is run through /repo's toposort() and through the
extracted model.  Three comparisons, from strict to semantic:
  (1) the FIFO instance of the model gives the identical sequence (cheap; only recorded),
  (2) trace inclusion: the implementation's emission order, replayed step by
      step in the model (is_model_run), is one of the model's runs,
  (3) the extracted, proved checker is_topo_order accepts the output.
The property predicate is evaluated directly on the implementation in pure
Python as well (oracle), on the plain sort (list of dicts with int ids) and on
every other spelling of the same log (_plans: id types, parents / log /
revision containers, consumers); an order that differs from the plain sort's
is also submitted to the proved checker.  (2) failing with (3) and the oracle passing is a
model disagreement, not a property violation.
"""
import collections
import collections.abc
import itertools
import random
import types

ID = "C20"
PROPS = "Props/C20.v"
EXTRACT = "extract/ExC20.v"
OBLIGATION = "toposort"
THEOREMS = ["C20_topo", "C20_checker_sound", "C20_checker_complete", "C20_trace_inclusion", "C20_hyps_satisfiable",
            "C20_any_order", "C20_hypotheses_needed"]
RULE = ("random DAGs (linear, forks, merges up to 6 parents, repeated parents, several roots, disconnected "
        "components, only isolated revisions, complete DAGs, one octopus merge of everything, parent lists that repeat one parent), "
        "ids relabelled at random (0 included), log order shuffled / oldest-first / newest-first / breadth-first from the heads "
        "(the order of Storage.revision_log()); plus deep histories of 1100-2600 (thorough: up to 12000) "
        "revisions in a row - linear, mostly linear with side branches, merge ladders - and wide ones (one root with ~1100 children, "
        "one merge with ~1100 parents, a parent named 1200 times, a comb; thorough: 1500 and 6000) newest-first, oldest-first and "
        "shuffled.  Every log is sorted several times, the property being evaluated on every output: with its ids as "
        "20-byte strings / str / tuples / mixed types and parents as tuples, as a generator, as an iterator (logs of > 5 revisions: "
        "one of the three per case), and (seeded by the "
        "case's fields v, k: one random combination per case in the quick tier, three in the thorough tier, two for logs of <= 5 revisions, "
        "one for logs of >= 100) "
        "in random combinations of: id type (also minimal byte strings with b'' for 0, '' for 0, negative ints, "
        "ids that all have the same hash, parent references equal to the id but of another type: float/bool for int, a bytes "
        "subclass for bytes, real Revision.to_dict() dictionaries with computed sha1 ids), parents container (list, tuple, deque, "
        "a Sequence without __bool__, UserList, frozenset, dict keys view), log container (list, tuple, deque, dict values view, "
        "generator, iterator, an object with only __iter__), revision mapping (dict, extra keys named like the sort's own "
        "variables, OrderedDict, dict subclass, read-only mappingproxy), consumer (list(); next() by hand while annotating each "
        "yielded revision and rebinding its parents to an equal tuple; two sorts of the same log interleaved next to an "
        "abandoned third).  The yielded dictionaries must still carry the id and parents they had in the log.  "
        "non-trivial = at least one merge (>=2 parents) or >=2 roots; distinct = distinct (log) request")
TRUSTED = ["Python dict/deque/defaultdict semantics as modelled in model/Topo.v (dict keeps last value per key, "
           "defaultdict(list) appends, deque FIFO generalised to an arbitrary pick oracle)"]
ASSUMPTIONS = ["revision ids are pairwise distinct, every parent is in the log, the parent relation is acyclic "
               "(the property's own hypotheses; C20_hypotheses_needed shows on the model what the "
               "code does without them: a revision listed twice is yielded twice, a revision whose parent is missing is never yielded)",
               "ids are hashable and parents is a sized, re-iterable container (an unhashable id or a one-shot iterable of parents "
               "makes /repo's toposort raise TypeError: such a log cannot be sorted at all)",
               "the caller does not change the id or the parents of a revision, nor the log, while it consumes the generator "
               "(/repo reads rev['id'] again after the yield: a consumer that rebinds it loses the children; adding keys and "
               "rebinding parents to an equal container IS exercised)"]


def enc_log(log):
    if not log:
        return "."
    return "|".join(str(i) + (":" + ",".join(map(str, ps)) if ps else "") for i, ps in log)


def enc_ids(ids):
    return ",".join(map(str, ids)) if ids else "."


def gen_dag(rng, n, shape):
    """returns list of (id, parents) in creation (topological) order with ids 0..n-1"""
    log = []
    for i in range(n):
        if i == 0 or shape == "isolated" or shape == "roots" and rng.random() < 0.3:
            ps = []
        elif shape == "linear":
            ps = [i - 1]
        elif shape == "forks":
            ps = [rng.randrange(i)]
        elif shape == "merges":
            k = rng.choice([1, 1, 2, 2, 3, 6])
            ps = [rng.randrange(i) for _ in range(k)]      # repeated parents possible
        elif shape == "components":
            lo = (i // 5) * 5
            ps = [rng.randrange(lo, i)] if i > lo else []
        elif shape == "full":                                # every earlier revision is a parent (in-degree up to 12)
            ps = list(range(i)) if i <= 12 else rng.sample(range(i), 12)
            rng.shuffle(ps)
        elif shape == "octopus":                             # the last revision merges all the others (roots or short lines)
            ps = list(range(i)) if i == n - 1 else [i - 1] if rng.random() < 0.3 else []
        elif shape == "repeat":                              # a parent list that names ONE parent several times
            ps = [rng.randrange(i)] * rng.choice([1, 2, 2, 3, 5])
        else:
            k = rng.choice([0, 1, 1, 2, 3])
            ps = [rng.randrange(i) for _ in range(k)]
        log.append((i, ps))
    return log


def _bfs_from_heads(dag):
    """the order of Storage.revision_log(): breadth-first from the heads along the parent links, each revision once"""
    by_id = {i: ps for i, ps in dag}
    named = {p for _, ps in dag for p in ps}
    todo = collections.deque(i for i, _ in reversed(dag) if i not in named)
    seen, out = set(), []
    while todo:
        i = todo.popleft()
        if i in seen:
            continue
        seen.add(i)
        out.append([i, by_id[i]])
        todo.extend(by_id[i])
    return out


ORDERS = ["oldest-first", "newest-first", "bfs-from-heads", "shuffled"]


def gen(rng, tier):
    n_cases = 1000 if tier == "quick" else 60000
    extra = 1 if tier == "quick" else 3        # random combinations per case (the field k), besides the three fixed ones
    cases = [{"log": []}, {"log": [[7, []]]}, {"log": [[2, [1, 1]], [1, []]]}, {"log": [[2, [1]], [1, [0]], [0, []]]}]
    shapes = ["linear", "forks", "merges", "roots", "components", "mixed", "isolated", "full", "octopus", "repeat"]
    for k in range(n_cases):
        n = rng.choice([1, 2, 3, 4, 5, 8, 13, 25, 40]) if tier == "quick" else rng.randrange(0, 60)
        dag = gen_dag(rng, n, shapes[k % len(shapes)])
        relabel = list(range(0, 3 * n + 2))      # 0 included: a falsy id is an id like any other
        rng.shuffle(relabel)
        dag = [[relabel[i], [relabel[p] for p in ps]] for i, ps in dag]
        for order in ("shuffled", ORDERS[(k // len(shapes)) % len(ORDERS)]):
            perm = dag[:]
            if order == "shuffled":
                rng.shuffle(perm)
            elif order == "newest-first":
                perm.reverse()
            elif order == "bfs-from-heads":
                perm = _bfs_from_heads(dag)
            cases.append({"log": perm, "v": rng.randrange(1 << 30), "k": extra if n > 5 else 2, "o": order})
    # deep histories: thousands of revisions in a row (longer than the interpreter's recursion limit), as real logs are
    big = []
    for k, n in enumerate([1100, 1500, 2600] if tier == "quick" else [1001, 1100, 1500, 2600, 5000, 12000, 1300, 1700, 3100]):
        dag = []
        for i in range(n):
            ps = [i - 1] if i else []
            if k % 3 == 1 and i > 3 and rng.random() < 0.05:        # mostly linear, a few side branches merged back
                ps.append(rng.randrange(i - 1))
            if k % 3 == 2 and i > 1 and i % 2 == 0:                  # a ladder: every other revision also merges i-2
                ps.append(i - 2)
            dag.append([i + 1, [p + 1 for p in ps]])
        big.append((dag, ("newest-first", "oldest-first", "shuffled")))
    # wide histories: the same sizes sideways (one revision with very many children / parents / the same parent very often)
    for n in ([1100] if tier == "quick" else [1500, 6000]):
        big.append(([[0, []]] + [[i, [0]] for i in range(1, n)], ("newest-first", "shuffled")))                       # fan-out
        big.append(([[i, []] for i in range(n - 1)] + [[n - 1, list(range(n - 1))]], ("newest-first", "shuffled")))  # octopus
        big.append(([[0, []]] + [[i, [i - 1, 0] if i > 1 else [0]] for i in range(1, n)], ("newest-first", "shuffled")))  # comb
    big.append(([[5, []], [0, [5]], [9, [5] * 1000 + [0] + [5] * 200]], ("newest-first", "oldest-first")))           # one parent 1200 times
    for dag, orders in big:
        for order in orders:
            perm = dag[:]
            if order == "newest-first":
                perm.reverse()
            elif order == "shuffled":
                rng.shuffle(perm)
            cases.append({"log": perm, "v": rng.randrange(1 << 30), "o": order})
    if tier == "thorough":
        # exhaustive: all DAGs on <= 4 nodes (parents among earlier nodes, as sets) x all permutations
        for n in range(0, 5):
            choices = [[list(s) for r in range(i + 1) for s in itertools.combinations(range(i), r)] for i in range(n)]
            for combo in itertools.product(*choices):
                dag = [[i + 1, [p + 1 for p in ps]] for i, ps in enumerate(combo)]
                for perm in itertools.permutations(dag):
                    cases.append({"log": list(perm), "v": rng.randrange(1 << 30), "k": 1})
    return cases


def nontrivial(c):
    log = c["log"]
    return any(len(ps) >= 2 for _, ps in log) or sum(1 for _, ps in log if not ps) >= 2


def classify(c):
    log = c["log"]
    ks = ["n=%s" % (len(log) if len(log) < 6 else "6-20" if len(log) <= 20 else "21-999" if len(log) < 1000 else ">=1000")]
    if any(len(ps) >= 2 for _, ps in log):
        ks.append("merge")
    if any(len(ps) >= 100 for _, ps in log):
        ks.append("merge>=100-parents")
    if any(len(set(ps)) < len(ps) for _, ps in log):
        ks.append("repeated-parent")
    if sum(1 for _, ps in log if not ps) >= 2:
        ks.append("multi-root")
    if log and all(not ps for _, ps in log):
        ks.append("only-roots")
    if "o" in c:
        ks.append("order:" + c["o"])
    for pl in _plans(c):
        ks += ["%s:%s" % (d, x) for d, x in zip(("ids", "parents", "log", "rev", "consumer"), pl)]
    return ks


# ---------------------------------------------------------------- the ways one and the same log is handed to toposort()
class _BytesSub(bytes):
    """a bytes subclass: equal to, and hashing like, the plain bytes"""


class _Seq(collections.abc.Sequence):
    """a sized, indexable container with neither __bool__ nor __iter__ of its own"""
    def __init__(self, l):
        self._l = list(l)

    def __len__(self):
        return len(self._l)

    def __getitem__(self, i):
        return self._l[i]


class _Iterable:
    """a re-iterable object with nothing but __iter__ (no len, no indexing, always truthy)"""
    def __init__(self, l):
        self._l = l

    def __iter__(self):
        return iter(self._l)


class _DictSub(dict):
    pass


_M61 = 2 ** 61 - 1        # hash(k * _M61) == 0 for every int k on a 64-bit CPython

ID_KINDS = ["int", "bytes", "str", "tuple", "mixed", "short-bytes", "short-str", "negative", "same-hash", "equal-other-type",
            "bytes-subclass", "real-revisions"]
PARENTS_KINDS = ["list", "tuple", "deque", "sequence-no-bool", "userlist", "frozenset", "dict-keys"]
LOG_KINDS = ["list", "tuple", "deque", "dict-values", "generator", "iterator", "iter-only-object"]
REV_KINDS = ["dict", "extra-keys", "ordered-dict", "dict-subclass", "mappingproxy"]
CONSUMERS = ["list", "next+annotate", "interleaved"]


def _idv(i, kind, k=0, parent=False):
    """the revision id i in another hashable type (real logs carry 20-byte ids; nothing may depend on ids being ints);
    parent=True: the spelling used inside a parents container"""
    if kind == "bytes":
        return i.to_bytes(20, "big")
    if kind == "str":
        return "rev-%d" % i
    if kind == "tuple":
        return (i, "x")
    if kind == "mixed":
        return [i, i.to_bytes(20, "big"), "rev-%d" % i, (i,)][(i + k) % 4]
    if kind == "short-bytes":
        return i.to_bytes((i.bit_length() + 7) // 8, "big")          # 0 -> b"" (falsy)
    if kind == "short-str":
        return "%d" % i if i else ""                                   # 0 -> "" (falsy)
    if kind == "negative":
        return -i                                                      # hash(-1) == hash(-2)
    if kind == "same-hash":
        return i * _M61                                                # every id has hash 0
    if kind == "equal-other-type":
        return (bool(i) if i < 2 else float(i)) if parent else i       # True == 1, 0 == False, 7.0 == 7
    if kind == "bytes-subclass":
        b = i.to_bytes(20, "big")
        return _BytesSub(b) if parent == (i % 3 != 0) else b
    return i


def _real_revisions(spec):
    """the log as Revision(...).to_dict() dictionaries whose ids are the computed sha1 ({label: dict}); None when the
    labelled graph cannot be built bottom-up"""
    from swh.model.model import Revision, RevisionType
    todo = {i: ps for i, ps in spec}
    if len(todo) != len(spec):
        return None
    dicts = {}
    while todo:
        ready = [i for i, ps in todo.items() if all(p in dicts for p in ps)]
        if not ready:
            return None
        for i in ready:
            rev = Revision(message=b"revision %d" % i, author=None, committer=None, date=None, committer_date=None,
                           type=RevisionType.GIT, directory=bytes(20), synthetic=False,
                           parents=tuple(dicts[p]["id"] for p in todo.pop(i)))
            dicts[i] = rev.to_dict()
    return dicts


def _plans(c):
    """which (ids, parents, log, rev, consumer) combinations this case is sorted with, besides the plain one; a function of
    the case alone (its field v), so that a replay does the same"""
    n = len(c["log"])
    v = c.get("v", n)
    kind4 = ["bytes", "str", "tuple", "mixed"][n % 4]
    if n <= 5:
        plans = [(kind4, "tuple", "list", "extra-keys", "list"),
                 ("int", "list", "generator", "dict", "list"),
                 ("int", "list", "iterator", "dict", "list")]
    else:       # longer logs: the same three spellings, one per case
        plans = [(kind4, "tuple", ["list", "generator", "iterator"][v % 3], "extra-keys", "list")]
    r = random.Random(v)
    for _ in range(min(c.get("k", 1), 3) if n < 100 else 1):
        idk = r.choice(ID_KINDS)
        if idk == "same-hash" and n > 64 or idk == "real-revisions" and n > 13:      # quadratic / slow to build
            idk = "bytes"
        plans.append((idk, r.choice(PARENTS_KINDS), r.choice(LOG_KINDS), r.choice(REV_KINDS), r.choice(CONSUMERS)))
    return plans


def _mk_parents(ps, kind):
    if kind == "tuple":
        return tuple(ps)
    if kind == "deque":
        return collections.deque(ps)
    if kind == "sequence-no-bool":
        return _Seq(ps)
    if kind == "userlist":
        return collections.UserList(ps)
    if kind == "frozenset":
        return frozenset(ps)
    if kind == "dict-keys":
        return dict.fromkeys(ps).keys()
    return list(ps)


def _mk_rev(d, kind):
    if kind == "extra-keys":       # keys named like the sort's own variables, and what a storage row carries
        d.update(message=b"m", date=None, children=[], in_degree=7, queue=None, parent=None, rev=None)
    if kind == "ordered-dict":
        return collections.OrderedDict(sorted(d.items(), key=lambda kv: kv[0] != "parents"))
    if kind == "dict-subclass":
        return _DictSub(d)
    if kind == "mappingproxy":
        return types.MappingProxyType(d)
    return d


def _mk_log(revs, kind):
    if kind == "tuple":
        return tuple(revs)
    if kind == "deque":
        return collections.deque(revs)
    if kind == "dict-values":
        return dict(enumerate(revs)).values()
    if kind == "generator":
        return (r for r in revs)
    if kind == "iterator":
        return iter(tuple(revs))
    if kind == "iter-only-object":
        return _Iterable(revs)
    return revs


def _consume(toposort, mklog, kind):
    """the outputs (lists of yielded revisions) of one or two complete sorts of the log"""
    if kind == "next+annotate":
        g, out = toposort(mklog()), []
        while True:
            try:
                r = next(g)
            except StopIteration:
                return [out]
            out.append(r)
            if isinstance(r, dict):        # what a consumer does with a revision it got: the graph stays what it was
                r["seen"] = len(out)
                r["parents"] = tuple(r["parents"])
    if kind == "interleaved":
        g0 = toposort(mklog())
        next(g0, None)                     # a third sort of the same log, abandoned after its first revision, still alive
        live = [(toposort(mklog()), []), (toposort(mklog()), [])]
        outs = [o for _, o in live]
        while live:
            for g, o in live[:]:
                try:
                    o.append(next(g))
                except StopIteration:
                    live.remove((g, o))
        return outs
    return [list(toposort(mklog()))]


def _describe(plan):
    return "ids=%s parents=%s log=%s rev=%s consumer=%s" % plan


def _variant(toposort, spec, plan):
    """sort the log spelled according to plan; the outputs as lists of the spec's labels"""
    idk, park, logk, revk, cons = plan
    real = None
    if idk == "real-revisions":
        try:
            real = _real_revisions(spec)
        except Exception:
            real = None                    # the library cannot build them (not this property's business): fall back
        if real is None:
            idk = "bytes"
    back, revs = {}, []
    for i, ps in spec:
        if real is not None:
            d = dict(real[i])
            d["parents"] = _mk_parents(d["parents"], park)
            pids = [real[p]["id"] for p in ps]
        else:
            pids = [_idv(p, idk, 0, True) for p in ps]
            d = {"id": _idv(i, idk), "parents": _mk_parents(pids, park)}
        back[d["id"]] = i
        for p, pid in zip(ps, pids):
            back[pid] = p
        revs.append(_mk_rev(d, revk))
    return [[back[r["id"]] for r in out] for out in _consume(toposort, lambda: _mk_log(revs, logk), cons)]


def impl(c):
    from swh.model.toposort import toposort
    from .core import exc_class
    spec = c["log"]
    log = [{"id": i, "parents": list(ps)} for i, ps in spec]
    try:
        yielded = list(toposort(log))
        out = [r["id"] for r in yielded]
    except Exception as e:
        return {"error": exc_class(e)}
    res = {"ok": out, "variants": []}
    # "yields each REVISION": what comes out still is the revision of the log (its id, its parents)
    want = {i: list(ps) for i, ps in spec}
    try:
        changed = [r["id"] for r in yielded if list(r["parents"]) != want.get(r["id"])]
    except Exception as e:
        changed = ["?" + exc_class(e)]
    if changed:
        res["changed"] = changed[:8]
    for plan in _plans(c):
        try:
            outs = _variant(toposort, spec, plan)
            diff = [o for o in outs if o != out]
            res["variants"].append([_describe(plan), diff[0] if diff else "same"])
        except Exception as e:
            res["variants"].append([_describe(plan), "error:" + exc_class(e)])
    return res


REQUESTS_NEED_IMPL = True


def requests(c, ires):
    l = enc_log(c["log"])
    trace = ires.get("ok")           # the trace to replay is the implementation's own output
    reqs = ["topo fifo " + l]
    if trace is not None:
        reqs.append("run %s %s" % (l, enc_ids(trace)))
        reqs.append("chk %s %s" % (l, enc_ids(trace)))
        for _, o in ires.get("variants", []):
            if isinstance(o, list):      # another order than the plain sort's: the proved checker decides on it too
                reqs.append("chk %s %s" % (l, enc_ids(o)))
    return reqs


def model(c, resp):
    res = {"fifo": resp[0]}
    if len(resp) > 1:
        res["is_model_run"] = resp[1]
        res["is_topo_order"] = resp[2]
        res["is_topo_order_variants"] = resp[3:]
    return res


def _property(log, out):
    """the property's conclusion on one output (a list of ids), in pure Python"""
    if sorted(out) != sorted(i for i, _ in log):
        return "output is not a permutation of the log: each revision must appear exactly once"
    pos = {i: k for k, i in enumerate(out)}
    for i, ps in log:
        for p in ps:
            if pos[p] >= pos[i]:
                return f"revision {i} is emitted before its parent {p}"
    return None


def oracle(c, ires, mres):
    """the property, directly on the implementation's output (pure Python)"""
    if "ok" not in ires:
        return "toposort raised " + ires.get("error", "?")
    out = ires["ok"]
    log = c["log"]
    why = _property(log, out)
    if why:
        return why
    if "changed" in ires:
        return "the revisions yielded for the ids %s do not have the parents they have in the log" % (ires["changed"],)
    if mres.get("is_topo_order") != "ok true":
        return "the proved checker is_topo_order rejects the implementation's output: " + str(mres.get("is_topo_order"))
    answers = list(mres.get("is_topo_order_variants", []))
    for desc, o in ires.get("variants", []):
        if o == "same":
            continue
        if not isinstance(o, list):
            return "toposort raised %s for the same log given with %s" % (o[6:], desc)
        why = _property(log, o)
        if why:
            return "the same log given with %s: %s (%s instead of %s)" % (desc, why, o[:12], out[:12])
        if (answers.pop(0) if answers else None) != "ok true":
            return "the proved checker is_topo_order rejects the output for the same log given with %s" % desc
    return None


def compare(c, ires, mres):
    if mres.get("is_model_run") != "ok true":
        return "the implementation's emission order is not a run of the model (trace inclusion): " + str(mres.get("is_model_run"))
    if not mres["fifo"].startswith("ok"):
        return "model failed: " + mres["fifo"]
    return None


def _keep(c, log):
    d = {"log": log}
    for k in ("v", "k", "o"):
        if k in c:
            d[k] = c[k]
    return d


def shrink(c):
    log = c["log"]
    size = len(log) // 2
    while size >= 8:                      # long logs: drop whole chunks first
        for a in range(0, len(log), size):
            gone = {i for i, _ in log[a:a + size]}
            yield _keep(c, [[i, [p for p in ps if p not in gone]] for i, ps in log if i not in gone])
        size //= 2
    for k in range(len(log)):
        gone = log[k][0]
        yield _keep(c, [[i, [p for p in ps if p != gone]] for j, (i, ps) in enumerate(log) if j != k])
    for k, (i, ps) in enumerate(log):
        for j in range(len(ps)):
            yield _keep(c, [[i2, (ps2[:j] + ps2[j + 1:]) if k2 == k else ps2] for k2, (i2, ps2) in enumerate(log)])

ANCHORS = [("swh/model/toposort.py", "toposort")]


def coq_cases(cases):
    """the FIFO instance evaluated by vm_compute inside Coq vs the extracted driver (extraction cross-check)"""
    from . import core
    def coq_log(log):
        return "[" + "; ".join("(%d%%N, [%s])" % (i, "; ".join("%d%%N" % p for p in ps)) for i, ps in log) + "]"
    src = ("From Coq Require Import List NArith.\nFrom SWH.model Require Import Topo.\nImport ListNotations.\n" + core.COQ_CHECKSUM +
           "\nDefinition cases : list (list rev) := [" + ";\n ".join(coq_log(c["log"]) for c in cases) + "].\n"
           "Eval vm_compute in map (fun l => match toposort fifo l with TopoOk out => cksum (map rid out) | _ => 0%N end) cases.\n")
    resp = core.run_driver(ID, ["topo fifo " + enc_log(c["log"]) for c in cases])
    exp = []
    for r in resp:
        ids = [] if r in ("ok .",) else [int(x) for x in r[3:].split(",")] if r.startswith("ok ") else None
        exp.append(core.py_cksum(ids) if ids is not None else 0)
    return src, exp
