"""C18 - `swh identify` prints what the library computes, for every option mix
(swh/model/cli.py: identify, identify_object, swhid_of_*, model_of_dir).

The model (coq/model/Cli.v) is a finite decision table over 1680
configurations; the extracted table is fetched from the driver once.  For every
fixture set (regular file, tree with nested directories + identical files + an
inner symlink, link->file, link->dir, URL, git repository, stdin data) ALL 1680
configurations are run through click's CliRunner (and a sample through a real
`python -m swh.model.cli` subprocess).  The concrete identifiers the outcome
must contain are computed with the LIBRARY (from_disk.Content / Directory,
model.Origin, model.Snapshot built from `git for-each-ref`), never by the CLI.

  oracle  : spec outcome (property)            vs implementation, in-scope configurations only
  compare : identify_model outcome (the code)  vs implementation, all configurations
"""
import atexit
import os
import shutil
import subprocess
import sys
import tempfile
import random as _random

from . import core

ID = "C18"
PROPS = "Props/C18.v"
EXTRACT = "extract/ExC18.v"
OBLIGATION = "identify"
THEOREMS = [
    "C18_all_cfgs_complete", "C18_all_cfgs_count", "C18_agree", "C18_scope_covers_literal", "C18_no_crash",
    "C18_verify_exit", "C18_print_designated",
    "C18_agree_refuted_old_realpath", "C18_agree_refuted_old_rectype", "C18_agree_refuted_old_autolink",
    "C18_agree_refuted_old_recursive_follows", "C18_old_deviations_exact", "C18_strict_reading_differs",
    "C18_in_scope_satisfiable",
    "C18_many_single", "C18_many_agree", "C18_many_recursive_first_only", "C18_many_satisfiable",
    "C18_agree_refuted_old_origin_uncaught", "C18_many_usage_after_lines",
    "C18_agree_refuted_old_stop_swallowed", "C18_many_refuted_old_stop_swallowed",
]
RULE = ("(1) every one of the 2400 one-argument configurations (argument kind - the seven of the statement plus "
        "'missing' (no scheme, no such path), 'badurl' (urlparse raises) and 'refusedurl' (a scheme, but model.Origin "
        "refuses the URL) - x --type x dereference x filename x "
        "recursive x verify x exclude) on each generated fixture set (random file contents, names - every second set "
        "with names that are not valid UTF-8, for the arguments too -, tree shapes with identical files/directories "
        "and an inner symlink, relative/absolute link targets, URL schemes, git repository with commits, branch, "
        "lightweight / annotated / tree tags, packed or loose refs), plus sampled configurations per set through a "
        "real `python -m swh.model.cli` subprocess; (2) invocations with SEVERAL arguments (1..6, mostly 2..5) per "
        "fixture set: directories (the same one twice, different trees, nested ones, a link to one, a git repository) "
        "mixed with files, links with and without --dereference, '-' at most once, URLs, each with per-invocation "
        "options: 0..3 --exclude patterns chosen so that one matches a directory of a LATER argument and not of the "
        "first (and the other way round), --filename/--no-filename, --type auto or explicit (suiting every argument, "
        "or not: error after the lines already printed), --verify (refused with several arguments), --recursive "
        "(first argument only); each output line is compared, in order, with the library call for that argument "
        "(Directory.from_disk with the library's own pattern filter rooted at that argument), with the extracted "
        "model identify_many, and - in scope - with what one invocation per argument prints; non-trivial = at least 2 "
        "options away from their default (one-argument) / at least 2 arguments and 1 such option (several); distinct "
        "= distinct (fixture seed, configuration or argument list + options, runner); (3) arguments that name no "
        "existing path, one string at a time: malformed bracket hosts and unbalanced brackets anywhere in the netloc, "
        "'//[', 'http://[::1', 'scheme://]', netlocs invalid under NFKC, strings of 2 kB..70 kB, NUL / newline / blank / "
        "empty strings, bare schemes 'x:', ':', '::', 'C:\\path', 'file:///nonexistent', strings starting with '-' "
        "(after '--'), strings that are not valid UTF-8 (surrogateescape), plus random short strings over those "
        "characters; each string is classified by urllib.parse.urlparse and model.Origin themselves (url / missing / "
        "badurl / refusedurl) and run under --type auto and every explicit type with several option combinations, in "
        "process and (without NUL) through the real subprocess; the same strings appear as arguments of the "
        "several-arguments route at any position; (4) the SPELLING of path arguments (file, directory, link to "
        "either, git repository; both routes): plain, './x', 'x/.', 'x//', 'x/', 'p//x', 'd/../x' through a real "
        "directory, '<link to a directory elsewhere>/../x' where the lexical collapse names a decoy (another file / "
        "directory of the same name) or nothing, 'x/../x', each absolute and relative to the fixture root (working "
        "directory changed and restored); the kind a spelling makes of an object is explicit (a trailing separator "
        "on a link to a directory designates the directory whatever --no-dereference says; on a file it names "
        "nothing), and the REFERENCE is always the library call on the canonical object - Directory.from_disk / "
        "Content.from_file on os.path.realpath of the object, never on the spelling the command was given; printed "
        "paths of a recursive listing are resolved by the operating system and matched against the canonical tree; "
        "(5) link CHAINS as argument objects (objects, not kinds: what the chain finally designates decides): link -> "
        "link -> file, link -> link -> link -> file with absolute and relative targets mixed, link -> link -> "
        "directory, a chain whose intermediate link lives in another directory with a relative target (and a decoy "
        "of that name next to the first link), a file / a directory reached through a chain of directory links in "
        "the middle of the path, a chain ending in a dangling link, a self-loop and a two-link cycle; under both "
        "dereference settings, automatic and explicit types, -r, --verify with the canonical object's identifier, in "
        "invocations with several arguments and under every spelling of (4); reference: the library call on "
        "os.path.realpath of the chain when it is followed, the FIRST link's own target text when it is not; "
        "(6) git repository STATES per fixture set: loose / packed / mixed references, packed-refs with only its "
        "header, peeled tag lines, no reference at all, bare, detached HEAD, references to missing objects (dangling "
        "branches), reference names that are not ASCII / not UTF-8, the .git directory itself as the argument; plus a "
        "repository whose references cannot be read (empty / garbage / truncated packed-refs: kind badrefs, usage "
        "error under -t snapshot, a directory otherwise); the snapshot reference is built from git's own listing; "
        "(7) audit dimensions: the invocation WRITTEN differently (short/long option names, --opt=value, -oVALUE, a "
        "flag repeated with the last one winning, an overridden -t, options after the objects) on a quarter of all "
        "cases; wrong option values, no argument, unknown options, every malformed shape of the --verify value (a "
        "usage error, never a traceback) and the help; the meaning of `--exclude` in the table varied per fixture set "
        "(several patterns, duplicates, patterns matching files, '', '[', '*', non-ASCII, not valid UTF-8, absolute "
        "patterns); an EMPTY file / directory / standard input and standard input of several blocks; a file named "
        "'-' in the working directory; a FIFO as argument and inside a tree; 60 nested directories; names with a tab "
        "or a leading '-'; '.', './', '..' with the working directory inside the object, a path through a link to the "
        "root, two leading slashes; 40 (thorough 150) arguments and no argument; and HISTORIES: two invocations in one "
        "process with the file / directory / link changed (or not) in between - nothing may be remembered; "
        "(8) the dictionary of the source under test (harness/gitobj_common.source_tokens: string constants of "
        "swh/model/*.py such as option names, 'swh:', 'swh:1:dir:', '.git', 'HEAD', 'refs/tags/', object type names) is "
        "used for arguments that are not paths (the token, token:x, https://token/x, spliced into a missing path), for "
        "the NAMES of fixture files / directories / links at the top and inside trees (every third fixture set), for "
        "--exclude patterns (token, *token*, token*) and for --verify values built around a token (swh:1:<tok>:<hash>, "
        "<id><tok>, ...: exit 0 / 1 / usage error as the library's own SWHID parser classifies the value); "
        "(9) ABSOLUTE --exclude patterns spelled under the argument's OWN spelling (<root as given>/<glob>; a relative "
        "root made absolute by joining the working directory or with os.path.abspath) under every root spelling of (4), "
        "in one-argument and several-argument invocations; whenever a pattern is absolute the reference is the library "
        "on the path AS GIVEN - Directory.from_disk(path=arg, path_filter=ignore_directories_patterns(arg, patterns)) - "
        "because such a pattern is relative to the spelling of the root it comes with (the unfiltered identifier stays "
        "checked against the canonical object); (10) exclusion patterns as a shell or a careless user writes them - "
        "a trailing slash, doubled slashes, a leading './', a trailing '/.' - which would match an entry once cleaned: "
        "the library takes a pattern literally, and so must the command (table sets, pattern pools of the "
        "several-arguments route, absolute patterns); a case field `wae` forces warnings-as-errors for one run")
TRUSTED = ["click option parsing, os.path.*, os.scandir, dulwich and git are modelled by a table per argument kind "
           "(model/Cli.v: isfile/isdir/islink/lstat/stat/urlparse scheme/urlparse raises/Origin refuses/is-a-git-repository), "
           "not verified; which kind a string argument has is decided by calling urlparse and model.Origin on it",
           "the identifiers themselves are the library's (Content.from_file/from_bytes, Directory.from_disk, "
           "Origin.swhid, Snapshot.swhid): C18 is about which object the command designates and what it prints"]
ASSUMPTIONS = ["a FIFO (exists, neither file nor directory) designates nothing: usage error under --type auto, the only "
               "type generated for it",
               "recorded, not generated (reported to the coordinator): a tree deeper than the interpreter's recursion limit "
               "(the library itself raises RecursionError: open finding of C06/C13); "
               "in a recursive listing a special file (FIFO, socket, device) "
               "is printed with an EMPTY name because the library's node has no path: the name of such a line is not "
               "checked",
               "a link that leads nowhere (dangling chain, cycle) designates nothing when it is to be followed (usage "
               "error under --type auto: the only type in scope) and itself, as a content, under --no-dereference; "
               "explicit -t content / -t directory on such a link is out of scope and not generated for cycles (the "
               "command hashes the link text / ends in OSError ELOOP: observed, not in the table)",
               "the designated object of a path argument is the one the operating system resolves the spelling to "
               "(os.path.realpath; the final component is kept when it is a link that must not be followed); the "
               "reference identifiers are computed by the library on that canonical path",
               "one-argument table: exactly one OBJECT argument; several-arguments route: any number, in scope when every "
               "argument is in scope under the shared options and --recursive is off (with several arguments the "
               "command applies -r to the first one and ignores the others: recorded as theorem "
               "C18_many_recursive_first_only, compared with the model, not counted as a violation); exclusion "
               "patterns mean whatever the library's ignore_directories_patterns makes of them (fnmatch on the "
               "root-relative path), nothing more is assumed; a file named '-' exists in the working directory of the stdin runs: '-' is standard input all the same; the argument of kind url has "
               "a scheme and is not an existing path; distinct designated objects of one fixture set have distinct "
               "identifiers (asserted when the fixtures are built)",
               "explicit --type: in scope when it equals the type of the designated object (content for file, "
               "link->file, stdin and for any link that is not followed; directory for dir, followed link->dir, git "
               "repository; origin for url; snapshot for git repository); '-t directory --no-dereference <link>' and "
               "an explicit non-content type on '-' are out of scope (still compared with the model); for an argument "
               "that cannot be identified (kinds missing, badurl) only --type auto is in scope, for a refused URL auto "
               "and origin: the specification is a usage error, never an unhandled exception; out of scope, the class "
               "of the error behind '-t content/directory <string>' (no such file / name too long / embedded NUL) and "
               "the refusal of '-t origin <string the library refuses>' are taken from the library call itself",
               "verification takes a core SWHID: an origin has none, so '--verify swh:1:ori:...' is a usage error "
               "(documented by the option's error message); --recursive is documented (warning) as disabled on a "
               "non-directory; the stricter reading is theorem C18_strict_reading_differs",
               "in-process runs give click's capture stream the surrogateescape error handler that a real process's "
               "stdout has under the C/POSIX locale; the subprocess runs use the real stream"]
CASE_TIMEOUT = 60

KINDS = ["file", "dir", "linkfile", "linkdir", "stdin", "url", "gitrepo", "missing", "badurl", "refusedurl", "badrefs"]
GIT_STATES = ["normal", "headeronly", "mixed", "peeled", "norefs", "bare", "detached", "missingobj"]
STRING_KINDS = ("url", "missing", "badurl", "refusedurl")      # arguments that are not paths: the string itself
TYPES = ["auto", "content", "directory", "origin", "snapshot"]
VERS = ["none", "match", "nonmatch"]


def all_cfgs():
    res = []
    for k in KINDS:
        for t in TYPES:
            for d in (1, 0):
                for f in (1, 0):
                    for r in (0, 1):
                        for v in VERS:
                            for x in (0, 1):
                                res.append([k, t, d, f, r, v, x])
    return res


def cfg_req(cfg):
    k, t, d, f, r, v, x = cfg
    return "cfg %s %s %d %d %d %s %d" % (k, t, d, f, r, v, x)


# ------------------------------------------------------------------ the extracted table
_TABLE = {}


def parse_row(line):
    """ok inscope=1 literal=1 des=dirpath,1 model=print,dirpath,1,1,0 spec=... strict=... old1=... .. old4=..."""
    if not line.startswith("ok "):
        raise RuntimeError("driver: " + line)
    row = {}
    for tok in line.split()[1:]:
        a, b = tok.split("=", 1)
        row[a] = b
    return row


def table_row(cfg):
    if not _TABLE:
        cfgs = all_cfgs()
        resp = core.run_driver(ID, [cfg_req(c) for c in cfgs])
        for c, r in zip(cfgs, resp):
            _TABLE[tuple(c)] = parse_row(r)
    return _TABLE[tuple(cfg)]


# ------------------------------------------------------------------ the dictionary of the source under test
def name_tokens():
    """literals harvested from swh/model/*.py of the repository under test (option names, 'swh:', '.git', 'HEAD',
    object type names ...) that can be a file name: no '/', no NUL, not '.' / '..' / '-', not 'objects' (a plain
    directory must not start to look like a bare repository)"""
    from . import gitobj_common as G
    # safety valve: a NAME must not be able to change what kind of argument a spelling is - no ':' (URL scheme
    # look-alikes), no leading '-', no option values; such tokens stay in the string route, where the classifier decides
    values = {t.encode() for t in TYPES}
    return [t for t in G.source_tokens("bytes")
            if b"/" not in t and b"\x00" not in t and t not in (b".", b"..", b"-", b"objects") and len(t) <= 30
            and b":" not in t and not t.startswith(b"-") and t not in values]


def str_tokens():
    from . import gitobj_common as G
    return [t for t in G.source_tokens("str") if "\x00" not in t]


# ------------------------------------------------------------------ arguments that are not existing paths
def string_pool(rng=None):
    """every family of argument that names no existing path; `n` varies the strings between fixture sets"""
    n = rng.randrange(10 ** 6) if rng else 7
    pool = [
        # malformed authority: urlparse itself raises ValueError
        "https://[2001:db8::%d/repo.git" % n, "https://2001:db8::%d]/repo.git" % n, "https://[git%d.example.org]/repo.git" % n,
        "//[", "//]", "http://[::1", "scheme://]", "x%d://]:80/" % n, "git://[host%d/x" % n, "ssh://user@[::1/x", "//a]b/c%d" % n,
        "http://a\u2100b%d/" % n, "//a\uff03b", "https://ex\u2101mple.org/%d" % n, "http://[v1.x]/", "ftp://[/", "a://[]/",
        # no scheme, no such path
        "", " ", "   ", "\t", "\n", ":", "::", ":/", "no/such/path%d" % n, "/nonexistent/%d" % n, "-x", "--foo", "-https://a", "--",
        "1:2", "1a:b", "a_b:c%d" % n, "~nobody%d" % n, "%41:", "a\x00b", "\x00", "a\nb%d" % n, "q/" * 3000, "p" * 5000,
        "f\udcff%d" % n, "\udce9t\udce9/%d" % n, "?x=%d" % n, "#frag", "//host%d/path" % n, "//", "./nope%d" % n,
        # a scheme: an origin
        "x:", "x%d:" % n, "C:\\path\\file%d" % n, "c:/dir", "file:///nonexistent/%d" % n, "https://h/\x00%d" % n,
        "https://h/a\nb%d" % n, " https://a.b/%d" % n, "https://a.b/%d " % n, "https://[2001:db8::1]/r%d.git" % n,
        "a+b.c-d:rest%d" % n, "mailto:x%d@y" % n, "urn:a:b:%d" % n, "HTTP://UPPER/%d" % n, "h2://\u00e9\u20ac/%d" % n,
        "x:" + "y" * 2040, "javascript:alert(%d)" % n, "data:,%d" % n,
        # a scheme, but the library refuses the URL: 2048 bytes or more, not valid UTF-8
        "https://example.org/" + "a" * 2100, "x:" + "\u20ac" * 700, "https://example.org/%d/" % n + "b" * 70000,
        "https://h/\udcff%d" % n, "x:\udcff", "git+ssh://\udce9@h/%d" % n, "y:" + "z" * 2046,
    ]
    out = []
    for x in pool:
        if x not in out:
            out.append(x)
    return out


def random_strings(rng, n):
    """short strings over the characters that matter to urlparse / the file system / the terminal"""
    alphabet = ["[", "]", ":", "/", "@", ".", "#", "?", "%", "-", " ", "\t", "\n", "\x00", "\u2100", "\uff03", "\u00e9",
                "\udcff", "a", "b", "z", "0", "9", "+", "_", "\\", "~", "="]
    out = []
    for _ in range(n):
        body = "".join(rng.choice(alphabet) for _ in range(rng.randrange(1, 12)))
        out.append(rng.choice(["", "", "http://", "//", "x:", "https://[", "a://b", "-"]) + body)
    return out


def classify_string(s, dirs=()):
    """kind of a non-path argument, decided by the code the command itself relies on: urllib.parse.urlparse and
    model.Origin.  None when the string is '-' or names something that exists (in the working directory or in dirs)."""
    from urllib.parse import urlparse
    from swh.model import model as M
    if s == "-":
        return None
    for d in ("",) + tuple(dirs):
        try:
            if os.path.lexists(os.path.join(d, s) if d else s):
                return None
        except ValueError:
            pass
    try:
        scheme = urlparse(s).scheme
    except ValueError:
        return "badurl"
    if not scheme:
        return "missing"
    try:
        M.Origin(url=s).swhid()
    except ValueError:
        return "refusedurl"
    return "url"


def opens_as_repo(s):
    """dulwich opens the string as a repository ('' is the working directory for it): then -t snapshot <string> is not
    a case of 'names nothing that exists'"""
    import dulwich.repo
    try:
        dulwich.repo.Repo(s).close()
        return True
    except Exception:
        return False


def literal_kind(s):
    """kind of an argument that names nothing as a path, decided on the literal string the way the command does:
    urlparse raises -> badurl; no scheme -> missing; a scheme but model.Origin refuses the URL -> refusedurl; else url.
    Used for the string route AND for a spelled path that ends up naming nothing (a file called 'swh:1:' spelled
    'swh:1:/' relative to its directory is no path but has a scheme: an origin)"""
    from urllib.parse import urlparse
    try:
        scheme = urlparse(s).scheme
    except ValueError:
        return "badurl"
    if not scheme:
        return "missing"
    return "url" if origin_id(s) is not None else "refusedurl"


def origin_id(s):
    """the identifier the library computes for the origin of URL s; None when the library refuses the URL"""
    from swh.model import model as M
    try:
        return str(M.Origin(url=s).swhid())
    except ValueError:
        return None


def snapshot_error(arg):
    """what `-t snapshot <arg>` ends in when <arg> is not a readable git repository (an out-of-scope row): the class of
    the exception raised by the very call the command makes (dulwich decides: NotGitRepository for most things, but a
    directory that merely resembles a repository may fail later and differently), 'usage' for a click usage error,
    None when the call succeeds"""
    import click
    from swh.model import cli
    try:
        cli.swhid_of_git_repo(arg)
    except click.ClickException:
        return "usage"
    except Exception as e:
        return type(e).__name__
    return None


def library_error(cfg_type, arg, excluded):
    """class of the exception the library call behind an explicit --type raises for a string that is no path"""
    from swh.model import from_disk
    try:
        path = os.fsencode(arg)
        if cfg_type == "content":
            from_disk.Content.from_file(path=path)
        else:
            _dir_id(path, excluded, EXCLUDE)
    except Exception as e:
        return type(e).__name__
    return None


PLACEHOLDER = "swh:1:cnt:" + "0" * 40       # --verify value when nothing is designated


# ------------------------------------------------------------------ fixtures
_FX = {}          # key -> fixture dict (at most one alive)


def _cleanup():
    for fx in list(_FX.values()):
        shutil.rmtree(fx["root"], ignore_errors=True)
    _FX.clear()


atexit.register(_cleanup)

_GIT_ENV = {"GIT_AUTHOR_NAME": "a", "GIT_AUTHOR_EMAIL": "a@example.org", "GIT_COMMITTER_NAME": "c",
            "GIT_COMMITTER_EMAIL": "c@example.org", "GIT_CONFIG_GLOBAL": "/dev/null", "GIT_CONFIG_SYSTEM": "/dev/null",
            "GIT_AUTHOR_DATE": "1700000000 +0000", "GIT_COMMITTER_DATE": "1700000000 +0100", "HOME": "/nonexistent",
            "LC_ALL": "C"}


def _git(repo, *args):
    env = dict(os.environ)
    env.update(_GIT_ENV)
    p = subprocess.run(["git", "-C", repo] + list(args), stdout=subprocess.PIPE, stderr=subprocess.PIPE, env=env)
    if p.returncode:
        raise RuntimeError("git %s failed: %s" % (args, p.stderr.decode("utf-8", "replace")))
    return p.stdout


# names that make up a git repository's layout: kept out of the TOP level of plain (non-repository) fixture directories,
# so that a plain directory stays something dulwich refuses at once (inside sub-directories they are fine)
GIT_LAYOUT = {b"HEAD", b"refs", b"config", b"objects", b"packed-refs", b"index", b"info", b"hooks", b"branches",
              b"description", b"shallow", b"commondir", b"gitdir", b".git"}


def _tokname(rng, taken, avoid=()):
    """a harvested literal as a name, made unique with a counter"""
    t = rng.choice([q for q in name_tokens() if q not in avoid])
    n, k = t, 0
    while n in taken:
        k += 1
        n = t + str(k).encode()
    return n


def _rname(rng, nonutf8, prefix=b""):
    alphabet = b"abcdefghijklmnopqrstuvwxyzABCXYZ0123456789_.+ \t"
    n = rng.randrange(1, 9)
    s = bytes(rng.choice(alphabet) for _ in range(n)).strip() or b"n"
    if s.startswith(b"."):
        s = b"d" + s
    if nonutf8 and rng.random() < 0.6:
        s += rng.choice([b"\xff", b"\xe9t\xe9", b"\xc3\x28", b"\xf0\x9f\x98\x80", "é€".encode()])
    return prefix + s


def _rdata(rng):
    kind = rng.randrange(4)
    if kind == 0:
        return bytes(rng.randrange(256) for _ in range(rng.randrange(1, 300)))
    if kind == 1:
        return ("line %d\n" % rng.randrange(10 ** 6)).encode() * rng.randrange(1, 50)
    if kind == 2:
        return b"\x00" * rng.randrange(1, 70000) + bytes([rng.randrange(256)])
    return ("text-%d" % rng.randrange(10 ** 9)).encode()


def _populate(rng, top, nonutf8, tag=b"A", toknames=False):
    """nested directories, identical files, an inner symlink, an executable, an empty directory; always a
    directory whose name starts with b'sub' (the exclusion pattern of the one-argument table is sub*), and - for
    the invocations with several arguments - a directory only_<tag>* at the top and one inside sub*, so that a
    pattern can match something in one tree and nothing in another.  Returns (sub, other): two nested directories."""
    os.mkdir(top)
    shared = _rdata(rng)
    names = set()

    def fresh(prefix=b""):
        while True:
            if toknames and prefix == b"" and rng.random() < 0.6:
                n = _tokname(rng, names, GIT_LAYOUT)   # e.g. a directory named --help or swh:1:dir: (not HEAD / refs / .git
                                                       # at the top of a plain directory: it must stay a non-repository)
                names.add(n)
                return n
            n = _rname(rng, nonutf8, prefix)
            if n not in names and not (prefix == b"" and n.startswith(b"sub")):
                names.add(n)
                return n
    f1 = fresh()
    with open(os.path.join(top, f1), "wb") as f:
        f.write(shared)
    sub = os.path.join(top, fresh(b"sub"))
    os.mkdir(sub)
    with open(os.path.join(sub, _rname(rng, nonutf8, b"same")), "wb") as f:
        f.write(shared)                                           # identical file elsewhere in the tree
    with open(os.path.join(sub, b"x" + _rname(rng, nonutf8)), "wb") as f:
        f.write(_rdata(rng))
    if toknames:
        for n in rng.sample(sorted(GIT_LAYOUT), 2):           # HEAD, refs, .git ... INSIDE a sub-directory
            with open(os.path.join(sub, n), "wb") as f:
                f.write(_rdata(rng))
    os.chmod(os.path.join(sub, os.listdir(sub)[0]), 0o755)
    os.symlink(os.path.join(b"..", f1), os.path.join(sub, b"ln" + _rname(rng, False)))   # inner symlink
    deep = os.path.join(sub, b"deep" + _rname(rng, nonutf8))
    os.mkdir(deep)
    with open(os.path.join(deep, _rname(rng, nonutf8)), "wb") as f:
        f.write(_rdata(rng))
    other = os.path.join(top, fresh())
    os.mkdir(other)
    with open(os.path.join(other, _rname(rng, nonutf8)), "wb") as f:
        f.write(_rdata(rng))
    if rng.random() < 0.5:
        os.mkdir(os.path.join(top, fresh(b"empty")))
    if rng.random() < 0.5:
        # a second directory with the same content as `other`: identical sub-directories
        shutil.copytree(other, os.path.join(top, fresh(b"copy")), symlinks=True)
    for _ in range(rng.randrange(0, 3)):
        with open(os.path.join(top, fresh()), "wb") as f:
            f.write(_rdata(rng))
    for where in (top, sub):
        only = os.path.join(where, b"only_" + tag + _rname(rng, nonutf8))
        os.mkdir(only)
        with open(os.path.join(only, _rname(rng, nonutf8)), "wb") as f:
            f.write(_rdata(rng))
    return sub, other


def build_fixture(fxspec):
    """One fixture set under a fresh temporary directory.  Everything is derived from fxspec['seed']."""
    rng = _random.Random(fxspec["seed"])
    nonutf8 = bool(fxspec.get("nonutf8"))           # names inside the trees, link texts
    nonutf8_arg = bool(fxspec.get("nonutf8_arg"))   # names of the arguments themselves
    root = tempfile.mkdtemp(prefix="c18-").encode()
    fx = {"root": root, "spec": dict(fxspec), "_dirs": {}, "_trees": {}}
    try:
        used = set()

        toknames = bool(fxspec.get("toknames"))

        def top(prefix):
            while True:
                if toknames and prefix in (b"f", b"-f", b"t", b"lf", b"ld", b"u", b"g", b"e0", b"e1") and rng.random() < 0.7:
                    n = _tokname(rng, used | {b"-"})
                    used.add(n)
                    return os.path.join(root, n)
                n = _rname(rng, False, prefix)
                if nonutf8_arg:
                    n += rng.choice([b"\xff", b"\xe9t\xe9", b"\xc3\x28", b"\x80x"])
                if n not in used and n != b"-":
                    used.add(n)
                    return os.path.join(root, n)
        fx["file"] = top(b"-f" if fxspec.get("dashnames") else b"f")       # a name that looks like an option
        with open(fx["file"], "wb") as f:
            f.write(b"" if fxspec.get("empties") else _rdata(rng))         # empties: the file argument is EMPTY
        if rng.random() < 0.3:
            os.chmod(fx["file"], 0o755)
        fx["dir"] = top(b"t")
        fx["dir_sub"], fx["dir_other"] = _populate(rng, fx["dir"], nonutf8, b"A", toknames)
        fx["linkfile"] = top(b"lf")
        # relative or absolute link text
        tgt = os.path.basename(fx["file"]) if rng.random() < 0.7 else fx["file"]
        os.symlink(tgt, fx["linkfile"])
        fx["linkdir_target"] = top(b"lt")
        _populate(rng, fx["linkdir_target"], nonutf8, b"B", toknames)
        fx["linkdir"] = top(b"ld")
        tgt = os.path.basename(fx["linkdir_target"]) if rng.random() < 0.7 else fx["linkdir_target"]
        os.symlink(tgt, fx["linkdir"])
        fx["stdin"] = rng.choice([b"", b" ", b"\n"]) + _rdata(rng) + rng.choice([b"\n", b" \n", b"\r\n", b"\x00", b"\t"])
        if fxspec.get("empties"):
            fx["stdin"] = b""                                               # ... and so is standard input
        elif fxspec.get("bigstdin"):
            fx["stdin"] = fx["stdin"] * (300000 // len(fx["stdin"]) + 1)    # several read blocks
        scheme = rng.choice(["https", "http", "git", "ssh", "git+ssh", "svn", "ftp", "file"])
        fx["url"] = "%s://host%d.example.org/%s" % (scheme, rng.randrange(1000), rng.choice(["a/b.git", "x", "p?q=1#f", "é"]))
        # every shape of URL that has a scheme: with an authority, with an empty one, without one
        if fxspec.get("url_noauth", rng.random() < 0.5):
            n = rng.randrange(1000)
            fx["url"] = rng.choice(["file:///srv/git/project%d.git" % n, "lp:~user%d/project/trunk" % n,
                                    "mailto:someone%d@example.org" % n, "urn:x-swh:%d" % n, "git://%d" % n,
                                    "ssh://git@host%d:2222/~user/repo.git" % n, "a%d:b" % n])
        fx["url2"] = "https://other%d.example.org/%s" % (rng.randrange(1000), rng.choice(["r.git", "a/b/c", "x?y"]))
        # arguments that cannot be identified: no scheme and no such path / urlparse raises / the library refuses the URL
        by_kind = {}
        for st in string_pool(rng):
            if "\x00" in st:
                continue                     # cannot be passed to a real process; the string route covers NUL in-process
            kd = classify_string(st, (os.fsdecode(root),))
            if kd:
                by_kind.setdefault(kd, []).append(st)
        for kd in ("missing", "badurl", "refusedurl"):
            fx[kd], fx[kd + "2"] = rng.sample(by_kind[kd], 2)
        fx["url3"] = rng.choice(by_kind["url"])
        fx["dir2"] = top(b"u")
        fx["dir2_sub"], _ = _populate(rng, fx["dir2"], nonutf8, b"C", toknames)
        # git repository (non bare): two commits, a branch, a lightweight and an annotated tag, a tag of a tree
        repo = top(b"g")
        os.mkdir(repo)
        fx["gitrepo"] = repo
        r = os.fsdecode(repo)
        _git(r, "init", "-q", "-b", rng.choice(["master", "main", "trunk"]))
        with open(os.path.join(repo, b"README"), "wb") as f:
            f.write(_rdata(rng))
        os.mkdir(os.path.join(repo, b"subdir"))
        with open(os.path.join(repo, b"subdir", b"m.c"), "wb") as f:
            f.write(_rdata(rng))
        os.mkdir(os.path.join(repo, b"only_Gen"))
        with open(os.path.join(repo, b"only_Gen", b"g.h"), "wb") as f:
            f.write(_rdata(rng))
        _git(r, "add", "-A")
        _git(r, "commit", "-q", "-m", "first")
        _git(r, "tag", "v0-light")
        _git(r, "branch", "feature/x")
        with open(os.path.join(repo, b"README"), "ab") as f:
            f.write(b"more\n")
        _git(r, "commit", "-q", "-am", "second")
        _git(r, "tag", "-a", "-m", "annotated", "v1")
        if rng.random() < 0.5:
            _git(r, "tag", "-a", "-m", "tree tag", "treetag", "HEAD^{tree}")
        if fxspec.get("oddrefs", rng.random() < 0.5):
            # references whose value is a tree or a blob id (legal, rare): lightweight tags of a tree and of a blob
            _git(r, "tag", "tree-light", "HEAD^{tree}")
            blob = _git(r, "rev-parse", "HEAD:README").strip().decode()
            _git(r, "tag", "blob-light", blob)
        if fxspec.get("symrefs", rng.random() < 0.5):
            # symbolic references besides HEAD, as a non-mirror clone leaves them
            _git(r, "symbolic-ref", "refs/remotes/origin/HEAD", "refs/heads/feature/x")
            _git(r, "symbolic-ref", "refs/heads/alias-of-tag", "refs/tags/v1")
        state = fxspec.get("gitstate", "normal")
        for refname in ("refs/heads/f\u00e9ature/\u00fc", os.fsdecode(b"refs/heads/b\xff\xfe")):
            try:                      # reference names that are not ASCII / not valid UTF-8 (git accepts both)
                _git(r, "update-ref", refname, "HEAD")
            except RuntimeError:
                pass
        if state == "normal":
            if rng.random() < 0.5:
                _git(r, "pack-refs", "--all")
        elif state == "headeronly":     # a packed-refs file with its header comment and nothing else; every ref is loose
            with open(os.path.join(repo, b".git", b"packed-refs"), "wb") as f:
                f.write(b"# pack-refs with: peeled fully-peeled sorted \n")
        elif state == "peeled":         # every ref packed; the annotated tags get a ^peeled line
            _git(r, "pack-refs", "--all")
        elif state == "mixed":          # packed refs, then loose ones on top (one of them overriding a packed one)
            _git(r, "pack-refs", "--all")
            _git(r, "branch", "loose-after-packing")
            with open(os.path.join(repo, b"README"), "ab") as f:
                f.write(b"third\n")
            _git(r, "commit", "-q", "-am", "third")
            _git(r, "tag", "loose-tag")
        elif state == "missingobj":     # references whose object is not in the repository: dangling branches
            for name in (b"broken", b"nested/broken2"):
                os.makedirs(os.path.dirname(os.path.join(repo, b".git", b"refs", b"heads", name)), exist_ok=True)
                with open(os.path.join(repo, b".git", b"refs", b"heads", name), "wb") as f:
                    f.write(("%040x\n" % rng.getrandbits(160)).encode())
            fx["dangling_refs"] = [b"refs/heads/broken", b"refs/heads/nested/broken2"]
        elif state == "detached":       # HEAD is a commit id, not a symbolic reference
            _git(r, "checkout", "-q", "--detach", "HEAD~1")
        elif state == "norefs":         # git init and nothing else: no reference at all, HEAD points at an unborn branch
            shutil.rmtree(os.path.join(repo, b".git"))
            _git(r, "init", "-q", "-b", rng.choice(["master", "main"]))
        elif state == "bare":           # a bare clone: the references live in the directory itself
            bare = top(b"gb")
            env = dict(os.environ)
            env.update(_GIT_ENV)
            subprocess.run(["git", "clone", "-q", "--bare", r, os.fsdecode(bare)], check=True, env=env,
                           stdout=subprocess.PIPE, stderr=subprocess.PIPE)
            fx["gitrepo"] = bare
        if state != "bare":
            fx["gitdir"] = os.path.join(fx["gitrepo"], b".git")      # the repository directory itself as an argument
        # a repository whose references cannot be read: an EMPTY packed-refs file (dulwich raises StopIteration; git
        # itself is happy with it), or garbage in it
        bad = top(b"gx")
        os.mkdir(bad)
        fx["badrefs"] = bad
        rb = os.fsdecode(bad)
        _git(rb, "init", "-q", "-b", "main")
        with open(os.path.join(bad, b"README"), "wb") as f:
            f.write(_rdata(rng))
        os.mkdir(os.path.join(bad, b"subdir"))
        with open(os.path.join(bad, b"subdir", b"x.c"), "wb") as f:
            f.write(_rdata(rng))
        _git(rb, "add", "-A")
        _git(rb, "commit", "-q", "-m", "only")
        _git(rb, "tag", "-a", "-m", "t", "t1")
        with open(os.path.join(bad, b".git", b"packed-refs"), "wb") as f:
            f.write({"empty": b"", "garbage": b"this is not a packed-refs file\n",
                     "truncated": b"# pack-refs with: peeled\n0123"}[fxspec.get("badrefs", "empty")])
        # spellings of path arguments: <realdir>/../x goes through a real directory; hop/ln is a link to the directory
        # fixture, whose parent is the root, so hop/ln/../x IS root/x for the operating system, while the lexical
        # collapse hop/x is a decoy (another file / directory of the same name) or nothing at all
        fx["realdir"] = top(b"rd")
        os.mkdir(fx["realdir"])
        fx["hop"] = top(b"hop")
        os.mkdir(fx["hop"])
        os.symlink(os.path.join(b"..", os.path.basename(fx["dir"])), os.path.join(fx["hop"], b"ln"))
        decoys = rng.sample(["file", "dir", "dir2", "gitrepo", "linkdir", "linkfile"], 3)
        for kd in decoys:
            dp = os.path.join(fx["hop"], os.path.basename(fx[kd]))
            if kd in ("file", "linkfile"):
                with open(dp, "wb") as f:
                    f.write(b"decoy " + _rdata(rng))
            else:
                os.mkdir(dp)
                with open(os.path.join(dp, b"decoy"), "wb") as f:
                    f.write(_rdata(rng))
        fx["decoys"] = decoys
        os.symlink(b"..", os.path.join(fx["hop"], b"up"))                  # hop/up/x: x through a link to the root
        # falsy-but-valid objects, a file whose name is the stdin marker, a FIFO, a long chain of nested directories
        fx["emptyfile"] = top(b"e0")
        open(fx["emptyfile"], "wb").close()
        fx["emptydir"] = top(b"e1")
        os.mkdir(fx["emptydir"])
        fx["dashfile"] = os.path.join(root, b"-")
        with open(fx["dashfile"], "wb") as f:
            f.write(b"the file named - " + _rdata(rng))
        fx["fifo"] = top(b"ff")
        os.mkfifo(fx["fifo"])
        os.mkfifo(os.path.join(fx["dir2"], b"fifo" + _rname(rng, False)))   # ... and one inside a tree
        deep = os.path.join(fx["dir2"], b"nest")
        for _ in range(60):
            os.mkdir(deep)
            deep = os.path.join(deep, b"n")
        with open(deep, "wb") as f:
            f.write(_rdata(rng))
        # link chains (intermediate links are hidden objects k*)
        def ln(target, name, absolute):
            os.symlink(target if absolute else os.path.relpath(target, os.path.dirname(name)), name)
            return name
        k1 = ln(fx["file"], top(b"k1"), rng.random() < 0.5)
        fx["chain2f"] = ln(k1, top(b"c2f"), rng.random() < 0.5)
        mix = rng.sample([True, False, rng.random() < 0.5], 3)            # at least one absolute and one relative
        k3 = ln(fx["file"], top(b"k3"), mix[0])
        k2 = ln(k3, top(b"k2"), mix[1])
        fx["chain3f"] = ln(k2, top(b"c3f"), mix[2])
        cdir = top(b"cd")
        os.mkdir(cdir)
        inner = b"inner" + _rname(rng, nonutf8)
        with open(os.path.join(cdir, inner), "wb") as f:
            f.write(b"inner " + _rdata(rng))
        with open(os.path.join(root, inner), "wb") as f:
            f.write(b"decoy of inner " + _rdata(rng))                   # what 'inner' names from the wrong directory
        os.symlink(inner, os.path.join(cdir, b"mid"))                      # relative to cdir
        fx["chainx"] = ln(os.path.join(cdir, b"mid"), top(b"cx"), False)
        fx["chainx_target"] = os.path.join(cdir, inner)
        k4 = ln(fx["dir2"], top(b"k4"), rng.random() < 0.5)
        fx["chain2d"] = ln(k4, top(b"c2d"), rng.random() < 0.5)
        regular = sorted(e.name for e in os.scandir(fx["dir2"]) if e.is_file(follow_symlinks=False))
        fx["midfile"] = os.path.join(fx["chain2d"], regular[0])
        fx["middir"] = os.path.join(fx["chain2d"], os.path.basename(fx["dir2_sub"]))
        k5 = top(b"k5")
        os.symlink(b"nowhere" + _rname(rng, False), k5)
        fx["dangle"] = ln(k5, top(b"dg"), rng.random() < 0.5)
        fx["loop1"] = top(b"lp")
        os.symlink(os.path.basename(fx["loop1"]), fx["loop1"])
        k6 = top(b"k6")
        fx["loop2"] = top(b"lq")
        os.symlink(os.path.basename(k6), fx["loop2"])
        os.symlink(fx["loop2"] if rng.random() < 0.5 else os.path.basename(fx["loop2"]), k6)
        fx["ids"] = expected_ids(fx)
    except BaseException:
        shutil.rmtree(root, ignore_errors=True)
        raise
    return fx


def get_fixture(fxspec):
    key = core.canon(fxspec)
    if key not in _FX:
        _cleanup()                     # at most one fixture set on disk
        try:
            _FX[key] = build_fixture(fxspec)
        except Exception as e:         # remember the failure: never rebuild in a loop
            _FX[key] = {"root": b"/nonexistent-c18", "failed": e}
    if "failed" in _FX[key]:
        raise _FX[key]["failed"]
    return _FX[key]


EXCLUDE = ["sub*"]
# what `exclude = yes` means in the one-argument table, per fixture set: several patterns, duplicates, patterns that
# match files, nothing or everything-below-sub, the empty pattern, a pattern that is no valid glob class, non-ASCII
EXCLUDE_SETS = [["sub*"], ["sub*", "sub*"], ["nomatch*", "sub*", "*.c"], ["", "sub*"], ["[", "sub*", "\u00e9*"],
                ["sub*", "same*", "README"], ["only_*", "sub*", "*/deep*"],
                ["sub*", "*\udcff*", "*\udce9t\udce9*"],          # patterns that are not valid UTF-8
                # patterns that WOULD match an entry once "cleaned": a trailing slash (as the shell completes a
                # directory name), doubled slashes, a leading ./ - the library takes a pattern literally
                ["sub*/"], ["./sub*", "sub*//"], ["sub*/", "subdir/", ".git/", "only_*/"], ["sub*", "subdir/."]]


def fx_exclude(fx):
    if fx["spec"].get("xtokens"):
        return ["sub*"] + list(fx["spec"]["xtokens"])       # patterns built around literals of the source under test
    return EXCLUDE_SETS[fx["spec"].get("xset", 0) % len(EXCLUDE_SETS)]


def _dir_id(path, excluded, patterns=None):
    """the library's directory for `path`: Directory.from_disk with the library's own pattern filter when patterns are
    given (whatever that filter does with a pattern is, for C18, what the command must do too)"""
    from swh.model import from_disk
    if excluded:
        pats = EXCLUDE if patterns is None else patterns
        flt = from_disk.ignore_directories_patterns(path, [os.fsencode(p) for p in pats])
        return from_disk.Directory.from_disk(path=path, path_filter=flt)
    return from_disk.Directory.from_disk(path=path)


def _snapshot_id(repo, dangling=()):
    """the snapshot of a git repository, built from git's own listing of the references (not through dulwich);
    dangling: references to objects that are not in the repository (git refuses to list a repository that has them:
    they are set aside while git lists the others) - branches without a target"""
    from swh.model import model
    gitdir = repo if not os.path.isdir(os.path.join(repo, b".git")) else os.path.join(repo, b".git")
    moved = []
    try:
        for n, ref in enumerate(dangling):
            os.rename(os.path.join(gitdir, ref), os.path.join(gitdir, b"aside-%d" % n))
            moved.append((n, ref))
        sid = _snapshot_id_listed(repo, model, dangling)
    finally:
        for n, ref in moved:
            os.rename(os.path.join(gitdir, b"aside-%d" % n), os.path.join(gitdir, ref))
    return sid


def _snapshot_id_listed(repo, model, dangling):
    tt = model.SnapshotTargetType if hasattr(model, "SnapshotTargetType") else model.TargetType
    kinds = {"commit": tt.REVISION, "tag": tt.RELEASE, "tree": tt.DIRECTORY, "blob": tt.CONTENT}
    branches = {}
    out = _git(os.fsdecode(repo), "for-each-ref", "--format=%(refname) %(objectname) %(objecttype) %(symref)")
    for line in out.splitlines():
        ref, oid, typ, sym = line.split(b" ")
        if sym:       # a symbolic reference other than HEAD (e.g. refs/remotes/origin/HEAD): an alias branch
            branches[ref] = model.SnapshotBranch(target=sym, target_type=tt.ALIAS)
        else:
            branches[ref] = model.SnapshotBranch(target=bytes.fromhex(oid.decode()), target_type=kinds[typ.decode()])
    try:
        head = _git(os.fsdecode(repo), "symbolic-ref", "-q", "HEAD").strip()
        branches[b"HEAD"] = model.SnapshotBranch(target=head, target_type=tt.ALIAS)
    except RuntimeError:          # detached HEAD: a direct reference to a commit
        oid = _git(os.fsdecode(repo), "rev-parse", "HEAD").strip().decode()
        branches[b"HEAD"] = model.SnapshotBranch(target=bytes.fromhex(oid), target_type=tt.REVISION)
    for ref in dangling:
        branches[ref] = None
    return model.Snapshot(branches=branches).swhid()


def expected_ids(fx):
    """identifier of every object a configuration can designate, computed with the library"""
    from swh.model import from_disk, model
    C = from_disk.Content
    ids = {}
    ids["pathcontent"] = str(C.from_file(path=fx["file"]).swhid())
    with open(fx["file"], "rb") as f:
        assert str(C.from_bytes(mode=0o100644, data=f.read()).swhid()) == ids["pathcontent"]
    ids["targetfile"] = ids["pathcontent"]          # the link points at the regular file
    ids["linktext:linkfile"] = str(C.from_bytes(mode=0o120000, data=os.readlink(fx["linkfile"])).swhid())
    ids["linktext:linkdir"] = str(C.from_bytes(mode=0o120000, data=os.readlink(fx["linkdir"])).swhid())
    ids["empty"] = str(C.from_bytes(mode=0o100644, data=b"").swhid())
    ids["stdin"] = str(C.from_bytes(mode=0o100644, data=fx["stdin"]).swhid())
    for k, p in (("dir", fx["dir"]), ("linkdir", os.path.realpath(fx["linkdir"])), ("gitrepo", fx["gitrepo"]),
                 ("badrefs", fx["badrefs"])):
        for x in (0, 1):
            ids["dir:%s:%d" % (k, x)] = str(_dir_id(p, x, fx_exclude(fx)).swhid())
    for k in ("file", "dir", "linkfile", "linkdir", "gitrepo", "badrefs"):
        # out of scope (-t origin <path>); a path that is not valid UTF-8 is not a valid origin URL
        ids["origin:" + k] = origin_id(os.fsdecode(fx[k]))
    ids["origin:url"] = origin_id(fx["url"])
    # link chains: the reference is the CANONICAL object (os.path.realpath) when the link is followed, the FIRST link's
    # own text when it is not
    for o in CHAIN_OBJS:
        if OBJ_KIND[o] == "fifo" or o not in fx:
            continue
        if os.path.islink(fx[o]):
            ids["linktext:" + o] = str(C.from_bytes(mode=0o120000, data=os.readlink(fx[o])).swhid())
        real = os.path.realpath(fx[o])
        if OBJ_KIND[o] in ("linkfile", "file"):
            ids["content:" + o] = str(C.from_file(path=real).swhid())
        elif OBJ_KIND[o] in ("linkdir", "dir", "gitrepo"):
            for x in (0, 1):
                ids["dir:%s:%d" % (o, x)] = str(_dir_id(real, x, fx_exclude(fx)).swhid())
    assert ids["content:chain2f"] == ids["content:chain3f"] == ids["pathcontent"] != ids["content:chainx"]
    assert ids["content:emptyfile"] == ids["empty"] and ids["dir:emptydir:0"] == ids["dir:emptydir:1"]
    assert os.path.realpath(fx["chainx"]) == fx["chainx_target"]
    ids["snapshot"] = str(_snapshot_id(fx["gitrepo"], fx.get("dangling_refs", ())))
    # the fixture must be generic: distinct designated objects, distinct identifiers; the exclusion removes something
    generic = [ids["linktext:linkfile"], ids["linktext:linkdir"], ids["empty"],
               ids["dir:dir:0"], ids["dir:dir:1"], ids["dir:linkdir:0"], ids["dir:linkdir:1"], ids["dir:gitrepo:0"],
               ids["origin:url"], ids["snapshot"], ids["dir:badrefs:0"], ids["dir:badrefs:1"]]
    if fx["spec"].get("gitstate") != "bare":        # a bare repository has no sub* directory to exclude
        generic.append(ids["dir:gitrepo:1"])
    if "sub*" not in fx_exclude(fx):                # the table's patterns exclude nothing (e.g. 'sub*/'): same ids
        generic = [g for g in generic if g not in (ids["dir:dir:1"], ids["dir:linkdir:1"], ids["dir:badrefs:1"],
                                                   ids["dir:gitrepo:1"])]
    if not fx["spec"].get("empties"):               # empties: the file and standard input are the empty content
        generic += [ids["pathcontent"], ids["stdin"]]
    assert len(set(generic)) == len(generic), "fixture is not generic"
    return ids


def obj_id(fx, kind, obj, excluded, argstr=None, xpats=None):
    """identifier of designation `obj` (as named by the driver) for the argument of kind `kind`; xpats = (patterns,
    argument as given, working directory): absolute patterns - the reference is the library on the path as given"""
    ids = fx["ids"]
    if xpats and excluded and obj in ("dirpath", "dirtarget"):
        return given_tree(fx, os.fsencode(xpats[1]), xpats[0], xpats[2])[3]
    if obj in ("nothing", "refused", "unreadable"):
        return None
    if obj == "origin" and (argstr is not None or kind in STRING_KINDS):
        return origin_id(kind_arg(fx, kind, argstr))
    if obj in ("pathcontent", "targetfile"):
        return ids.get("content:" + kind, ids["pathcontent"])
    if obj == "linktext":
        return ids["linktext:" + kind]
    if obj == "empty":
        return ids["empty"]
    if obj == "stdin":
        return ids["stdin"]
    if obj in ("dirpath", "dirtarget"):
        return ids["dir:%s:%d" % (kind, int(excluded))]
    if obj == "origin":
        return ids["origin:" + kind]
    if obj == "snapshot":
        return ids["snapshot"]
    raise KeyError(obj)


def canonical_tree(fx, path, excluded, patterns=None):
    """The library's tree of the CANONICAL object: Directory.from_disk on os.path.realpath(path) (never on the
    spelling the command was given).  Returns (set of node ids, {(id, path relative to the top)}, canonical top)."""
    top = os.path.realpath(path)
    if patterns is None and excluded:
        patterns = fx_exclude(fx)
    key = (top, bool(excluded), tuple(patterns) if patterns is not None else None)
    if key not in fx["_trees"]:
        d = _dir_id(top, excluded, patterns)
        rel = set()
        for node in d.iter_tree(dedup=False):
            q = node.data.get("path")
            if q is None:
                # a special file (FIFO, socket, device): the library's node is the empty content WITHOUT a path, and the
                # command prints an empty name for it (observed; reported): the name of such a line is not checked
                rel.add((str(node.swhid()), None))
            else:
                rel.add((str(node.swhid()), b"" if q == top else q[len(top) + 1:]))
        dedup = [str(n.swhid()) for n in d.iter_tree()]
        assert len(dedup) == len(set(dedup)) and set(dedup) == {i for i, _ in rel}
        fx["_trees"][key] = (set(dedup), rel, top, str(d.swhid()))
    return fx["_trees"][key]


def given_tree(fx, arg, patterns, base):
    """The library's tree for the path AS GIVEN with the patterns AS GIVEN - Directory.from_disk(path=arg,
    path_filter=ignore_directories_patterns(arg, patterns)), evaluated in the working directory of the run.  This is the
    reference whenever a pattern is ABSOLUTE: such a pattern is relative to the spelling of the root it is given with.
    Returns (ids, {(id, path relative to the top)}, canonical top, root id) like canonical_tree."""
    key = ("given", arg, tuple(patterns), base)
    if key not in fx["_trees"]:
        old = os.getcwd()
        try:
            os.chdir(base)
            d = _dir_id(arg, True, list(patterns))
            top = os.path.realpath(arg)
        finally:
            os.chdir(old)
        root = d.data["path"]
        rel = set()
        for node in d.iter_tree(dedup=False):
            q = node.data.get("path")
            rel.add((str(node.swhid()), None if q is None else b"" if q == root else q[len(root) + 1:]))
        fx["_trees"][key] = ({str(n.swhid()) for n in d.iter_tree()}, rel, top, str(d.swhid()))
    return fx["_trees"][key]


def under_patterns(arg, suffixes, base, how):
    """absolute patterns spelled under the SAME spelling as the argument: <root as given>/<suffix>; a relative argument
    is made absolute by joining it to the working directory (how=0) or with os.path.abspath (how=1)"""
    a = os.fsencode(arg)
    if not os.path.isabs(a):
        a = os.path.join(base, a) if not how else os.path.abspath(os.path.join(base, a))
    elif how:
        a = os.path.abspath(a)
    return [os.fsdecode(a.rstrip(b"/") + b"/" + os.fsencode(sfx)) for sfx in suffixes]


UNDER_SUFFIX = {"dir": ["sub*", "only_A*/"], "linkdir": ["sub*"], "chain2d": ["sub*", "only_C*"], "middir": ["deep*"],
                "gitrepo": ["subdir", "only_G*/"], "badrefs": ["subdir", ".git"], "gitdir": ["refs"], "emptydir": ["x*"],
                "dir2": ["sub*", "only_C*//"], "lt": ["sub*"], "dir_sub": ["deep*"], "dir_other": ["nomatch*"]}


def canon_rel(p, top, base):
    """path of a printed node relative to the canonical top: the directory part is resolved by the operating system
    (os.path.realpath), the last component is kept (it may be a link inside the tree); None when outside the tree"""
    if not os.path.isabs(p):
        p = os.path.join(base, p)
    d, b = os.path.split(p)
    c = os.path.realpath(p) if b in (b"", b".", b"..") else os.path.join(os.path.realpath(d), b)
    if c == top:
        return b""
    if c.startswith(top + b"/"):
        return c[len(top) + 1:]
    if os.path.realpath(p) == top:        # the argument itself, a link to the designated directory
        return b""
    return None


# ------------------------------------------------------------------ spellings of a path argument
TRAILING = ("slash", "dslash", "slashdot", "cwddot", "cwddotslash", "cwdup")   # the object is looked INTO
TOP_ONLY = ("updir", "uplink", "vialink")  # need the object to sit directly in the fixture root
CWD_SPELLINGS = ("cwddot", "cwddotslash", "cwdup")      # '.', './', '..' with the working directory inside the object
SPELLINGS = ["plain", "dotslash", "midslash", "updir", "uplink", "slash", "dslash", "slashdot", "dotdotself", "vialink",
             "lead2", "cwddot", "cwddotslash", "cwdup"]
# a sub-directory of the directory objects that have a known one (for '..')
SUBDIR_OF = {"dir": lambda fx: os.path.basename(fx["dir_sub"]), "dir2": lambda fx: os.path.basename(fx["dir2_sub"]),
             "gitrepo": lambda fx: b"subdir", "badrefs": lambda fx: b"subdir"}


def spelling_applies(obj, spell, fxspec):
    kind = OBJ_KIND.get(obj, obj)
    if obj == "gitdir" and fxspec.get("gitstate") == "bare":
        return False
    if spell in TOP_ONLY and obj in NOT_IN_ROOT:
        return False
    if spell in CWD_SPELLINGS:
        if kind not in ("dir", "linkdir", "gitrepo", "badrefs"):
            return False
        if spell == "cwdup" and (obj not in SUBDIR_OF or (obj == "gitrepo" and fxspec.get("gitstate") in ("bare",))):
            return False
    return True
PATH_KINDS = ("file", "dir", "linkfile", "linkdir", "gitrepo", "badrefs")
# fixture objects that are paths, and the kind of argument each is: link CHAINS are objects, not kinds - what a chain
# finally designates decides (a link -> link -> file is a link to a file whose target is the file at the end)
OBJ_KIND = {"file": "file", "dir": "dir", "linkfile": "linkfile", "linkdir": "linkdir", "gitrepo": "gitrepo",
            "badrefs": "badrefs",     # a git repository whose references dulwich cannot read
            "emptyfile": "file",      # a regular file of 0 bytes
            "emptydir": "dir",        # a directory without entries
            "dashfile": "file",       # a regular file named '-' (the argument '-' is still standard input)
            "fifo": "fifo",           # a named pipe: exists, but is neither a file nor a directory
            "gitdir": "gitrepo",      # <repository>/.git given as the argument (absent for a bare repository)
            "chain2f": "linkfile",    # link -> link -> file
            "chain3f": "linkfile",    # link -> link -> link -> file, absolute and relative targets mixed
            "chainx": "linkfile",     # link -> cdir/mid, mid -> "inner" RELATIVE TO cdir (root/inner is a decoy)
            "chain2d": "linkdir",     # link -> link -> directory
            "midfile": "file",        # chain2d/<file>: a chain of directory links in the MIDDLE of the path
            "middir": "dir",          # chain2d/<sub-directory>
            "dangle": "dangle",       # link -> link -> nothing
            "loop1": "loop",          # link -> itself
            "loop2": "loop"}          # link -> link -> the first link
CHAIN_OBJS = [o for o in OBJ_KIND if o not in PATH_KINDS]
NOT_IN_ROOT = ("midfile", "middir", "dir_sub", "dir_other", "gitdir")


def spelled(fx, path, spell, rel):
    """the argument (str) that spells the object at `path` (bytes, canonical spelling) the given way; rel: relative to
    the fixture root, which is then the working directory of the run"""
    parent, b = os.path.split(path)
    if rel:
        parent = b"" if parent == fx["root"] else parent[len(fx["root"]) + 1:]

    def j(x):
        return parent + b"/" + x if parent else x
    plain = j(b)
    if spell == "plain":
        r = plain
    elif spell == "dotslash":
        r = j(b"./" + b)
    elif spell == "midslash":
        r = (parent if parent else b".") + b"//" + b
    elif spell == "updir":
        r = j(os.path.basename(fx["realdir"]) + b"/../" + b)
    elif spell == "uplink":
        r = j(os.path.basename(fx["hop"]) + b"/ln/../" + b)
    elif spell == "slash":
        r = plain + b"/"
    elif spell == "dslash":
        r = plain + b"//"
    elif spell == "slashdot":
        r = plain + b"/."
    elif spell == "dotdotself":
        r = plain + b"/../" + b
    elif spell == "vialink":          # through hop/up, a link to the fixture root (no '..' in the spelling)
        r = j(os.path.basename(fx["hop"]) + b"/up/" + b)
    elif spell == "lead2":            # two leading slashes (absolute only)
        r = b"/" + path
    elif spell in CWD_SPELLINGS:      # the working directory IS the object (or a sub-directory of it)
        r = {"cwddot": b".", "cwddotslash": b"./", "cwdup": b".."}[spell]
    else:
        raise KeyError(spell)
    if r == b"-":
        r = b"./-"                    # '-' alone is standard input, whatever files exist
    return os.fsdecode(r)


def spell_cwd(fx, obj, spell, rel):
    """the working directory a spelling needs (None: the harness's own)"""
    if spell == "cwdup":
        return os.fsdecode(os.path.join(fx[obj], SUBDIR_OF[obj](fx)))
    if spell in CWD_SPELLINGS:
        return os.fsdecode(fx[obj])
    return os.fsdecode(fx["root"]) if rel else None


def eff_kind(obj, spell, deref=1):
    """the kind of argument a spelling makes of an object (obj: a fixture object or a kind): what follows a trailing
    separator is looked up INSIDE the object, so a link to a directory is followed whatever --no-dereference says (the
    final component is not the link), and a file or a link to a file so spelled does not exist.  A link that leads
    nowhere (dangling chain, cycle) designates nothing when it is to be followed, and itself - a content made of its
    target path, like any link - when it is not."""
    kind = OBJ_KIND.get(obj, obj)
    if kind == "fifo":
        return "missing"          # "cannot detect object type": only --type auto is in scope
    if kind in ("dangle", "loop"):
        if spell in TRAILING or spell == "dotdotself":
            return "missing"
        return "missing" if deref else "linkfile"
    if spell in TRAILING:
        return {"linkdir": "dir", "file": "missing", "linkfile": "missing"}.get(kind, kind)
    if spell == "dotdotself":
        return {"file": "missing", "linkfile": "missing"}.get(kind, kind)
    return kind


# ------------------------------------------------------------------ running the command
def kind_arg(fx, k, argstr=None):
    """the command-line argument (str) of a one-argument case"""
    if argstr is not None:
        return argstr
    if k == "stdin":
        return "-"
    if k in STRING_KINDS:
        return fx[k]
    return os.fsdecode(fx[k])


def cli_args(fx, cfg, row, argstr=None, idk=None, xpats=None):
    k, t, d, f, r, v, x = cfg
    args = []
    if t != "auto" or fx["spec"].get("explicit_auto"):
        args += ["--type", t]
    if not d:
        args.append("--no-dereference")
    elif fx["spec"].get("explicit_defaults"):
        args.append("--dereference")
    if not f:
        args.append("--no-filename")
    elif fx["spec"].get("explicit_defaults"):
        args.append("--filename")
    if r:
        args.append("--recursive" if fx["spec"]["seed"] % 2 else "-r")
    if x:
        for p in (xpats[0] if xpats else fx_exclude(fx)):
            args += ["--exclude", p]
    if v != "none":
        dk, dx = row["des"].split(",")
        if dk == "origin":
            good = origin_id(kind_arg(fx, k, argstr)) or PLACEHOLDER
        else:
            good = obj_id(fx, idk or k, dk, dx == "1", None if idk else argstr, xpats) or PLACEHOLDER
        if v == "match":
            given = good
        else:
            given = non_matching(good, fx["spec"]["seed"] + KINDS.index(k) + TYPES.index(t) + d + 2 * f + 4 * r + 8 * x)
        args += ["--verify", given]
    arg = kind_arg(fx, k, argstr)
    if arg.startswith("-") and arg != "-":
        args.append("--")                 # an argument that looks like an option
    return args + [arg], arg


def apply_forms(args, nobj, n):
    """The same invocation, written differently (click's documented forms; the meaning must not change): short and
    long names, --opt=value and -oVALUE, a flag repeated with the last occurrence winning, an earlier -t overridden by
    the real one, the options AFTER the objects.  args = options + [--] + the nobj objects; n seeds the choices."""
    r = _random.Random(n)
    opts, objs = list(args[:len(args) - nobj]), list(args[len(args) - nobj:])
    sep = []
    if opts and opts[-1] == "--":
        opts, sep = opts[:-1], ["--"]
    groups, i = [], 0                  # one group per option (with its value)
    short = {"--type": "-t", "--exclude": "-x", "--verify": "-v"}
    long_ = {v: k for k, v in short.items()}
    while i < len(opts):
        o = opts[i]
        if o in short or o in long_:
            name, val = long_.get(o, o), opts[i + 1]
            i += 2
            form = r.randrange(4)
            if name == "--type" and r.random() < 0.3:
                groups.append(["-t", r.choice(TYPES)])             # overridden by the one that follows
            if form == 0:
                groups.append([name, val])
            elif form == 1:
                groups.append([short[name], val])
            elif form == 2:
                groups.append([name + "=" + val])
            else:
                groups.append([short[name] + val] if val and not val.startswith("-") else [short[name], val])
        else:
            i += 1
            if o in ("--recursive", "-r"):
                groups.append([r.choice(["--recursive", "-r"])])
                if r.random() < 0.2:
                    groups.append(["-r"])                          # a flag given twice
            elif o in ("--no-dereference", "--no-filename", "--dereference", "--filename"):
                opposite = o.replace("--no-", "--") if o.startswith("--no-") else "--no-" + o[2:]
                if r.random() < 0.4:
                    groups.append([opposite])                      # the last occurrence wins
                groups.append([o])
            else:
                groups.append([o])
    if not sep and r.random() < 0.4 and not any(x.startswith("-") and x != "-" for x in objs):
        k = r.randrange(len(groups) + 1)                           # (some of) the options after the objects
        return [x for g in groups[:k] for x in g] + objs + [x for g in groups[k:] for x in g]
    return [x for g in groups for x in g] + sep + objs


def non_matching(good, n):
    """a valid core SWHID different from `good`"""
    pre, ver, typ, hx = good.split(":")
    variant = n % 4
    if typ == "ori" or variant == 0:
        return "swh:1:cnt:" + "0" * 40
    if variant == 1:      # one hex digit changed
        i = n % 40
        c = "0" if hx[i] != "0" else "f"
        return ":".join([pre, ver, typ, hx[:i] + c + hx[i + 1:]])
    if variant == 2:      # same hash, another object type
        other = {"cnt": "dir", "dir": "rev", "snp": "rel"}[typ]
        return ":".join([pre, ver, other, hx])
    return ":".join([pre, ver, typ, hx[::-1] if hx[::-1] != hx else "1" * 40])


def canon_run(exit_code, stdout, exc):
    lines = stdout.split("\n")
    if lines and lines[-1] == "":
        lines = lines[:-1]
    ids = sorted(l for l in lines if l.startswith("swh:"))
    res = {"exit": exit_code, "lines": ids, "ordered": [l for l in lines if l.startswith("swh:")],
           "other_lines": len(lines) - len(ids)}
    if exc is not None:
        res["exc"] = exc
    return res


def run_inprocess(args, stdin, cwd=None, wae=False):
    """click's CliRunner.  Its capture stream for stdout is a strict UTF-8 writer, whereas the standard output of a
    real process under the C/POSIX locale (the only ones on this machine) uses surrogateescape; the capture stream
    is given the same error handler so that printing a file name that is not valid UTF-8 behaves as in the real
    command (the subprocess runs check the real thing)."""
    import click.testing
    from click.testing import CliRunner
    from swh.model import cli
    import logging

    base = click.testing._NamedTextIOWrapper

    class Tolerant(base):
        def __init__(self, buffer, name, mode, **kw):
            if mode == "w":
                kw.setdefault("errors", "surrogateescape")
            super().__init__(buffer, name, mode, **kw)

    logging.disable(logging.CRITICAL)
    click.testing._NamedTextIOWrapper = Tolerant
    import warnings
    old = os.getcwd()
    try:
        if cwd is not None:
            os.chdir(cwd)                 # relative spellings: the working directory is changed and restored
        with warnings.catch_warnings():
            if wae:
                warnings.simplefilter("error")    # this case asks for warnings as errors whatever core decided
            r = CliRunner().invoke(cli.identify, args, input=stdin)
    finally:
        os.chdir(old)
        click.testing._NamedTextIOWrapper = base
        logging.disable(logging.NOTSET)
    exc = None
    if r.exception is not None and not isinstance(r.exception, SystemExit):
        exc = type(r.exception).__name__
    return canon_run(r.exit_code, r.stdout_bytes.decode("utf-8", "surrogateescape").replace("\r\n", "\n"), exc)


def run_subprocess(args, stdin, cwd):
    env = dict(os.environ)
    env.update({"PYTHONPATH": core.REPO, "PYTHONIOENCODING": "utf-8:surrogateescape"})
    bargs = [os.fsencode(a) for a in args]
    p = subprocess.run([b"/venv/bin/python", b"-m", b"swh.model.cli"] + bargs, input=stdin if stdin is not None else b"",
                       stdout=subprocess.PIPE, stderr=subprocess.PIPE, env=env, cwd=cwd, timeout=60)
    exc = None
    err = p.stderr.decode("utf-8", "replace")
    if "Traceback (most recent call last)" in err:
        # the exception line is the first unindented line after the last frame (the message may span lines)
        ls = err[err.rindex("Traceback (most recent call last)"):].splitlines()
        lastframe = max(i for i, l in enumerate(ls) if l.startswith("  File "))
        head = next(l for l in ls[lastframe + 1:] if l and not l.startswith(" "))
        exc = head.split(":")[0].split(".")[-1]
    return canon_run(p.returncode, p.stdout.decode("utf-8", "surrogateescape"), exc)


RAW_USAGE = [["-t", "Content", "<file>"], ["-t", "", "<file>"], ["-t", "cnt", "<file>"], ["--type", "all", "<dir>"],
             ["--recursive=1", "<dir>"], ["--foo", "<file>"], ["-z", "<file>"], [], ["-t", "content"], ["--no-filename"],
             ["-v", "<ID>", "<file>"], ["-v", " <id>", "<file>"], ["-v", "<id>;origin=https://x", "<file>"],
             ["-v", "<id2>", "<file>"], ["-v", "", "<file>"], ["-v", "swh:1:cnt:xyz", "<file>"], ["-v", "<idshort>", "<file>"],
             ["-v", "<id>\n", "<file>"], ["-v", "<ori>", "<file>"], ["-v", "<id>", "<file>", "<dir>"], ["-v"],
             ["--verify", "<id>", "-r", "<dir>"], ["-x"], ["--exclude"]]
RAW_SAME = [(["--type=content", "<file>"], ["-t", "content", "<file>"]), (["-tcontent", "<file>"], ["-t", "content", "<file>"]),
            (["<file>", "--no-filename"], ["--no-filename", "<file>"]), (["--no-filename", "--filename", "<file>"], ["<file>"]),
            (["-t", "directory", "-t", "content", "<file>"], ["-t", "content", "<file>"]),
            (["-rx", "sub*", "<dir>"], ["-r", "-x", "sub*", "<dir>"]), (["-x", "sub*", "-x", "sub*", "<dir>"], ["-x", "sub*", "<dir>"]),
            (["-r", "-r", "<dir>"], ["--recursive", "<dir>"]), (["<file>", "-t", "content", "<dir>"], ["-t", "content", "<file>", "<dir>"]),
            (["--", "<file>"], ["<file>"]), (["-xsub*", "<dir>"], ["--exclude=sub*", "<dir>"])]
RAW_HELP = [["-h"], ["--help"], ["-h", "<file>"], ["<file>", "--help"]]
RAW_VERIFY_SHAPES = ["<tok>", "swh:1:<tok>:<hash>", "<id><tok>", "<tok><id>", "swh:<tok>:cnt:<hash>", "<tok>:1:cnt:<hash>",
                     "swh:1:cnt:<tok>"]


def impl_raw(case):
    """invocations outside the table: wrong option values (a usage error, never a traceback), the help, and pairs of
    spellings of one invocation that must give the same result"""
    fx = get_fixture(case["fx"])
    good = fx["ids"]["pathcontent"]
    sub = {"<file>": os.fsdecode(fx["file"]), "<dir>": os.fsdecode(fx["dir"]), "<id>": good, "<ID>": good.upper(),
           "<id2>": good.replace("swh:1:", "swh:2:"), "<idshort>": good[:-1], "<ori>": fx["ids"]["origin:url"]}

    def inst(args):
        out = []
        for a in args:
            for k, v in sub.items():
                a = a.replace(k, v)
            out.append(a)
        return out
    raw = case["raw"]
    if raw["expect"] == "verify":
        # --verify <value built around a literal of the source> <object>: the library's own parser says whether the
        # value is a core SWHID; if it is, the command compares (exit 0 / 1), if not it is a usage error
        from swh.model.swhids import CoreSWHID
        from swh.model.exceptions import ValidationError
        obj = raw["args"][-1]
        value = raw["args"][1].replace("<tok>", raw["tok"]).replace("<hash>", good.split(":")[3]).replace("<id>", good)
        own = {"<file>": good, "<dir>": fx["ids"]["dir:dir:0"], "<gitrepo>": fx["ids"]["dir:gitrepo:0"]}[obj]
        sub["<gitrepo>"] = os.fsdecode(fx["gitrepo"])
        run = run_inprocess(["-v", value, sub[obj]], None)
        try:
            want = 0 if str(CoreSWHID.from_string(value)) == own else 1
        except ValidationError:
            want = 2
        res = {"run": run, "args": ["-v", value, obj], "raw_diff": None}
        if run.get("exc") or run["exit"] != want or run["ordered"]:
            res["raw_diff"] = "exit code %s (exception %s), expected %s (%s)" % (
                run["exit"], run.get("exc"), want, {0: "match", 1: "mismatch", 2: "usage error: not a core SWHID"}[want])
        return res
    run = run_inprocess(inst(raw["args"]), None)
    res = {"run": run, "args": raw["args"], "raw_diff": None}
    if run.get("exc"):
        res["raw_diff"] = "unhandled exception %s" % run["exc"]
    elif raw["expect"] == "usage":
        if run["exit"] != 2 or run["ordered"]:
            res["raw_diff"] = "exit code %s with %d identifier lines, expected a usage error (exit 2)" % (run["exit"], len(run["ordered"]))
    elif raw["expect"] == "help":
        if run["exit"] != 0 or run["ordered"]:
            res["raw_diff"] = "exit code %s, expected the help text and exit 0" % run["exit"]
    else:
        ref = run_inprocess(inst(raw["expect"]), None)
        if (run["exit"], run["lines"], run["other_lines"]) != (ref["exit"], ref["lines"], ref["other_lines"]) or ref.get("exc"):
            res["raw_diff"] = "differs from `%s`: exit %s / %s, lines %r / %r" % (
                " ".join(raw["expect"]), run["exit"], ref["exit"], run["lines"][:2], ref["lines"][:2])
    return res


def impl_hist(case):
    """two invocations in ONE process with the object changed in between (or left alone): the second one must print
    the identifier the library computes for the object as it is NOW - nothing may be remembered between invocations"""
    from swh.model import from_disk
    fx = get_fixture(case["fx"])
    h = case["hist"]
    scratch = tempfile.mkdtemp(prefix=b"hist-", dir=fx["root"])
    try:
        kind, t, d, f = h["kind"], h["type"], h["deref"], h["fname"]
        target_f = os.path.join(scratch, b"target")
        with open(target_f, "wb") as fh:
            fh.write(b"first version\n")
        target_d = os.path.join(scratch, b"tree")
        os.makedirs(os.path.join(target_d, b"sub"))
        with open(os.path.join(target_d, b"sub", b"a"), "wb") as fh:
            fh.write(b"a\n")
        arg = {"file": target_f, "dir": target_d, "linkfile": os.path.join(scratch, b"lf"),
               "linkdir": os.path.join(scratch, b"ld")}[kind]
        if kind == "linkfile":
            os.symlink(b"target", arg)
        if kind == "linkdir":
            os.symlink(b"tree", arg)

        def lib_id():
            if kind in ("linkfile", "linkdir") and not d:
                return str(from_disk.Content.from_bytes(mode=0o120000, data=os.readlink(arg)).swhid())
            real = os.path.realpath(arg)
            if kind in ("file", "linkfile"):
                return str(from_disk.Content.from_file(path=real).swhid())
            return str(from_disk.Directory.from_disk(path=real).swhid())
        args = (["-t", t] if t != "auto" else []) + ([] if d else ["--no-dereference"]) + ([] if f else ["--no-filename"])
        args.append(os.fsdecode(arg))
        res = {"args": args[:-1] + ["<%s>" % kind], "hist_diff": None, "steps": []}
        for step in ("before", h["change"]):
            if step == "rewrite":
                if kind in ("linkfile", "linkdir") and not d:
                    os.unlink(arg)
                    os.symlink(b"elsewhere", arg)                       # the link now says something else
                elif kind in ("file", "linkfile"):
                    with open(target_f, "wb") as fh:                   # same size, same name, other bytes
                        fh.write(b"other version\n")
                else:
                    with open(os.path.join(target_d, b"sub", b"a"), "wb") as fh:
                        fh.write(b"b\n")
            want = lib_id()
            run = run_inprocess(args, None)
            res["steps"].append({"step": step, "exit": run["exit"], "lines": run["ordered"], "want": want})
            line = want + "\t" + os.fsdecode(arg) if f else want
            if run.get("exc") or run["exit"] != 0 or run["ordered"] != [line]:
                res["hist_diff"] = "%s: printed %r (exit %s %s), the library computes %r" % (
                    step, run["ordered"], run["exit"], run.get("exc"), line)
                break
        if not res["hist_diff"] and h["change"] == "rewrite" and res["steps"][0]["want"] == res["steps"][1]["want"]:
            res["hist_diff"] = "harness: the change did not change the identifier"
        return res
    finally:
        shutil.rmtree(scratch, ignore_errors=True)


def impl(case):
    """run the command; everything that needs the fixture on disk is evaluated here, while it exists: the observed
    run and its difference with the observable of the model's / the specification's outcome (driver tokens)"""
    try:
        if "multi" in case:
            return impl_many(case)
        if "raw" in case:
            return impl_raw(case)
        if "hist" in case:
            return impl_hist(case)
        fx = get_fixture(case["fx"])
        cfg = case["cfg"]
        row = table_row(cfg)
        argstr = case.get("argstr")
        idk, cwd = None, None
        if "path" in case:
            # a spelling of a path object: cfg[0] is the kind the spelling makes of it (eff_kind), the identifiers come
            # from the object itself
            sp = case["path"]
            idk = sp["obj"]
            argstr = spelled(fx, fx[idk], sp["spell"], sp.get("rel"))
            cwd = spell_cwd(fx, idk, sp["spell"], sp.get("rel"))
            k_eff = eff_kind(idk, sp["spell"], cfg[2])
            if k_eff == "missing":
                # the spelling names nothing as a path: what it is decides the literal string, as for any other argument
                # that is not a path (a relative 'swh:1:/' has a scheme; an absolute '/tmp/.../swh:1:/' has none)
                k_eff = literal_kind(argstr)
            assert cfg[0] == k_eff or (cfg[0] in STRING_KINDS and k_eff in STRING_KINDS), \
                "case kind is not the effective kind of the spelling"
            if cfg[0] != k_eff:
                case["cfg"][0] = k_eff          # in place: the request for the model's row is built after the run
                cfg = case["cfg"]
                row = table_row(cfg)
        xpats = None
        if case.get("xunder") and idk:
            # --exclude <absolute pattern spelled under the argument's own spelling>
            wd = os.fsencode(cwd) if cwd else os.fsencode(os.getcwd())
            xpats = (under_patterns(argstr, UNDER_SUFFIX[idk], wd, case["xunder"] - 1), argstr, wd)
        args, arg = cli_args(fx, cfg, row, argstr, idk, xpats)
        stdin = fx["stdin"] if cfg[0] == "stdin" else None
        if cfg[0] == "stdin":
            cwd = os.fsdecode(fx["root"])      # where a FILE named '-' exists: the argument '-' is still standard input
        if case.get("oform"):
            args = apply_forms(args, 1, case["oform"])
        if case.get("sub"):
            run = run_subprocess(args, stdin, cwd or os.fsdecode(fx["root"]))
        else:
            run = run_inprocess(args, stdin, cwd, bool(case.get("wae")))
        res = {"run": run, "args": [a if a != arg else "<" + cfg[0] + ">" for a in args[:-1]] + ["<" + cfg[0] + ">"],
               "outcomes": {"model": row["model"], "spec": row["spec"]}}
        if cfg[0] in STRING_KINDS or idk:
            res["argument"] = arg if len(arg) < 200 else arg[:80] + "...(%d characters)" % len(arg)
        old = os.getcwd()
        try:
            base = os.fsencode(cwd) if cwd else fx["root"]
            if cwd or case.get("sub"):
                os.chdir(base)            # relative spellings are looked at from the directory the command ran in
            res["diff_model"] = diff(run, expected(fx, cfg, row["model"], argstr, idk, base, xpats))
            res["diff_spec"] = (res["diff_model"] if row["spec"] == row["model"]
                                else diff(run, expected(fx, cfg, row["spec"], argstr, idk, base, xpats)))
        finally:
            os.chdir(old)
        if xpats:
            res["patterns"] = xpats[0]
        return res
    except Exception as e:
        import traceback
        return {"error": core.exc_class(e), "trace": traceback.format_exc()[-800:]}


# ------------------------------------------------------------------ expected observable of an outcome
def canon_expected(texts):
    """expected output lines through the same canonicalisation as the observed output (an argument may contain a
    newline): (sorted identifier lines, identifier lines in order, number of other lines)"""
    pieces = "\n".join(texts).split("\n") if texts else []
    ids = [q for q in pieces if q.startswith("swh:")]
    return sorted(ids), ids, len(pieces) - len(ids)


def expected(fx, cfg, outcome, argstr=None, idk=None, base=None, xpats=None):
    """canonical observable that the outcome (a driver token such as print,dirpath,1,1,0) stands for; idk: the object
    of the fixture a spelled path designates (its identifiers are those of the canonical object)"""
    k = cfg[0]
    parts = outcome.split(",")
    if parts[0] == "usage":
        return {"exit": 2, "lines": [], "usage": True}
    arg = kind_arg(fx, k, argstr)
    if cfg[1] == "origin" and k != "stdin" and origin_id(arg) is None:
        # out of scope facts that are not in the table: -t origin <path or string that model.Origin refuses (not valid
        # UTF-8, 2048 bytes or more)> is the same usage error as for a refused URL
        return {"exit": 2, "lines": [], "usage": True}
    if parts[0] == "crash" and cfg[1] == "snapshot" and k != "stdin":
        # out of scope (a crash row is never in scope): the class is the one the call itself raises on this argument
        err = snapshot_error(arg)
        if err == "usage":
            return {"exit": 2, "lines": [], "usage": True}
        return {"exit": 1, "lines": [], "exc": err or parts[1]}
    if parts[0] == "crash" and idk and OBJ_KIND.get(idk) in ("dangle", "loop") and cfg[1] in ("content", "directory"):
        # out of scope: the error class for a link that leads nowhere (no such file / too many levels of links) is
        # the one the library call raises on the path the command hands it
        probe = os.fsdecode(os.path.realpath(os.fsencode(arg))) if cfg[2] else arg
        return {"exit": 1, "lines": [], "exc": library_error(cfg[1], probe, bool(cfg[6])) or parts[1]}
    if parts[0] == "crash" and k in STRING_KINDS and cfg[1] in ("content", "directory"):
        # out of scope: which OSError/ValueError the library call raises for a string that is no path depends on the
        # string (no such file, name too long, embedded NUL): ask the library
        return {"exit": 1, "lines": [], "exc": library_error(cfg[1], arg, bool(cfg[6])) or parts[1]}
    if parts[0] in ("exit0", "silent"):
        return {"exit": 0, "lines": []}
    if parts[0] == "exit1":
        return {"exit": 1, "lines": []}
    if parts[0] == "crash":
        return {"exit": 1, "lines": [], "exc": parts[1]}
    assert parts[0] == "print"
    obj, excluded, shown, listing = parts[1], parts[2] == "1", parts[3] == "1", parts[4] == "1"
    if not listing:
        i = origin_id(arg) if obj == "origin" else obj_id(fx, idk or k, obj, excluded, None if idk else argstr, xpats)
        lines, _, other = canon_expected([i + "\t" + arg if shown else i])
        return {"exit": 0, "lines": lines, "other_lines": other}
    if xpats and excluded:
        ids, rel, top, _ = given_tree(fx, os.fsencode(xpats[1]), xpats[0], xpats[2])
    else:
        ids, rel, top, _ = canonical_tree(fx, fx[idk or k], excluded)
    return {"exit": 0, "listing": True, "ids": ids, "rel": rel, "top": top, "base": base or fx["root"], "shown": shown,
            "other_lines": 0}


def diff(obs, exp):
    """None when the observed run is one the outcome allows"""
    if "error" in obs:
        return "harness error " + obs["error"] + " " + obs.get("trace", "")
    if obs["exit"] != exp["exit"]:
        return "exit code %s (exception %s), expected %s%s" % (obs["exit"], obs.get("exc"), exp["exit"],
                                                               " (" + exp["exc"] + ")" if "exc" in exp else "")
    if obs.get("exc") != exp.get("exc"):
        return "unhandled exception %s, expected %s" % (obs.get("exc"), exp.get("exc"))
    if exp.get("listing"):
        got = obs["lines"]
        if exp["shown"]:
            pairs = [tuple(l.split("\t", 1)) if "\t" in l else (l, None) for l in got]
        else:
            pairs = [(l, None) for l in got]
        gids = [p[0] for p in pairs]
        if len(set(gids)) != len(gids):
            return "a node identifier is printed twice in recursive mode"
        if set(gids) != exp["ids"]:
            return "recursive listing: %d identifiers printed, %d nodes in the library's tree; missing %s, extra %s" % (
                len(gids), len(exp["ids"]), sorted(exp["ids"] - set(gids))[:2], sorted(set(gids) - exp["ids"])[:2])
        if exp["shown"]:
            for i, q in pairs:
                if q == "" and (i, None) in exp["rel"]:
                    continue              # a node the library gives no path (special file)
                r = canon_rel(os.fsencode(q), exp["top"], exp["base"]) if q is not None else None
                if r is None or (i, r) not in exp["rel"]:
                    return "recursive listing: line %r does not name a node of the designated directory with that identifier" % ((i, q),)
        elif any("\t" in l for l in got):
            return "file names printed despite --no-filename"
        if obs["other_lines"]:
            return "unexpected extra output lines"
        return None
    if obs["lines"] != exp["lines"]:
        return "printed %r, expected %r" % (obs["lines"][:3], exp["lines"][:3])
    if "other_lines" in exp and obs["other_lines"] != exp["other_lines"]:
        return "unexpected extra output lines"
    return None


# ------------------------------------------------------------------ several OBJECTS in one invocation
# A multi case: {"fx": ..., "multi": {"args": [ref, ...], "type": t, "deref": 0|1, "fname": 0|1, "recur": 0|1,
#                                    "ver": none|match|nonmatch, "patterns": [glob, ...]}}
# ref names an object of the fixture set; REF_KIND gives its kind for the model.
REF_KIND = {"file": "file", "dir": "dir", "dir2": "dir", "lt": "dir", "dir_sub": "dir", "dir_other": "dir",
            "linkfile": "linkfile", "linkdir": "linkdir", "stdin": "stdin", "url": "url", "url2": "url", "url3": "url",
            "gitrepo": "gitrepo", "missing": "missing", "missing2": "missing", "badurl": "badurl", "badurl2": "badurl",
            "refusedurl": "refusedurl", "refusedurl2": "refusedurl",
            "chain2f": "linkfile", "chain3f": "linkfile", "chainx": "linkfile", "chain2d": "linkdir", "midfile": "file",
            "middir": "dir", "dangle": "dangle", "loop1": "loop", "badrefs": "badrefs"}
STRING_REFS = [r for r, k in REF_KIND.items() if k in STRING_KINDS]
UNIDENTIFIABLE = ["missing", "missing2", "badurl", "badurl2", "refusedurl", "refusedurl2"]
DIR_REFS = ["dir", "dir2", "lt", "dir_sub", "dir_other", "gitrepo", "linkdir", "chain2d", "middir", "badrefs"]
# patterns that match a directory of that tree (root-relative, fnmatch) and - mostly - nothing in the other trees
SPECIFIC = {"dir": ["only_A*", "sub*/only_A*"], "dir2": ["only_C*", "*/only_C*"], "lt": ["only_B*", "sub*/only_B*"],
            "linkdir": ["only_B*", "*/only_B*"], "dir_sub": ["deep*", "only_A*"], "dir_other": ["nomatch*"],
            "gitrepo": ["only_G*", "subdir", ".git", "*.git"], "chain2d": ["only_C*", "*/only_C*"],
            "middir": ["deep*", "only_C*"], "badrefs": ["subdir", ".git"]}
GENERIC = ["sub*", "*/deep*", "empty*", "copy*", "only_*", "nomatch*", "*/only_*",
           # patterns that match FILES (the library's filter sees them too), everything, nothing, not a glob class,
           # non-ASCII, and absolute patterns (resolved when the case runs: @abs:<reference>)
           "same*", "x*", "*.c", "README", "*", "", "[", "\u00e9*", "sub*/same*", "@abs:dir_sub", "@abs:dir_other",
           "../*", "nest", "nest/n/n", "fifo*", "*\udcff*", "only_*\udce9*", "*\udcc3(*"]


def resolve_patterns(fx, patterns, m=None, base=None):
    out = []
    for q in patterns:
        if q.startswith("@abs:"):
            q = os.fsdecode(ref_path(fx, q[5:]))
        elif q.startswith("@under:"):
            _, k, how, sfx = q.split(":", 3)      # under the spelling of argument k
            q = under_patterns(m_arg(fx, m, int(k)), [sfx], base, int(how))[0]
        out.append(q)
    return out


_MANY = {}


def ref_path(fx, ref):
    """canonical spelling (bytes) of the path a reference names"""
    return fx["linkdir_target"] if ref == "lt" else fx[ref]


def ref_arg(fx, ref, spell="plain", rel=0):
    """the command-line argument (str) for a reference, spelled the given way"""
    if ref == "stdin":
        return "-"
    if ref in STRING_REFS:
        return fx[ref]
    return spelled(fx, ref_path(fx, ref), spell, rel)


def m_spell(m, i):
    sp = m.get("spells")
    return sp[i] if sp else "plain"


def m_kind(m, i):
    """kind of the i-th argument for the model: the kind its spelling makes of the object (m['kinds'], filled in when
    the case runs, overrides it for a spelling that names nothing: the literal string decides)"""
    if m.get("kinds") and m["kinds"][i]:
        return m["kinds"][i]
    return eff_kind(REF_KIND[m["args"][i]], m_spell(m, i), m["deref"])


def m_arg(fx, m, i):
    return ref_arg(fx, m["args"][i], m_spell(m, i), m.get("rel", 0))


def many_req(m):
    return "many %s %d %d %d %s %d %s" % (m["type"], m["deref"], m["fname"], m["recur"], m["ver"],
                                           1 if m["patterns"] else 0,
                                           ",".join(m_kind(m, i) for i in range(len(m["args"]))) or ".")


def parse_many(line):
    if not line.startswith("ok "):
        raise RuntimeError("driver: " + line)
    return dict(tok.split("=", 1) for tok in line.split()[1:])


def many_row(m):
    rq = many_req(m)
    if rq not in _MANY:
        _MANY[rq] = parse_many(core.run_driver(ID, [rq])[0])
    return _MANY[rq]


def prefetch_many(cases):
    reqs = sorted({many_req(c["multi"]) for c in cases if "multi" in c} - set(_MANY))
    for rq, line in zip(reqs, core.run_driver(ID, reqs)):
        _MANY[rq] = parse_many(line)


def ref_dir(fx, ref, patterns):
    """(ids, relative (id, path) pairs, canonical top, root id) of the library's tree for the CANONICAL directory a
    reference designates (os.path.realpath of it), with the library's own pattern filter rooted there"""
    return canonical_tree(fx, ref_path(fx, ref), bool(patterns), list(patterns))


def ref_obj_id(fx, ref, obj, excluded, patterns, arg=None, given=None):
    """the identifier the library computes for designation `obj` of the argument `ref`"""
    from swh.model import model as M
    ids = fx["ids"]
    kind = REF_KIND[ref]
    if obj in ("pathcontent", "targetfile"):
        return ids.get("content:" + ref, ids["pathcontent"])
    if obj == "linktext":
        return ids["linktext:" + (ref if "linktext:" + ref in ids else kind)]
    if obj in ("empty", "stdin", "snapshot"):
        return ids[obj]
    if obj in ("dirpath", "dirtarget"):
        if excluded and given is not None and any(os.path.isabs(os.fsencode(q)) for q in patterns):
            # an absolute pattern is relative to the spelling of the root it is given with: the library on the path AS GIVEN
            return given_tree(fx, os.fsencode(arg), patterns, given)[3]
        return ref_dir(fx, ref, patterns if excluded else [])[3]
    if obj == "origin":
        return origin_id(arg if arg is not None else ref_arg(fx, ref))
    raise KeyError(obj)


def many_args(fx, m):
    args = []
    if m["type"] != "auto":
        args += ["--type", m["type"]]
    if not m["deref"]:
        args.append("--no-dereference")
    if not m["fname"]:
        args.append("--no-filename")
    if m["recur"]:
        args.append("--recursive")
    for p in m["patterns"]:
        args += ["--exclude", p]
    opts = list(args)
    if m["ver"] != "none":
        good = fx["ids"]["pathcontent"]
        if len(m["args"]) == 1:
            row = table_row([m_kind(m, 0), m["type"], m["deref"], m["fname"], m["recur"], m["ver"],
                             1 if m["patterns"] else 0])
            dk, dx = row["des"].split(",")
            if dk not in ("nothing", "refused", "unreadable"):
                good = ref_obj_id(fx, m["args"][0], dk, dx == "1", m["patterns"], m_arg(fx, m, 0), m.get("_wd")) or good
        args += ["--verify", good if m["ver"] == "match" else non_matching(good, len(m["args"]))]
    objs = [m_arg(fx, m, i) for i in range(len(m["args"]))]
    if any(o.startswith("-") and o != "-" for o in objs):
        args.append("--")
        opts = opts + ["--"]
    return args + objs, opts


def expected_many(fx, m, run):
    """observable of a run token  <line>|<line>;<end>"""
    lines_tok, end = run.split(";")
    lines = [] if lines_tok == "." else [l.split(",") for l in lines_tok.split("|")]
    exp = {"exit": {"done": 0, "usage": 2, "exit0": 0, "exit1": 1}.get(end.split(",")[0], 1), "other_lines": 0}
    if end.startswith("crash"):
        exp["exc"] = end.split(",")[1]
    if len(lines) == 1 and lines[0][3] == "1":         # -r: the listing of the FIRST argument
        if lines[0][1] == "1" and m.get("_wd") is not None and any(os.path.isabs(os.fsencode(q)) for q in m["patterns"]):
            ids, rel, top, _ = given_tree(fx, os.fsencode(m_arg(fx, m, 0)), m["patterns"], m["_wd"])
        else:
            ids, rel, top, _ = ref_dir(fx, m["args"][0], m["patterns"] if lines[0][1] == "1" else [])
        exp.update({"listing": True, "ids": ids, "rel": rel, "top": top, "base": fx["root"], "shown": lines[0][2] == "1"})
        return exp
    out = []
    for k, (ref, (obj, ex, sh, ls)) in enumerate(zip(m["args"], lines)):
        i = ref_obj_id(fx, ref, obj, ex == "1", m["patterns"], m_arg(fx, m, k), m.get("_wd"))
        if i is None:                                  # -t origin <something model.Origin refuses> (out of scope):
            exp.update({"exit": 2})                    # the usage error of a refused URL, after the lines before it
            exp.pop("exc", None)
            exp.pop("other_lines", None)
            end = "usage"
            break
        out.append(i + "\t" + m_arg(fx, m, k) if sh == "1" else i)
    if (end in ("exit0", "exit1") and m["type"] == "origin" and REF_KIND[m["args"][0]] != "stdin"
            and origin_id(m_arg(fx, m, 0)) is None):
        exp.update({"exit": 2})                                  # same out-of-scope case under --verify
    if end.startswith("crash") and m["type"] == "snapshot" and len(lines) < len(m["args"]):
        err = snapshot_error(m_arg(fx, m, len(lines)))           # out of scope: ask the call itself
        if err == "usage":
            exp.update({"exit": 2})
            exp.pop("exc", None)
        elif err:
            exp["exc"] = err
    if end.startswith("crash") and m["type"] in ("content", "directory") and len(lines) < len(m["args"]):
        bad = len(lines)
        if m_kind(m, bad) in STRING_KINDS:                       # which error a string that is no path gets: ask the library
            exp["exc"] = library_error(m["type"], m_arg(fx, m, bad), bool(m["patterns"])) or exp["exc"]
    _, exp["ordered"], other = canon_expected(out)
    if end != "done":
        exp.pop("other_lines", None)
    else:
        exp["other_lines"] = other
    return exp


def diff_many(obs, exp):
    if exp.get("listing"):
        return diff(obs, exp)
    if obs["exit"] != exp["exit"]:
        return "exit code %s (exception %s), expected %s" % (obs["exit"], obs.get("exc"), exp["exit"])
    if obs.get("exc") != exp.get("exc"):
        return "unhandled exception %s, expected %s" % (obs.get("exc"), exp.get("exc"))
    if obs["ordered"] != exp["ordered"]:
        for k, (a, b) in enumerate(zip(obs["ordered"] + [None] * len(exp["ordered"]), exp["ordered"])):
            if a != b:
                return "line %d (argument #%d): printed %r, the library computes %r" % (k + 1, k + 1, a, b)
        return "%d lines printed, %d expected" % (len(obs["ordered"]), len(exp["ordered"]))
    if "other_lines" in exp and obs["other_lines"] != exp["other_lines"]:
        return "unexpected extra output lines"
    return None


def impl_many(case):
    fx = get_fixture(case["fx"])
    m = dict(case["multi"])
    if m.get("spells"):
        kinds = [None] * len(m["args"])
        for i, r in enumerate(m["args"]):
            if r not in STRING_REFS and r != "stdin" and eff_kind(REF_KIND[r], m_spell(m, i), m["deref"]) == "missing":
                lk = literal_kind(ref_arg(fx, r, m_spell(m, i), m.get("rel", 0)))
                if lk != "missing":
                    kinds[i] = lk
        if any(kinds):
            case["multi"]["kinds"] = kinds      # in place: the request for the model's run is built after the run
            m["kinds"] = kinds
    wd = fx["root"] if m.get("rel") or "stdin" in m["args"] else os.fsencode(os.getcwd())
    m["patterns"] = resolve_patterns(fx, m["patterns"], m, wd)
    m["_wd"] = wd
    row = many_row(m)
    args, opts = many_args(fx, m)
    stdin = fx["stdin"] if "stdin" in m["args"] else None
    cwd = os.fsdecode(fx["root"]) if m.get("rel") or "stdin" in m["args"] else None
    if case.get("oform") and m["args"]:
        args = apply_forms(args, len(m["args"]), case["oform"])
    if case.get("sub"):
        run = run_subprocess(args, stdin, os.fsdecode(fx["root"]))
    else:
        run = run_inprocess(args, stdin, cwd)
    shown = ["<%s%s>" % (r, "" if m_spell(m, i) == "plain" else ":" + m_spell(m, i)) for i, r in enumerate(m["args"])]
    res = {"run": run, "args": args[:len(args) - len(m["args"])] + shown,
           "outcomes": {"model": row["model"], "spec": row["spec"]}}
    if m.get("spells"):
        res["arguments"] = [a if len(a) < 200 else a[:80] + "..." for a in args[len(args) - len(m["args"]):]]
    old = os.getcwd()
    try:
        os.chdir(fx["root"])               # relative spellings are looked at from the directory the command ran in
        res["diff_model"] = diff_many(run, expected_many(fx, m, row["model"]))
        if row["inscope"] != "1":
            res["diff_spec"] = None            # the property says nothing; the model is still compared
        elif row["spec"] == row["model"]:
            res["diff_spec"] = res["diff_model"]
        else:
            res["diff_spec"] = diff_many(run, expected_many(fx, m, row["spec"]))
    finally:
        os.chdir(old)
    # the same arguments, one invocation each, same options: in scope the lines must be the same, in order
    if row["inscope"] == "1" and m["ver"] == "none" and not m["recur"] and len(m["args"]) > 1 and not res["diff_model"]:
        alone, alone_exit = [], 0
        for k, r in enumerate(m["args"]):
            one = run_inprocess(opts + [m_arg(fx, m, k)], fx["stdin"] if r == "stdin" else None, cwd)
            if one.get("exc"):
                alone = None
                res["diff_alone"] = "argument %s alone: unhandled %s" % (r, one.get("exc"))
                break
            alone += one["ordered"]
            if one["exit"] != 0:                      # an argument that cannot be identified ends the run there
                alone_exit = one["exit"]
                break
        if alone is not None and alone_exit != run["exit"]:
            res["diff_alone"] = "exit code %s in one invocation, %s with one invocation per argument" % (run["exit"], alone_exit)
        elif alone is not None and alone != run["ordered"]:
            k = next((i for i, (a, b) in enumerate(zip(run["ordered"], alone)) if a != b), min(len(alone), len(run["ordered"])))
            res["diff_alone"] = "line %d: %r in one invocation, %r when argument #%d is given alone" % (
                k + 1, run["ordered"][k] if k < len(run["ordered"]) else None, alone[k] if k < len(alone) else None, k + 1)
    return res


def _pick_patterns(rng, refs, n):
    """n patterns; the first one matches something in a directory argument other than the first (when there is one)"""
    dirs = [r for r in refs if r in SPECIFIC]
    pats = []
    later = [r for r in dirs[1:] if r != dirs[0]] or dirs[1:] or dirs
    if later:
        pats.append(rng.choice(SPECIFIC[rng.choice(later)] if later[0] != dirs[0] or rng.random() < 0.5 else GENERIC[:1]))
    while len(pats) < n:
        src = rng.random()
        if src < 0.15:
            # built around a literal of the source under test: the token, *token*, token*
            t = rng.choice(str_tokens())
            pats.append(rng.choice([t, "*" + t + "*", t + "*", "*/" + t]))
            continue
        if src < 0.4 and dirs:
            pats.append(rng.choice(SPECIFIC[dirs[0]]))          # matches in the first, mostly not in the others
        elif src < 0.7 and dirs:
            pats.append(rng.choice(SPECIFIC[rng.choice(dirs)]))
        else:
            pats.append(rng.choice(GENERIC))
    out = []
    for q in pats:
        if not q.startswith("@") and rng.random() < 0.2:
            # the pattern as a shell or a careless user would write it: the library takes it literally
            q = rng.choice([q + "/", q + "//", "./" + q, q + "/.", "/" + q if False else q + "/"])
        if q not in out or rng.random() < 0.3:      # now and then the same pattern twice
            out.append(q)
    return out


def gen_many(rng, fx, n):
    cases = []
    allrefs = list(REF_KIND)
    for i in range(n):
        fam = rng.random()
        m = {"type": "auto", "deref": 1, "fname": rng.choice([1, 1, 0]), "recur": 0, "ver": "none", "patterns": []}
        k = rng.choice([2, 2, 3, 3, 4, 5])
        if fam < 0.45:
            # directories (the same one twice, different ones, nested ones) with exclusion patterns
            first = rng.choice(DIR_REFS)
            refs = [first] + [rng.choice(DIR_REFS) if rng.random() < 0.8 else first for _ in range(k - 1)]
            if rng.random() < 0.3:
                refs.insert(rng.randrange(len(refs) + 1), rng.choice(["file", "linkfile", "url", "stdin"]))
            m["type"] = rng.choice(["auto", "auto", "directory"]) if all(r in DIR_REFS for r in refs) else "auto"
            m["deref"] = 1 if "linkdir" in refs and m["type"] == "directory" else rng.choice([1, 1, 0])
            m["patterns"] = _pick_patterns(rng, refs, rng.choice([1, 1, 2, 3]))
        elif fam < 0.7:
            # mixed kinds, automatic type; now and then an argument that cannot be identified, at any position
            identifiable = [r for r in allrefs if r not in UNIDENTIFIABLE]
            refs = [rng.choice(identifiable) for _ in range(k)]
            if rng.random() < 0.35:
                refs.insert(rng.randrange(len(refs) + 1), rng.choice(UNIDENTIFIABLE))
            m["deref"] = rng.choice([1, 0])
            m["patterns"] = _pick_patterns(rng, refs, rng.choice([0, 0, 1, 2]))
        elif fam < 0.85:
            # an explicit type with arguments it suits
            t = rng.choice(["content", "content", "origin", "snapshot", "directory"])
            pool = {"content": ["file", "linkfile", "stdin", "file", "linkfile", "chain2f", "chain3f", "chainx", "midfile"],
                    "origin": ["url", "url2", "url3", "url", "refusedurl"],
                    "snapshot": ["gitrepo", "gitrepo", "badrefs"], "directory": [r for r in DIR_REFS if r != "linkdir"] + ["linkdir"]}[t]
            refs = [rng.choice(pool) for _ in range(k)]
            m["type"] = t
            m["deref"] = 1 if t == "directory" else rng.choice([1, 0])
            if t == "content" and not m["deref"] and rng.random() < 0.5:
                refs.append("linkdir")                       # a link that is not followed is a content
            m["patterns"] = _pick_patterns(rng, refs, rng.choice([0, 1, 2]))
        else:
            # anything: --verify with several arguments, --recursive (first argument a directory or not), explicit
            # types that do not suit every argument (an error after the lines of the arguments before it)
            refs = [rng.choice(allrefs) for _ in range(rng.choice([1, 2, 3, 4]))]
            m["type"] = rng.choice(TYPES)
            m["deref"] = rng.choice([1, 0])
            m["recur"] = rng.choice([0, 1])
            m["ver"] = rng.choice(["none", "none", "match", "nonmatch"])
            m["patterns"] = _pick_patterns(rng, refs, rng.choice([0, 1, 2]))
        seen = False
        out = []
        for r in refs:                                      # '-' at most once
            if r == "stdin":
                if seen:
                    continue
                seen = True
            if (REF_KIND[r] in ("dangle", "loop") and m["type"] in ("content", "directory")
                    and not (m["type"] == "content" and not m["deref"])):
                continue        # an explicit file-system type on a link that leads nowhere: not in the table
            out.append(r)
        out = out or ["file"]
        m["args"] = out
        if rng.random() < 0.45:
            # spell the path arguments: trailing separators, ./, //, d/../x through a real directory and through a link
            # to a directory elsewhere (decoy or nothing at the lexical collapse); all relative to the root or absolute
            spells = []
            for r in out:
                if r in STRING_REFS or r == "stdin" or rng.random() < 0.3:
                    spells.append("plain")
                    continue
                pool = [q for q in SPELLINGS if q != "plain" and q not in CWD_SPELLINGS
                        and (q not in TOP_ONLY or r not in NOT_IN_ROOT)]
                if REF_KIND[r] in ("file", "linkfile", "dangle", "loop"):
                    pool = [q for q in pool if eff_kind(REF_KIND[r], q, m["deref"]) != "missing" or rng.random() < 0.1]
                spells.append(rng.choice(pool + ["uplink"] * (0 if r in NOT_IN_ROOT else 3)) if pool else "plain")
            m["spells"] = spells
            m["rel"] = rng.choice([0, 1])
        # absolute patterns: spelled under the spelling of one of the directory arguments (the reference is then the
        # library on every path as given)
        dirs = [i for i, r in enumerate(m["args"]) if r in UNDER_SUFFIX]
        if dirs and rng.random() < 0.3:
            for _ in range(rng.choice([1, 1, 2])):
                i = rng.choice(dirs)
                m["patterns"] = m["patterns"] + ["@under:%d:%d:%s" % (i, rng.choice([0, 1]), rng.choice(UNDER_SUFFIX[m["args"][i]]))]
        cases.append({"fx": fx, "multi": m})
    return cases


# ------------------------------------------------------------------ harness API
def gen(rng, tier):
    nsets = 2 if tier == "quick" else 10
    cases = []
    cfgs = all_cfgs()
    for s in range(nsets):
        fx = {"seed": rng.randrange(1, 10 ** 9)}
        fx["url_noauth"] = s % 2         # a URL without / with an empty authority (file:///x, lp:x, mailto:x)
        fx["symrefs"] = (s + 1) % 2      # the git repository has symbolic references besides HEAD
        fx["oddrefs"] = s % 2            # ... and references to a tree / a blob
        # the state of the git repository and what makes the other repository's references unreadable
        fx["gitstate"] = rng.choice(GIT_STATES) if tier == "quick" else GIT_STATES[s % len(GIT_STATES)]
        fx["badrefs"] = "empty" if s % 3 != 2 else rng.choice(["garbage", "truncated"])
        fx["xset"] = rng.randrange(len(EXCLUDE_SETS))       # which patterns `exclude = yes` stands for in the table
        if s % 3 == 0:
            fx["toknames"] = 1           # files / directories / links named after literals of the source under test
            toks = str_tokens()
            fx["xtokens"] = [rng.choice([t, "*" + t + "*", t + "*", t + "/"]) for t in rng.sample(toks, 2)]
        if s % 2 == 1:
            fx["dashnames"] = 1          # the file argument's name starts with '-'
        if s % 4 == 1 or (tier == "thorough" and s % 4 == 3):
            fx["empties"] = 1            # the file argument and standard input are EMPTY
        elif s % 4 == 2:
            fx["bigstdin"] = 1           # standard input of several read blocks
        if s % 2 == 1:
            fx["nonutf8"] = 1            # names inside the trees and link texts that are not valid UTF-8
            fx["nonutf8_arg"] = 1        # ... and the names of the arguments themselves
        if s % 3 == 2 or (tier == "quick" and s == 1):
            fx["explicit_defaults"] = 1  # --dereference / --filename / --type auto spelled out
            fx["explicit_auto"] = 1
        for c in cfgs:
            if tier == "quick" and s > 0 and c[0] in ("missing", "badurl", "refusedurl"):
                continue          # quick tier: the rows of the string kinds once (the string route varies the strings)
            case = {"fx": fx, "cfg": c}
            if rng.random() < 0.25:
                case["oform"] = rng.randrange(1, 10 ** 6)      # the same row, the options written another way
            cases.append(case)
        for c in rng.sample(cfgs, 12 if tier == "quick" else 25):
            cases.append({"fx": fx, "cfg": c, "sub": 1})
        if s == 0 or (tier == "thorough" and s < 3):
            cases += gen_strings(rng, fx, tier)
        cases += gen_spellings(rng, fx, tier)
        cases += gen_raw_hist(rng, fx, tier, s)
        many = gen_many(rng, fx, 150 if tier == "quick" else 600)
        for c in many:
            if rng.random() < 0.3:
                c["oform"] = rng.randrange(1, 10 ** 6)
        # no argument at all, and a long list of arguments
        many.append({"fx": fx, "multi": {"args": [], "type": "auto", "deref": 1, "fname": 1, "recur": 0, "ver": "none", "patterns": []}})
        pool = [r for r in REF_KIND if r not in UNIDENTIFIABLE and REF_KIND[r] not in ("dangle", "loop", "stdin")]
        many.append({"fx": fx, "multi": {"args": [rng.choice(pool) for _ in range(40 if tier == "quick" else 150)], "type": "auto",
                                         "deref": rng.choice([0, 1]), "fname": 1, "recur": 0, "ver": "none", "patterns": ["sub*"]}})
        for c in rng.sample(many, 4 if tier == "quick" else 15):
            many.append({"fx": fx, "multi": c["multi"], "sub": 1})
        cases += many
    prefetch_many(cases)
    return cases


def gen_spellings(rng, fx, tier):
    """every path object x every spelling (x relative to the fixture root as working directory) under a handful of
    option combinations: automatic and matching explicit type, with and without --dereference, --recursive, --verify
    with the identifier of the canonical object, --exclude; a few through the real subprocess"""
    cases, subs = [], []
    for obj in OBJ_KIND:
        natural = {"file": "content", "linkfile": "content", "dir": "directory", "linkdir": "directory", "gitrepo": "directory",
                   "dangle": "content", "loop": "content", "badrefs": "snapshot", "fifo": "auto"}[OBJ_KIND[obj]]
        if obj == "gitdir":
            natural = "snapshot"
        spells = [q for q in SPELLINGS if spelling_applies(obj, q, fx)]
        if not spells:
            continue
        if tier == "quick" and obj in CHAIN_OBJS:
            # quick tier: a chain plain, through the link elsewhere, and two more spellings
            keep = ["plain"] + (["uplink"] if "uplink" in spells else [])
            spells = keep + rng.sample([q for q in spells if q not in keep], 1)
        elif tier == "quick":
            keep = [q for q in spells if q in ("plain", "uplink", "slash", "cwddot", "cwdup")]
            spells = keep + rng.sample([q for q in spells if q not in keep], 2)
        for spell in spells:
            for rel in ((0,) if spell in CWD_SPELLINGS or spell == "lead2" else (0, 1)):
                combos = [("auto", 1, 1, 0, "none", 0), ("auto", 0, 0, 0, "match", 1), (natural, 1, 1, 1, "none", 1),
                          ("auto", 1, 0, 1, "none", 0), (natural, 0, 1, 0, "match", 0), ("auto", 0, 1, 1, "nonmatch", 0)]
                if tier == "quick":
                    combos = [combos[0]] + rng.sample(combos[1:], 2 if spell in ("uplink", "dotdotself", "slash") else 1)
                if obj in CHAIN_OBJS:
                    if tier == "thorough":
                        combos = [combos[0]] + rng.sample(combos[1:], 3)
                    combos = combos + [("auto", 1, 1, 0, "match", 0)]      # a chain followed, verified with the true id
                for (t, d, f, r, v, x) in combos:
                    k = eff_kind(obj, spell, d)
                    if k == "missing":
                        t = rng.choice(["auto", "auto", natural])
                        if OBJ_KIND[obj] in ("dangle", "loop", "fifo"):
                            t = rng.choice(["auto", "auto", "origin"])     # explicit content/directory: not in the table
                    elif OBJ_KIND[obj] in ("dangle", "loop") and t == "directory":
                        t = "auto"
                    c = {"fx": fx, "cfg": [k, t, d, f, r, v, x], "path": {"obj": obj, "spell": spell, "rel": rel}}
                    if rng.random() < 0.3:
                        c["oform"] = rng.randrange(1, 10 ** 6)
                    cases.append(c)
                if obj in UNDER_SUFFIX:
                    # an ABSOLUTE exclusion pattern spelled under the argument's own spelling
                    for how in (rng.choice([1, 2]),):
                        t, d, f, r, v = rng.choice([("auto", 1, 1, 0, "none"), ("auto", 1, 0, 0, "match"),
                                                    ("directory", 1, 1, 1, "none"), ("auto", 0, 1, 0, "none"),
                                                    ("auto", 1, 1, 1, "none")])
                        k = eff_kind(obj, spell, d)
                        if k in ("dir", "linkdir", "gitrepo", "badrefs"):
                            cases.append({"fx": fx, "cfg": [k, t, d, f, r, v, 1], "xunder": how,
                                          "path": {"obj": obj, "spell": spell, "rel": rel}})
                    if spell != "plain":
                        subs.append(dict(c, sub=1))
    return cases + rng.sample(subs, 4 if tier == "quick" else 15)


def gen_raw_hist(rng, fx, tier, s):
    cases = []
    if s == 0 or tier == "thorough":
        cases += [{"fx": fx, "raw": {"args": a, "expect": "usage"}} for a in RAW_USAGE]
        cases += [{"fx": fx, "raw": {"args": a, "expect": "help"}} for a in RAW_HELP]
        cases += [{"fx": fx, "raw": {"args": a, "expect": b}} for a, b in RAW_SAME]
        toks = str_tokens()
        for t in ["cnt", "dir", "snp", "rev", "rel", "ori"] + (rng.sample(toks, 12) if tier == "quick" else toks):
            for shape in (RAW_VERIFY_SHAPES if t in ("cnt", "dir", "snp", "rev", "rel", "ori") or tier == "thorough"
                          else rng.sample(RAW_VERIFY_SHAPES, 2)):
                cases.append({"fx": fx, "raw": {"args": ["-v", shape, rng.choice(["<file>", "<dir>", "<gitrepo>"])],
                                                "expect": "verify", "tok": t}})
    for kind in ("file", "dir", "linkfile", "linkdir"):
        natural = "content" if kind in ("file", "linkfile") else "directory"
        for change in ("rewrite", "same"):
            for (t, d, f) in [("auto", 1, 1), ("auto", 0, 0), (natural, 1, 0)]:
                if kind == "linkdir" and t == "directory" and not d:
                    continue
                if kind in ("linkfile", "linkdir") and t == natural and not d and natural == "directory":
                    continue
                cases.append({"fx": fx, "hist": {"kind": kind, "type": t, "deref": d, "fname": f, "change": change}})
    return cases


def gen_strings(rng, fx, tier):
    """arguments that name no existing path, one by one: every family of string_pool() plus random short strings, under
    --type auto and every explicit type, a few option combinations each, a few through the real subprocess"""
    strings = string_pool(rng) + random_strings(rng, 25 if tier == "quick" else 200)
    # the literals of the source under test, alone, as a scheme, as a host, spliced into a path that does not exist
    from . import gitobj_common as G
    toks = str_tokens()
    for t in (rng.sample(toks, 20) if tier == "quick" else toks):
        strings += [t, t + ":x", "https://" + t + "/x", G.splice_token(rng, "no/such/path%d" % rng.randrange(1000), "str")]
    combos = [(1, 1, 0, "none", 0), (0, 0, 1, "nonmatch", 1), (1, 0, 0, "match", 0), (0, 1, 1, "none", 1)]
    cases, subs = [], []
    for st in strings:
        kd = classify_string(st)
        if kd is None:
            continue
        for t in TYPES:
            if t == "snapshot" and opens_as_repo(st):
                continue
            for (d, f, r, v, x) in (combos if t in ("auto", "origin") or tier == "thorough" else combos[1:2]):
                cases.append({"fx": fx, "cfg": [kd, t, d, f, r, v, x], "argstr": st})
        if "\x00" not in st:
            subs.append({"fx": fx, "cfg": [kd, rng.choice(["auto", "auto", "origin", "content"]), 1, 1, 0, "none", 0],
                         "argstr": st, "sub": 1})
    return cases + rng.sample(subs, min(len(subs), 8 if tier == "quick" else 20))


def nontrivial(c):
    if "raw" in c:
        return len(c["raw"]["args"]) >= 2
    if "hist" in c:
        return True
    if "multi" in c:
        m = c["multi"]
        return len(m["args"]) >= 2 and ((m["type"] != "auto") + (not m["deref"]) + (not m["fname"]) + bool(m["recur"])
                                        + (m["ver"] != "none") + bool(m["patterns"]) >= 1)
    k, t, d, f, r, v, x = c["cfg"]
    spelt = "path" in c and (c["path"]["spell"] != "plain" or c["path"].get("rel"))
    return (t != "auto") + (not d) + (not f) + bool(r) + (v != "none") + bool(x) + bool(spelt) >= 2


def classify(c):
    if "raw" in c:
        return ["raw-invocation", "raw:" + (c["raw"]["expect"] if isinstance(c["raw"]["expect"], str) else "same-as")] + (
            ["raw:verify-token=" + c["raw"]["tok"]] if c["raw"].get("tok") in ("cnt", "dir", "snp", "rev", "rel", "ori") else [])
    if "hist" in c:
        return ["history", "history:%s:%s" % (c["hist"]["kind"], c["hist"]["change"])]
    if "multi" in c:
        m = c["multi"]
        row = many_row(m)
        ks = ["several-arguments", "several:n=%d" % len(m["args"]), "several:end=" + row["model"].split(";")[1].split(",")[0],
              "several:in-scope" if row["inscope"] == "1" else "several:out-of-scope"]
        ndirs = sum(1 for r in m["args"] if r in DIR_REFS)
        if m["patterns"] and ndirs >= 2:
            ks.append("several:exclude-with->=2-directories")
        if len(set(m["args"])) < len(m["args"]):
            ks.append("several:same-argument-twice")
        if m["recur"]:
            ks.append("several:recursive")
        if m["ver"] != "none":
            ks.append("several:verify")
        if c.get("sub"):
            ks.append("subprocess")
        for q in set(m.get("spells") or []):
            if q != "plain":
                ks.append("several:spelling=" + q)
        if m.get("rel"):
            ks.append("several:relative")
        return ks
    k, t, d, f, r, v, x = c["cfg"]
    row = table_row(c["cfg"])
    ks = ["kind=" + k, "type=" + t, "model=" + row["model"].split(",")[0],
          "in-scope" if row["inscope"] == "1" else "out-of-scope"]
    if "xunder" in c:
        ks.append("absolute-pattern-under-the-argument's-spelling")
    if "path" in c:
        ks.append("spelling=%s%s" % (c["path"]["spell"], ":relative" if c["path"].get("rel") else ""))
        ks.append("spelt:%s->%s" % (c["path"]["obj"], k))
    if "argstr" in c:
        st = c["argstr"]
        ks.append("string-argument")
        for name, test in (("brackets", "[" in st or "]" in st), ("NUL", "\x00" in st), ("newline", "\n" in st),
                           ("not-UTF-8", any(0xdc80 <= ord(ch) <= 0xdcff for ch in st)), ("long", len(st) > 2000),
                           ("empty-or-blank", not st.strip()), ("leading-dash", st.startswith("-"))):
            if test:
                ks.append("string:" + name)
    if c.get("sub"):
        ks.append("subprocess")
    if r:
        ks.append("recursive")
    if v != "none":
        ks.append("verify=" + v)
    return ks


def requests(c):
    if "raw" in c or "hist" in c:
        return ["count"]               # nothing of the table is involved
    if "multi" in c:
        return [many_req(c["multi"])]
    return [cfg_req(c["cfg"])]


def model(c, resp):
    if "raw" in c or "hist" in c:
        return {"count": resp[0]}
    if "multi" in c:
        return parse_many(resp[0])
    return parse_row(resp[0])


def oracle(c, ires, mres):
    """the property on the implementation: in scope, the command behaves as the specification says"""
    if "error" in ires:
        return None          # harness failure: reported by compare()
    if "raw_diff" in ires or "hist_diff" in ires:
        why = ires.get("raw_diff") or ires.get("hist_diff")
        return "%s: %s" % (" ".join(ires["args"]), why) if why else None
    if mres.get("inscope") != "1":
        return None
    if ires["outcomes"]["spec"] != mres["spec"]:
        return None
    if ires["diff_spec"]:
        return "%s%s: spec %s: %s" % (" ".join(ires["args"]), " = %r" % ires["argument"] if "argument" in ires else "",
                                      mres["spec"], ires["diff_spec"])
    if ires.get("diff_alone"):
        return "%s: %s" % (" ".join(ires["args"]), ires["diff_alone"])
    return None


def compare(c, ires, mres):
    if "error" in ires:
        return "harness error " + ires["error"] + " " + ires.get("trace", "")
    if "raw" in c or "hist" in c:
        return None
    if ires["outcomes"] != {"model": mres.get("model"), "spec": mres.get("spec")}:
        return "driver answers differ between two calls: %r / %r" % (ires["outcomes"], mres)
    if ires["diff_model"]:
        return "%s: identify_model %s: %s" % (" ".join(ires["args"]), mres["model"], ires["diff_model"])
    return None


def shrink(c):
    if "raw" in c or "hist" in c:
        return
    if "multi" in c:
        m = c["multi"]
        def mk(**kw):
            return {"fx": c["fx"], "multi": dict(m, **kw)}
        if c.get("sub"):
            yield mk()
        for i in range(len(m["args"])):
            if len(m["args"]) > 1:
                if m.get("spells"):
                    yield mk(args=m["args"][:i] + m["args"][i + 1:], spells=m["spells"][:i] + m["spells"][i + 1:])
                else:
                    yield mk(args=m["args"][:i] + m["args"][i + 1:])
        if m.get("spells"):
            for i, q in enumerate(m["spells"]):
                if q != "plain":
                    sp = list(m["spells"])
                    sp[i] = "plain"
                    if eff_kind(REF_KIND[m["args"][i]], q, m["deref"]) == eff_kind(REF_KIND[m["args"][i]], "plain", m["deref"]):
                        yield mk(spells=sp)
            if m.get("rel"):
                yield mk(rel=0)
        for i in range(len(m["patterns"])):
            yield mk(patterns=m["patterns"][:i] + m["patterns"][i + 1:])
        for key, dflt in (("type", "auto"), ("deref", 1), ("fname", 1), ("recur", 0), ("ver", "none")):
            if m[key] != dflt:
                yield mk(**{key: dflt})
        if not m.get("spells"):
            for i, r in enumerate(m["args"]):
                for simpler in ("dir", "file"):
                    if r != simpler and REF_KIND[r] == REF_KIND[simpler]:
                        yield mk(args=m["args"][:i] + [simpler] + m["args"][i + 1:])
        return
    k, t, d, f, r, v, x = c["cfg"]
    extra = {"argstr": c["argstr"]} if "argstr" in c else {}
    if "path" in c:
        extra["path"] = c["path"]
    if "xunder" in c:
        extra["xunder"] = c["xunder"]
    if "wae" in c:
        extra["wae"] = c["wae"]
    if c.get("sub"):
        yield dict({"fx": c["fx"], "cfg": c["cfg"]}, **extra)
    for i, dflt in ((1, "auto"), (2, 1), (3, 1), (4, 0), (5, "none"), (6, 0)):
        if c["cfg"][i] != dflt:
            cfg = list(c["cfg"])
            cfg[i] = dflt
            yield dict({"fx": c["fx"], "cfg": cfg}, **extra)
    if "argstr" in c:
        st = c["argstr"]
        for cand in [st[:len(st) // 2], st[len(st) // 2:], st[1:], st[:-1]]:
            if cand != st and classify_string(cand) == k:
                yield {"fx": c["fx"], "cfg": c["cfg"], "argstr": cand}


def pre_checks(ctx):
    """(1) the Python enumeration of configurations is the model's all_cfgs;
    (2) outside the one-argument table: several OBJECTS print one line each in order, and --verify with two
    objects is the documented usage error ("verification requires a single object")"""
    bad = []
    resp = core.run_driver(ID, ["count"])
    if resp != ["ok %d" % len(all_cfgs())]:
        bad.append(("table:all_cfgs", "driver enumerates %s configurations, the harness %d" % (resp, len(all_cfgs()))))
    try:
        fx = get_fixture({"seed": 18003})
        ids = fx["ids"]
        f, lf, d = os.fsdecode(fx["file"]), os.fsdecode(fx["linkfile"]), os.fsdecode(fx["dir"])
        r = run_inprocess(["--no-dereference", f, lf, d], None)
        want = sorted([ids["pathcontent"] + "\t" + f, ids["linktext:linkfile"] + "\t" + lf, ids["dir:dir:0"] + "\t" + d])
        if r["exit"] != 0 or r["lines"] != want:
            bad.append(("correspondence:several-objects", "identify --no-dereference f lf d: %r, expected %r" % (r, want)))
        r = run_inprocess(["--verify", ids["pathcontent"], f, lf], None)
        if r["exit"] != 2 or r.get("exc") or r["lines"]:
            bad.append(("correspondence:verify-two-objects", "identify --verify ID f lf: %r, expected a usage error" % (r,)))
    except Exception as e:
        bad.append(("correspondence:several-objects", "pre-check crashed: %r" % (e,)))
    return bad


# functions of /repo whose executed-line coverage by this run is reported in the evidence
ANCHORS = [('swh/model/cli.py', 'identify'),
           ('swh/model/cli.py', 'identify_object'),
           ('swh/model/cli.py', 'swhid_of_*'),
           ('swh/model/cli.py', 'model_of_dir')]


# the decision table is small and cheap: coq_cases gets every case and evaluates every distinct configuration of the stream
# (it shrinks the list it is given IN PLACE: the evidence's `n` is the number of rows evaluated)
COQ_SAMPLE = 1 << 30


def coq_cases(cases):
    """several-arguments rows (in_scope_many, identify_many, spec_many; up to 600 distinct requests) and
    every row of the decision table (in_scope, in_scope_literal, designated, identify_model, spec, spec_strict and the five
    pre-repair variants) evaluated by vm_compute inside Coq vs the extracted driver; each outcome is a few small numbers
    (constructor indices), one checksum per row"""
    from . import core
    seen, mseen = {}, {}
    for c in cases:
        if "raw" in c or "hist" in c:
            continue
        if "multi" in c:
            if len(mseen) < 600:
                mseen.setdefault(many_req(c["multi"]), c)
        else:
            seen.setdefault(tuple(c["cfg"]), c)
    cases[:] = list(seen.values()) + list(mseen.values())
    reqs = [cfg_req(c["cfg"]) for c in seen.values()]
    mreqs = list(mseen)
    KIND = {"file": "AFile", "dir": "ADir", "linkfile": "ALinkFile", "linkdir": "ALinkDir", "stdin": "AStdin", "url": "AUrl",
            "gitrepo": "AGitRepo", "missing": "AMissing", "badurl": "ABadUrl", "refusedurl": "ARefusedUrl",
            "badrefs": "ABadRefsRepo"}
    TYPE = {"auto": "TAuto", "content": "TContent", "directory": "TDirectory", "origin": "TOrigin", "snapshot": "TSnapshot"}
    VER = {"none": "VNone", "match": "VMatch", "nonmatch": "VNonMatch"}
    B = {"1": "true", "0": "false"}
    OBJ = ["pathcontent", "linktext", "targetfile", "empty", "stdin", "dirpath", "dirtarget", "origin", "snapshot", "nothing",
           "refused", "unreadable"]
    CRASH = ["TypeError", "NotADirectoryError", "FileNotFoundError", "NotGitRepository", "ValueError", "StopIteration"]
    def term(rq):
        _, k, t, d, f, r, v, x = rq.split(" ")
        return "mkCfg %s %s %s %s %s %s %s" % (KIND[k], TYPE[t], B[d], B[f], B[r], VER[v], B[x])
    def mterm(rq):
        _, t, d, f, r, v, x, ks = rq.split(" ")
        return "(mkCfg AFile %s %s %s %s %s %s, [%s])" % (TYPE[t], B[d], B[f], B[r], VER[v], B[x],
                                                          "; ".join(KIND[k] for k in ks.split(",")) if ks != "." else "")
    src = ("From Coq Require Import List NArith.\nFrom SWH.model Require Import Cli.\nImport ListNotations.\n" + core.COQ_CHECKSUM + """
Definition b (x : bool) : N := if x then 1%N else 0%N.
Definition objn (o : obj) : N :=
  match o with
  | OPathContent => 0 | OLinkText => 1 | OTargetFile => 2 | OEmptyContent => 3 | OStdin => 4 | ODirAtPath => 5
  | ODirAtLinkTarget => 6 | OOrigin => 7 | OSnapshot => 8 | ONothing => 9 | ORefusedOrigin => 10
  | OUnreadableSnapshot => 11
  end%N.
Definition crashn (c : crash) : N :=
  match c with CrTypeError => 0 | CrNotADirectory => 1 | CrFileNotFound => 2 | CrNotGitRepository => 3 | CrValueError => 4
  | CrStopIteration => 5 end%N.
Definition outc (o : outcome) : list N :=
  match o with
  | Print o e s l => [1%N; objn o; b e; b s; b l]
  | Usage => [2%N] | Exit0 => [3%N] | Exit1 => [4%N] | Silent => [6%N]
  | Crash c => [5%N; crashn c]
  end.
Definition row (c : cfg) : list N :=
  let (o, e) := designated c in
  [b (in_scope c); b (in_scope_literal c); objn o; b e]
  ++ outc (identify_model c) ++ outc (spec c) ++ outc (spec_strict c)
  ++ outc (identify_old_realpath c) ++ outc (identify_old_rectype c) ++ outc (identify_old_autolink c)
  ++ outc (identify_old_recfollows c) ++ outc (identify_old_originuncaught c) ++ outc (identify_old_stopswallowed c).
Definition endn (e : mend) : list N :=
  match e with MDone => [1%N] | MUsageEnd => [2%N] | MExit0 => [3%N] | MExit1 => [4%N] | MCrashEnd c => [5%N; crashn c] end.
Definition runc (r : mout) : list N :=
  match r with MOut ls e => flat_map (fun l => match l with (o, x, s, g) => [objn o; b x; b s; b g] end) ls ++ [9%N] ++ endn e end.
Definition mrow (p : cfg * list argkind) : list N :=
  [b (in_scope_many (fst p) (snd p))] ++ runc (identify_many (fst p) (snd p)) ++ runc (spec_many (fst p) (snd p)).
""" + "Definition cases : list cfg := [" + ";\n ".join(term(rq) for rq in reqs) + "].\n"
           + "Definition mcases : list (cfg * list argkind) := [" + ";\n ".join(mterm(rq) for rq in mreqs) + "].\n"
           + "Eval vm_compute in map (fun c => cksum (row c)) cases ++ map (fun p => cksum (mrow p)) mcases.\n")
    def outc(s):
        p = s.split(",")
        if p[0] == "print":
            return [1, OBJ.index(p[1]), int(p[2]), int(p[3]), int(p[4])]
        if p[0] == "crash":
            return [5, CRASH.index(p[1])]
        return [{"usage": 2, "exit0": 3, "exit1": 4, "silent": 6}[p[0]]]
    def row(line):
        r = parse_row(line)
        o, e = r["des"].split(",")
        out = [int(r["inscope"]), int(r["literal"]), OBJ.index(o), int(e)]
        for k in ("model", "spec", "strict", "old1", "old2", "old3", "old4", "old5", "old6"):
            out += outc(r[k])
        return out
    def runc(tok):
        ls, e = tok.split(";")
        out = []
        for l in ([] if ls == "." else ls.split("|")):
            o, x, sh, g = l.split(",")
            out += [OBJ.index(o), int(x), int(sh), int(g)]
        ep = e.split(",")
        return out + [9] + ([5, CRASH.index(ep[1])] if ep[0] == "crash" else [{"done": 1, "usage": 2, "exit0": 3, "exit1": 4}[ep[0]]])
    def mrow(line):
        r = parse_many(line)
        return [int(r["inscope"])] + runc(r["model"]) + runc(r["spec"])
    exp = [core.py_cksum(row(r)) for r in core.run_driver(ID, reqs)]
    exp += [core.py_cksum(mrow(r)) for r in core.run_driver(ID, mreqs)] if mreqs else []
    return src, exp
