"""C18 - `swh identify` prints what the library computes, for every option mix
(swh/model/cli.py: identify, identify_object, swhid_of_*, model_of_dir).

The model (coq/model/Cli.v) is a finite decision table over 1680
configurations; the extracted table is fetched from the driver once.  For every
fixture set (regular file, tree with nested directories + identical files + an
inner symlink, link->file, link->dir, URL, git repository, stdin data) ALL 1680
configurations are run through click's CliRunner (and a sample through a real
`python -m swh.model.cli` subprocess).  The concrete identifiers the outcome
must contain are computed with the LIBRARY (from_disk.Content / Directory,
model.Origin, model.Snapshot built from `git for-each-ref`), never by the CLI.

  oracle  : spec outcome (property)            vs implementation, in-scope configurations only
  compare : identify_model outcome (the code)  vs implementation, all configurations
"""
import atexit
import os
import shutil
import subprocess
import sys
import tempfile
import random as _random

from . import core

ID = "C18"
PROPS = "Props/C18.v"
EXTRACT = "extract/ExC18.v"
OBLIGATION = "identify"
THEOREMS = [
    "C18_all_cfgs_complete", "C18_all_cfgs_count", "C18_agree", "C18_scope_covers_literal", "C18_no_crash",
    "C18_verify_exit", "C18_print_designated",
    "C18_agree_refuted_old_realpath", "C18_agree_refuted_old_rectype", "C18_agree_refuted_old_autolink",
    "C18_agree_refuted_old_recursive_follows", "C18_old_deviations_exact", "C18_strict_reading_differs",
    "C18_in_scope_satisfiable",
]
RULE = ("every one of the 1680 configurations (argument kind x --type x dereference x filename x recursive x "
        "verify x exclude) on each generated fixture set (random file contents, names - every second set with names "
        "that are not valid UTF-8, for the arguments too -, tree shapes with identical files/directories and an inner "
        "symlink, relative/absolute link targets, URL schemes, git repository with commits, branch, lightweight / "
        "annotated / tree tags, packed or loose refs), plus 30 sampled configurations per set through a real "
        "`python -m swh.model.cli` subprocess; non-trivial = at least 2 options away from their default; distinct = "
        "distinct (fixture seed, configuration, runner)")
TRUSTED = ["click option parsing, os.path.*, os.scandir, dulwich and git are modelled by a table per argument kind "
           "(model/Cli.v: isfile/isdir/islink/lstat/stat/urlparse scheme/is-a-git-repository), not verified",
           "the identifiers themselves are the library's (Content.from_file/from_bytes, Directory.from_disk, "
           "Origin.swhid, Snapshot.swhid): C18 is about which object the command designates and what it prints"]
ASSUMPTIONS = ["exactly one OBJECT argument; no file named '-' in the working directory; the argument of kind url has "
               "a scheme and is not an existing path; distinct designated objects of one fixture set have distinct "
               "identifiers (asserted when the fixtures are built)",
               "explicit --type: in scope when it equals the type of the designated object (content for file, "
               "link->file, stdin and for any link that is not followed; directory for dir, followed link->dir, git "
               "repository; origin for url; snapshot for git repository); '-t directory --no-dereference <link>' and "
               "an explicit non-content type on '-' are out of scope (still compared with the model)",
               "verification takes a core SWHID: an origin has none, so '--verify swh:1:ori:...' is a usage error "
               "(documented by the option's error message); --recursive is documented (warning) as disabled on a "
               "non-directory; the stricter reading is theorem C18_strict_reading_differs",
               "in-process runs give click's capture stream the surrogateescape error handler that a real process's "
               "stdout has under the C/POSIX locale; the subprocess runs use the real stream"]
CASE_TIMEOUT = 60

KINDS = ["file", "dir", "linkfile", "linkdir", "stdin", "url", "gitrepo"]
TYPES = ["auto", "content", "directory", "origin", "snapshot"]
VERS = ["none", "match", "nonmatch"]


def all_cfgs():
    res = []
    for k in KINDS:
        for t in TYPES:
            for d in (1, 0):
                for f in (1, 0):
                    for r in (0, 1):
                        for v in VERS:
                            for x in (0, 1):
                                res.append([k, t, d, f, r, v, x])
    return res


def cfg_req(cfg):
    k, t, d, f, r, v, x = cfg
    return "cfg %s %s %d %d %d %s %d" % (k, t, d, f, r, v, x)


# ------------------------------------------------------------------ the extracted table
_TABLE = {}


def parse_row(line):
    """ok inscope=1 literal=1 des=dirpath,1 model=print,dirpath,1,1,0 spec=... strict=... old1=... .. old4=..."""
    if not line.startswith("ok "):
        raise RuntimeError("driver: " + line)
    row = {}
    for tok in line.split()[1:]:
        a, b = tok.split("=", 1)
        row[a] = b
    return row


def table_row(cfg):
    if not _TABLE:
        cfgs = all_cfgs()
        resp = core.run_driver(ID, [cfg_req(c) for c in cfgs])
        for c, r in zip(cfgs, resp):
            _TABLE[tuple(c)] = parse_row(r)
    return _TABLE[tuple(cfg)]


# ------------------------------------------------------------------ fixtures
_FX = {}          # key -> fixture dict (at most one alive)


def _cleanup():
    for fx in list(_FX.values()):
        shutil.rmtree(fx["root"], ignore_errors=True)
    _FX.clear()


atexit.register(_cleanup)

_GIT_ENV = {"GIT_AUTHOR_NAME": "a", "GIT_AUTHOR_EMAIL": "a@example.org", "GIT_COMMITTER_NAME": "c",
            "GIT_COMMITTER_EMAIL": "c@example.org", "GIT_CONFIG_GLOBAL": "/dev/null", "GIT_CONFIG_SYSTEM": "/dev/null",
            "GIT_AUTHOR_DATE": "1700000000 +0000", "GIT_COMMITTER_DATE": "1700000000 +0100", "HOME": "/nonexistent",
            "LC_ALL": "C"}


def _git(repo, *args):
    env = dict(os.environ)
    env.update(_GIT_ENV)
    p = subprocess.run(["git", "-C", repo] + list(args), stdout=subprocess.PIPE, stderr=subprocess.PIPE, env=env)
    if p.returncode:
        raise RuntimeError("git %s failed: %s" % (args, p.stderr.decode("utf-8", "replace")))
    return p.stdout


def _rname(rng, nonutf8, prefix=b""):
    alphabet = b"abcdefghijklmnopqrstuvwxyzABCXYZ0123456789_.+ "
    n = rng.randrange(1, 9)
    s = bytes(rng.choice(alphabet) for _ in range(n)).strip() or b"n"
    if s.startswith(b"."):
        s = b"d" + s
    if nonutf8 and rng.random() < 0.6:
        s += rng.choice([b"\xff", b"\xe9t\xe9", b"\xc3\x28", b"\xf0\x9f\x98\x80", "é€".encode()])
    return prefix + s


def _rdata(rng):
    kind = rng.randrange(4)
    if kind == 0:
        return bytes(rng.randrange(256) for _ in range(rng.randrange(1, 300)))
    if kind == 1:
        return ("line %d\n" % rng.randrange(10 ** 6)).encode() * rng.randrange(1, 50)
    if kind == 2:
        return b"\x00" * rng.randrange(1, 70000) + bytes([rng.randrange(256)])
    return ("text-%d" % rng.randrange(10 ** 9)).encode()


def _populate(rng, top, nonutf8, depth=0):
    """nested directories, identical files, an inner symlink, an executable, an empty directory; always a
    directory whose name starts with b'sub' (the exclusion pattern is sub*)"""
    os.mkdir(top)
    shared = _rdata(rng)
    names = set()

    def fresh(prefix=b""):
        while True:
            n = _rname(rng, nonutf8, prefix)
            if n not in names and not (prefix == b"" and n.startswith(b"sub")):
                names.add(n)
                return n
    f1 = fresh()
    with open(os.path.join(top, f1), "wb") as f:
        f.write(shared)
    sub = os.path.join(top, fresh(b"sub"))
    os.mkdir(sub)
    with open(os.path.join(sub, _rname(rng, nonutf8, b"same")), "wb") as f:
        f.write(shared)                                           # identical file elsewhere in the tree
    with open(os.path.join(sub, b"x" + _rname(rng, nonutf8)), "wb") as f:
        f.write(_rdata(rng))
    os.chmod(os.path.join(sub, os.listdir(sub)[0]), 0o755)
    os.symlink(os.path.join(b"..", f1), os.path.join(sub, b"ln" + _rname(rng, False)))   # inner symlink
    deep = os.path.join(sub, b"deep" + _rname(rng, nonutf8))
    os.mkdir(deep)
    with open(os.path.join(deep, _rname(rng, nonutf8)), "wb") as f:
        f.write(_rdata(rng))
    other = os.path.join(top, fresh())
    os.mkdir(other)
    with open(os.path.join(other, _rname(rng, nonutf8)), "wb") as f:
        f.write(_rdata(rng))
    if rng.random() < 0.5:
        os.mkdir(os.path.join(top, fresh(b"empty")))
    if rng.random() < 0.5:
        # a second directory with the same content as `other`: identical sub-directories
        shutil.copytree(other, os.path.join(top, fresh(b"copy")), symlinks=True)
    for _ in range(rng.randrange(0, 3)):
        with open(os.path.join(top, fresh()), "wb") as f:
            f.write(_rdata(rng))


def build_fixture(fxspec):
    """One fixture set under a fresh temporary directory.  Everything is derived from fxspec['seed']."""
    rng = _random.Random(fxspec["seed"])
    nonutf8 = bool(fxspec.get("nonutf8"))           # names inside the trees, link texts
    nonutf8_arg = bool(fxspec.get("nonutf8_arg"))   # names of the arguments themselves
    root = tempfile.mkdtemp(prefix="c18-").encode()
    fx = {"root": root, "spec": dict(fxspec)}
    try:
        used = set()

        def top(prefix):
            while True:
                n = _rname(rng, False, prefix)
                if nonutf8_arg:
                    n += rng.choice([b"\xff", b"\xe9t\xe9", b"\xc3\x28", b"\x80x"])
                if n not in used and n != b"-":
                    used.add(n)
                    return os.path.join(root, n)
        fx["file"] = top(b"f")
        with open(fx["file"], "wb") as f:
            f.write(_rdata(rng))
        if rng.random() < 0.3:
            os.chmod(fx["file"], 0o755)
        fx["dir"] = top(b"t")
        _populate(rng, fx["dir"], nonutf8)
        fx["linkfile"] = top(b"lf")
        # relative or absolute link text
        tgt = os.path.basename(fx["file"]) if rng.random() < 0.7 else fx["file"]
        os.symlink(tgt, fx["linkfile"])
        fx["linkdir_target"] = top(b"lt")
        _populate(rng, fx["linkdir_target"], nonutf8)
        fx["linkdir"] = top(b"ld")
        tgt = os.path.basename(fx["linkdir_target"]) if rng.random() < 0.7 else fx["linkdir_target"]
        os.symlink(tgt, fx["linkdir"])
        fx["stdin"] = rng.choice([b"", b" ", b"\n"]) + _rdata(rng) + rng.choice([b"\n", b" \n", b"\r\n", b"\x00", b"\t"])
        scheme = rng.choice(["https", "http", "git", "ssh", "git+ssh", "svn", "ftp", "file"])
        fx["url"] = "%s://host%d.example.org/%s" % (scheme, rng.randrange(1000), rng.choice(["a/b.git", "x", "p?q=1#f", "é"]))
        # every shape of URL that has a scheme: with an authority, with an empty one, without one
        if fxspec.get("url_noauth", rng.random() < 0.5):
            n = rng.randrange(1000)
            fx["url"] = rng.choice(["file:///srv/git/project%d.git" % n, "lp:~user%d/project/trunk" % n,
                                    "mailto:someone%d@example.org" % n, "urn:x-swh:%d" % n, "git://%d" % n,
                                    "ssh://git@host%d:2222/~user/repo.git" % n, "a%d:b" % n])
        # git repository (non bare): two commits, a branch, a lightweight and an annotated tag, a tag of a tree
        repo = top(b"g")
        os.mkdir(repo)
        fx["gitrepo"] = repo
        r = os.fsdecode(repo)
        _git(r, "init", "-q", "-b", rng.choice(["master", "main", "trunk"]))
        with open(os.path.join(repo, b"README"), "wb") as f:
            f.write(_rdata(rng))
        os.mkdir(os.path.join(repo, b"subdir"))
        with open(os.path.join(repo, b"subdir", b"m.c"), "wb") as f:
            f.write(_rdata(rng))
        _git(r, "add", "-A")
        _git(r, "commit", "-q", "-m", "first")
        _git(r, "tag", "v0-light")
        _git(r, "branch", "feature/x")
        with open(os.path.join(repo, b"README"), "ab") as f:
            f.write(b"more\n")
        _git(r, "commit", "-q", "-am", "second")
        _git(r, "tag", "-a", "-m", "annotated", "v1")
        if rng.random() < 0.5:
            _git(r, "tag", "-a", "-m", "tree tag", "treetag", "HEAD^{tree}")
        if fxspec.get("oddrefs", rng.random() < 0.5):
            # references whose value is a tree or a blob id (legal, rare): lightweight tags of a tree and of a blob
            _git(r, "tag", "tree-light", "HEAD^{tree}")
            blob = _git(r, "rev-parse", "HEAD:README").strip().decode()
            _git(r, "tag", "blob-light", blob)
        if fxspec.get("symrefs", rng.random() < 0.5):
            # symbolic references besides HEAD, as a non-mirror clone leaves them
            _git(r, "symbolic-ref", "refs/remotes/origin/HEAD", "refs/heads/feature/x")
            _git(r, "symbolic-ref", "refs/heads/alias-of-tag", "refs/tags/v1")
        if rng.random() < 0.5:
            _git(r, "pack-refs", "--all")
        fx["ids"] = expected_ids(fx)
    except BaseException:
        shutil.rmtree(root, ignore_errors=True)
        raise
    return fx


def get_fixture(fxspec):
    key = core.canon(fxspec)
    if key not in _FX:
        _cleanup()                     # at most one fixture set on disk
        try:
            _FX[key] = build_fixture(fxspec)
        except Exception as e:         # remember the failure: never rebuild in a loop
            _FX[key] = {"root": b"/nonexistent-c18", "failed": e}
    if "failed" in _FX[key]:
        raise _FX[key]["failed"]
    return _FX[key]


EXCLUDE = ["sub*"]


def _dir_id(path, excluded):
    from swh.model import from_disk
    if excluded:
        flt = from_disk.ignore_directories_patterns(path, [p.encode() for p in EXCLUDE])
        return from_disk.Directory.from_disk(path=path, path_filter=flt)
    return from_disk.Directory.from_disk(path=path)


def _snapshot_id(repo):
    """the snapshot of a git repository, built from git's own listing of the references (not through dulwich)"""
    from swh.model import model
    tt = model.SnapshotTargetType if hasattr(model, "SnapshotTargetType") else model.TargetType
    kinds = {"commit": tt.REVISION, "tag": tt.RELEASE, "tree": tt.DIRECTORY, "blob": tt.CONTENT}
    branches = {}
    out = _git(os.fsdecode(repo), "for-each-ref", "--format=%(refname) %(objectname) %(objecttype) %(symref)")
    for line in out.splitlines():
        ref, oid, typ, sym = line.split(b" ")
        if sym:       # a symbolic reference other than HEAD (e.g. refs/remotes/origin/HEAD): an alias branch
            branches[ref] = model.SnapshotBranch(target=sym, target_type=tt.ALIAS)
        else:
            branches[ref] = model.SnapshotBranch(target=bytes.fromhex(oid.decode()), target_type=kinds[typ.decode()])
    head = _git(os.fsdecode(repo), "symbolic-ref", "HEAD").strip()
    branches[b"HEAD"] = model.SnapshotBranch(target=head, target_type=tt.ALIAS)
    return model.Snapshot(branches=branches).swhid()


def expected_ids(fx):
    """identifier of every object a configuration can designate, computed with the library"""
    from swh.model import from_disk, model
    C = from_disk.Content
    ids = {}
    ids["pathcontent"] = str(C.from_file(path=fx["file"]).swhid())
    with open(fx["file"], "rb") as f:
        assert str(C.from_bytes(mode=0o100644, data=f.read()).swhid()) == ids["pathcontent"]
    ids["targetfile"] = ids["pathcontent"]          # the link points at the regular file
    ids["linktext:linkfile"] = str(C.from_bytes(mode=0o120000, data=os.readlink(fx["linkfile"])).swhid())
    ids["linktext:linkdir"] = str(C.from_bytes(mode=0o120000, data=os.readlink(fx["linkdir"])).swhid())
    ids["empty"] = str(C.from_bytes(mode=0o100644, data=b"").swhid())
    ids["stdin"] = str(C.from_bytes(mode=0o100644, data=fx["stdin"]).swhid())
    for k, p in (("dir", fx["dir"]), ("linkdir", os.path.realpath(fx["linkdir"])), ("gitrepo", fx["gitrepo"])):
        for x in (0, 1):
            ids["dir:%s:%d" % (k, x)] = str(_dir_id(p, x).swhid())
    for k in ("file", "dir", "linkfile", "linkdir", "gitrepo"):
        # out of scope (-t origin <path>); a path that is not valid UTF-8 is not a valid origin URL
        try:
            ids["origin:" + k] = str(model.Origin(url=os.fsdecode(fx[k])).swhid())
        except UnicodeEncodeError:
            ids["origin:" + k] = None
    ids["origin:url"] = str(model.Origin(url=fx["url"]).swhid())
    ids["snapshot"] = str(_snapshot_id(fx["gitrepo"]))
    # the fixture must be generic: distinct designated objects, distinct identifiers; the exclusion removes something
    generic = [ids["pathcontent"], ids["linktext:linkfile"], ids["linktext:linkdir"], ids["empty"], ids["stdin"],
               ids["dir:dir:0"], ids["dir:dir:1"], ids["dir:linkdir:0"], ids["dir:linkdir:1"], ids["dir:gitrepo:0"],
               ids["dir:gitrepo:1"], ids["origin:url"], ids["snapshot"]]
    assert len(set(generic)) == len(generic), "fixture is not generic"
    return ids


def obj_id(fx, kind, obj, excluded):
    """identifier of designation `obj` (as named by the driver) for the argument of kind `kind`"""
    ids = fx["ids"]
    if obj == "pathcontent":
        return ids["pathcontent"]
    if obj == "targetfile":
        return ids["targetfile"]
    if obj == "linktext":
        return ids["linktext:" + kind]
    if obj == "empty":
        return ids["empty"]
    if obj == "stdin":
        return ids["stdin"]
    if obj in ("dirpath", "dirtarget"):
        return ids["dir:%s:%d" % (kind, int(excluded))]
    if obj == "origin":
        return ids["origin:" + kind]
    if obj == "snapshot":
        return ids["snapshot"]
    raise KeyError(obj)


def tree_nodes(fx, kind, excluded):
    """(all node ids, {(id, path)} without deduplication) of the directory designated by an argument of kind `kind`,
    walked from the path as the user gave it"""
    arg = fx[kind]
    d = _dir_id(arg, excluded)
    pairs = set()
    for node in d.iter_tree(dedup=False):
        p = node.data["path"] if "path" in node.data else node.data["data"]
        pairs.add((str(node.swhid()), os.fsdecode(p)))
    dedup = [str(n.swhid()) for n in d.iter_tree()]
    assert len(dedup) == len(set(dedup)) and set(dedup) == {i for i, _ in pairs}
    return set(dedup), pairs


# ------------------------------------------------------------------ running the command
def cli_args(fx, cfg, row):
    k, t, d, f, r, v, x = cfg
    args = []
    if t != "auto" or fx["spec"].get("explicit_auto"):
        args += ["--type", t]
    if not d:
        args.append("--no-dereference")
    elif fx["spec"].get("explicit_defaults"):
        args.append("--dereference")
    if not f:
        args.append("--no-filename")
    elif fx["spec"].get("explicit_defaults"):
        args.append("--filename")
    if r:
        args.append("--recursive" if fx["spec"]["seed"] % 2 else "-r")
    if x:
        for p in EXCLUDE:
            args += ["--exclude", p]
    if v != "none":
        dk, dx = row["des"].split(",")
        good = obj_id(fx, k, dk, dx == "1")
        if v == "match":
            given = good
        else:
            given = non_matching(good, fx["spec"]["seed"] + KINDS.index(k) + TYPES.index(t) + d + 2 * f + 4 * r + 8 * x)
        args += ["--verify", given]
    if k == "stdin":
        arg = "-"
    elif k == "url":
        arg = fx["url"]
    else:
        arg = os.fsdecode(fx[k])
    return args + [arg], arg


def non_matching(good, n):
    """a valid core SWHID different from `good`"""
    pre, ver, typ, hx = good.split(":")
    variant = n % 4
    if typ == "ori" or variant == 0:
        return "swh:1:cnt:" + "0" * 40
    if variant == 1:      # one hex digit changed
        i = n % 40
        c = "0" if hx[i] != "0" else "f"
        return ":".join([pre, ver, typ, hx[:i] + c + hx[i + 1:]])
    if variant == 2:      # same hash, another object type
        other = {"cnt": "dir", "dir": "rev", "snp": "rel"}[typ]
        return ":".join([pre, ver, other, hx])
    return ":".join([pre, ver, typ, hx[::-1] if hx[::-1] != hx else "1" * 40])


def canon_run(exit_code, stdout, exc):
    lines = stdout.split("\n")
    if lines and lines[-1] == "":
        lines = lines[:-1]
    ids = sorted(l for l in lines if l.startswith("swh:"))
    res = {"exit": exit_code, "lines": ids, "other_lines": len(lines) - len(ids)}
    if exc is not None:
        res["exc"] = exc
    return res


def run_inprocess(args, stdin):
    """click's CliRunner.  Its capture stream for stdout is a strict UTF-8 writer, whereas the standard output of a
    real process under the C/POSIX locale (the only ones on this machine) uses surrogateescape; the capture stream
    is given the same error handler so that printing a file name that is not valid UTF-8 behaves as in the real
    command (the subprocess runs check the real thing)."""
    import click.testing
    from click.testing import CliRunner
    from swh.model import cli
    import logging

    base = click.testing._NamedTextIOWrapper

    class Tolerant(base):
        def __init__(self, buffer, name, mode, **kw):
            if mode == "w":
                kw.setdefault("errors", "surrogateescape")
            super().__init__(buffer, name, mode, **kw)

    logging.disable(logging.CRITICAL)
    click.testing._NamedTextIOWrapper = Tolerant
    try:
        r = CliRunner().invoke(cli.identify, args, input=stdin)
    finally:
        click.testing._NamedTextIOWrapper = base
        logging.disable(logging.NOTSET)
    exc = None
    if r.exception is not None and not isinstance(r.exception, SystemExit):
        exc = type(r.exception).__name__
    return canon_run(r.exit_code, r.stdout_bytes.decode("utf-8", "surrogateescape").replace("\r\n", "\n"), exc)


def run_subprocess(args, stdin, cwd):
    env = dict(os.environ)
    env.update({"PYTHONPATH": core.REPO, "PYTHONIOENCODING": "utf-8:surrogateescape"})
    bargs = [os.fsencode(a) for a in args]
    p = subprocess.run([b"/venv/bin/python", b"-m", b"swh.model.cli"] + bargs, input=stdin if stdin is not None else b"",
                       stdout=subprocess.PIPE, stderr=subprocess.PIPE, env=env, cwd=cwd, timeout=60)
    exc = None
    err = p.stderr.decode("utf-8", "replace")
    if "Traceback (most recent call last)" in err:
        last = [l for l in err.strip().splitlines() if l and not l.startswith(" ")][-1]
        exc = last.split(":")[0].split(".")[-1]
    return canon_run(p.returncode, p.stdout.decode("utf-8", "surrogateescape"), exc)


def impl(case):
    """run the command; everything that needs the fixture on disk is evaluated here, while it exists: the observed
    run and its difference with the observable of the model's / the specification's outcome (driver tokens)"""
    try:
        fx = get_fixture(case["fx"])
        cfg = case["cfg"]
        row = table_row(cfg)
        args, arg = cli_args(fx, cfg, row)
        stdin = fx["stdin"] if cfg[0] == "stdin" else None
        if case.get("sub"):
            run = run_subprocess(args, stdin, os.fsdecode(fx["root"]))
        else:
            run = run_inprocess(args, stdin)
        res = {"run": run, "args": [a if a != arg else "<" + cfg[0] + ">" for a in args],
               "outcomes": {"model": row["model"], "spec": row["spec"]}}
        res["diff_model"] = diff(run, expected(fx, cfg, row["model"]))
        res["diff_spec"] = res["diff_model"] if row["spec"] == row["model"] else diff(run, expected(fx, cfg, row["spec"]))
        return res
    except Exception as e:
        import traceback
        return {"error": core.exc_class(e), "trace": traceback.format_exc()[-800:]}


# ------------------------------------------------------------------ expected observable of an outcome
def expected(fx, cfg, outcome):
    """canonical observable that the outcome (a driver token such as print,dirpath,1,1,0) stands for"""
    k = cfg[0]
    parts = outcome.split(",")
    if parts[0] == "usage":
        return {"exit": 2, "lines": [], "usage": True}
    if cfg[1] == "origin" and k not in ("stdin", "url") and fx["ids"]["origin:" + k] is None:
        # out of scope: -t origin <path that is not valid UTF-8>; Origin() refuses such a URL (not in the table)
        return {"exit": 1, "lines": [], "exc": "UnicodeEncodeError"}
    if parts[0] == "exit0":
        return {"exit": 0, "lines": []}
    if parts[0] == "exit1":
        return {"exit": 1, "lines": []}
    if parts[0] == "crash":
        return {"exit": 1, "lines": [], "exc": parts[1]}
    assert parts[0] == "print"
    obj, excluded, shown, listing = parts[1], parts[2] == "1", parts[3] == "1", parts[4] == "1"
    arg = "-" if k == "stdin" else fx["url"] if k == "url" else os.fsdecode(fx[k])
    if not listing:
        i = obj_id(fx, k, obj, excluded)
        return {"exit": 0, "lines": [i + "\t" + arg if shown else i], "other_lines": 0}
    ids, pairs = tree_nodes(fx, k, excluded)
    return {"exit": 0, "listing": True, "ids": ids, "pairs": pairs, "shown": shown, "other_lines": 0}


def diff(obs, exp):
    """None when the observed run is one the outcome allows"""
    if "error" in obs:
        return "harness error " + obs["error"] + " " + obs.get("trace", "")
    if obs["exit"] != exp["exit"]:
        return "exit code %s (exception %s), expected %s%s" % (obs["exit"], obs.get("exc"), exp["exit"],
                                                               " (" + exp["exc"] + ")" if "exc" in exp else "")
    if obs.get("exc") != exp.get("exc"):
        return "unhandled exception %s, expected %s" % (obs.get("exc"), exp.get("exc"))
    if exp.get("listing"):
        got = obs["lines"]
        if exp["shown"]:
            pairs = [tuple(l.split("\t", 1)) if "\t" in l else (l, None) for l in got]
        else:
            pairs = [(l, None) for l in got]
        gids = [p[0] for p in pairs]
        if len(set(gids)) != len(gids):
            return "a node identifier is printed twice in recursive mode"
        if set(gids) != exp["ids"]:
            return "recursive listing: %d identifiers printed, %d nodes in the library's tree; missing %s, extra %s" % (
                len(gids), len(exp["ids"]), sorted(exp["ids"] - set(gids))[:2], sorted(set(gids) - exp["ids"])[:2])
        if exp["shown"]:
            for p in pairs:
                if p not in exp["pairs"]:
                    return "recursive listing: line %r does not name a node with that identifier" % (p,)
        elif any("\t" in l for l in got):
            return "file names printed despite --no-filename"
        if obs["other_lines"]:
            return "unexpected extra output lines"
        return None
    if obs["lines"] != exp["lines"]:
        return "printed %r, expected %r" % (obs["lines"][:3], exp["lines"][:3])
    if "other_lines" in exp and obs["other_lines"] != exp["other_lines"]:
        return "unexpected extra output lines"
    return None


# ------------------------------------------------------------------ harness API
def gen(rng, tier):
    nsets = 2 if tier == "quick" else 10
    cases = []
    cfgs = all_cfgs()
    for s in range(nsets):
        fx = {"seed": rng.randrange(1, 10 ** 9)}
        fx["url_noauth"] = s % 2         # a URL without / with an empty authority (file:///x, lp:x, mailto:x)
        fx["symrefs"] = (s + 1) % 2      # the git repository has symbolic references besides HEAD
        fx["oddrefs"] = s % 2            # ... and references to a tree / a blob
        if s % 2 == 1:
            fx["nonutf8"] = 1            # names inside the trees and link texts that are not valid UTF-8
            fx["nonutf8_arg"] = 1        # ... and the names of the arguments themselves
        if s % 3 == 2 or (tier == "quick" and s == 1):
            fx["explicit_defaults"] = 1  # --dereference / --filename / --type auto spelled out
            fx["explicit_auto"] = 1
        for c in cfgs:
            cases.append({"fx": fx, "cfg": c})
        for c in rng.sample(cfgs, 30 if tier == "quick" else 40):
            cases.append({"fx": fx, "cfg": c, "sub": 1})
    return cases


def nontrivial(c):
    k, t, d, f, r, v, x = c["cfg"]
    return (t != "auto") + (not d) + (not f) + bool(r) + (v != "none") + bool(x) >= 2


def classify(c):
    k, t, d, f, r, v, x = c["cfg"]
    row = table_row(c["cfg"])
    ks = ["kind=" + k, "type=" + t, "model=" + row["model"].split(",")[0],
          "in-scope" if row["inscope"] == "1" else "out-of-scope"]
    if c.get("sub"):
        ks.append("subprocess")
    if r:
        ks.append("recursive")
    if v != "none":
        ks.append("verify=" + v)
    return ks


def requests(c):
    return [cfg_req(c["cfg"])]


def model(c, resp):
    return parse_row(resp[0])


def oracle(c, ires, mres):
    """the property on the implementation: in scope, the command behaves as the specification says"""
    if "error" in ires:
        return None          # harness failure: reported by compare()
    if mres.get("inscope") != "1":
        return None
    if ires["outcomes"]["spec"] != mres["spec"]:
        return None
    if ires["diff_spec"]:
        return "%s: spec %s: %s" % (" ".join(ires["args"]), mres["spec"], ires["diff_spec"])
    return None


def compare(c, ires, mres):
    if "error" in ires:
        return "harness error " + ires["error"] + " " + ires.get("trace", "")
    if ires["outcomes"] != {"model": mres.get("model"), "spec": mres.get("spec")}:
        return "driver answers differ between two calls: %r / %r" % (ires["outcomes"], mres)
    if ires["diff_model"]:
        return "%s: identify_model %s: %s" % (" ".join(ires["args"]), mres["model"], ires["diff_model"])
    return None


def shrink(c):
    k, t, d, f, r, v, x = c["cfg"]
    if c.get("sub"):
        yield {"fx": c["fx"], "cfg": c["cfg"]}
    for i, dflt in ((1, "auto"), (2, 1), (3, 1), (4, 0), (5, "none"), (6, 0)):
        if c["cfg"][i] != dflt:
            cfg = list(c["cfg"])
            cfg[i] = dflt
            yield {"fx": c["fx"], "cfg": cfg}


def pre_checks(ctx):
    """(1) the Python enumeration of configurations is the model's all_cfgs;
    (2) outside the one-argument table: several OBJECTS print one line each in order, and --verify with two
    objects is the documented usage error ("verification requires a single object")"""
    bad = []
    resp = core.run_driver(ID, ["count"])
    if resp != ["ok %d" % len(all_cfgs())]:
        bad.append(("table:all_cfgs", "driver enumerates %s configurations, the harness %d" % (resp, len(all_cfgs()))))
    try:
        fx = get_fixture({"seed": 18003})
        ids = fx["ids"]
        f, lf, d = os.fsdecode(fx["file"]), os.fsdecode(fx["linkfile"]), os.fsdecode(fx["dir"])
        r = run_inprocess(["--no-dereference", f, lf, d], None)
        want = sorted([ids["pathcontent"] + "\t" + f, ids["linktext:linkfile"] + "\t" + lf, ids["dir:dir:0"] + "\t" + d])
        if r["exit"] != 0 or r["lines"] != want:
            bad.append(("correspondence:several-objects", "identify --no-dereference f lf d: %r, expected %r" % (r, want)))
        r = run_inprocess(["--verify", ids["pathcontent"], f, lf], None)
        if r["exit"] != 2 or r.get("exc") or r["lines"]:
            bad.append(("correspondence:verify-two-objects", "identify --verify ID f lf: %r, expected a usage error" % (r,)))
    except Exception as e:
        bad.append(("correspondence:several-objects", "pre-check crashed: %r" % (e,)))
    return bad


# functions of /repo whose executed-line coverage by this run is reported in the evidence
ANCHORS = [('swh/model/cli.py', 'identify'),
           ('swh/model/cli.py', 'identify_object'),
           ('swh/model/cli.py', 'swhid_of_*'),
           ('swh/model/cli.py', 'model_of_dir')]


# the decision table is small and cheap: coq_cases gets every case and evaluates every distinct configuration of the stream
# (it shrinks the list it is given IN PLACE: the evidence's `n` is the number of rows evaluated)
COQ_SAMPLE = 1 << 30


def coq_cases(cases):
    """every row of the decision table (in_scope, in_scope_literal, designated, identify_model, spec, spec_strict and the four
    pre-repair variants) evaluated by vm_compute inside Coq vs the extracted driver; each outcome is a few small numbers
    (constructor indices), one checksum per row"""
    from . import core
    seen = {}
    for c in cases:
        seen.setdefault(tuple(c["cfg"]), c)
    cases[:] = list(seen.values())
    reqs = [cfg_req(c["cfg"]) for c in cases]
    KIND = {"file": "AFile", "dir": "ADir", "linkfile": "ALinkFile", "linkdir": "ALinkDir", "stdin": "AStdin", "url": "AUrl",
            "gitrepo": "AGitRepo"}
    TYPE = {"auto": "TAuto", "content": "TContent", "directory": "TDirectory", "origin": "TOrigin", "snapshot": "TSnapshot"}
    VER = {"none": "VNone", "match": "VMatch", "nonmatch": "VNonMatch"}
    B = {"1": "true", "0": "false"}
    OBJ = ["pathcontent", "linktext", "targetfile", "empty", "stdin", "dirpath", "dirtarget", "origin", "snapshot"]
    CRASH = ["TypeError", "NotADirectoryError", "FileNotFoundError", "NotGitRepository"]
    def term(rq):
        _, k, t, d, f, r, v, x = rq.split(" ")
        return "mkCfg %s %s %s %s %s %s %s" % (KIND[k], TYPE[t], B[d], B[f], B[r], VER[v], B[x])
    src = ("From Coq Require Import List NArith.\nFrom SWH.model Require Import Cli.\nImport ListNotations.\n" + core.COQ_CHECKSUM + """
Definition b (x : bool) : N := if x then 1%N else 0%N.
Definition objn (o : obj) : N :=
  match o with
  | OPathContent => 0 | OLinkText => 1 | OTargetFile => 2 | OEmptyContent => 3 | OStdin => 4 | ODirAtPath => 5
  | ODirAtLinkTarget => 6 | OOrigin => 7 | OSnapshot => 8
  end%N.
Definition crashn (c : crash) : N :=
  match c with CrTypeError => 0 | CrNotADirectory => 1 | CrFileNotFound => 2 | CrNotGitRepository => 3 end%N.
Definition outc (o : outcome) : list N :=
  match o with
  | Print o e s l => [1%N; objn o; b e; b s; b l]
  | Usage => [2%N] | Exit0 => [3%N] | Exit1 => [4%N]
  | Crash c => [5%N; crashn c]
  end.
Definition row (c : cfg) : list N :=
  let (o, e) := designated c in
  [b (in_scope c); b (in_scope_literal c); objn o; b e]
  ++ outc (identify_model c) ++ outc (spec c) ++ outc (spec_strict c)
  ++ outc (identify_old_realpath c) ++ outc (identify_old_rectype c) ++ outc (identify_old_autolink c)
  ++ outc (identify_old_recfollows c).
""" + "Definition cases : list cfg := [" + ";\n ".join(term(rq) for rq in reqs) + "].\nEval vm_compute in map (fun c => cksum (row c)) cases.\n")
    def outc(s):
        p = s.split(",")
        if p[0] == "print":
            return [1, OBJ.index(p[1]), int(p[2]), int(p[3]), int(p[4])]
        if p[0] == "crash":
            return [5, CRASH.index(p[1])]
        return [{"usage": 2, "exit0": 3, "exit1": 4}[p[0]]]
    def row(line):
        r = parse_row(line)
        o, e = r["des"].split(",")
        out = [int(r["inscope"]), int(r["literal"]), OBJ.index(o), int(e)]
        for k in ("model", "spec", "strict", "old1", "old2", "old3", "old4"):
            out += outc(r[k])
        return out
    exp = [core.py_cksum(row(r)) for r in core.run_driver(ID, reqs)]
    return src, exp
