"""C05 - snapshot ids (git_objects.snapshot_git_object, model.Snapshot / SnapshotBranch)."""
import hashlib
import itertools

from .core import exc_class, hx, unhx

ID = "C05"
PROPS = "Props/C05.v"
EXTRACT = "extract/ExC05.v"
OBLIGATION = "snapshot_git_object"
REQUESTS_NEED_IMPL = True
THEOREMS = ["C05_order_free", "C05_sorted", "C05_decode", "C05_record_determines_branch", "C05_injective",
            "C05_unresolved_exact", "C05_raise_iff", "C05_raise_carries_list", "C05_id_ignores",
            "C05_ok_same_manifest", "C05_target_types_table", "C05_satisfiable"]
RULE = ("branch maps of 0-30 branches; prefix-chain names over an adversarial alphabet; all six target kinds + "
        "dangling; alias targets: existing / missing / self / chains / 0-300 arbitrary bytes incl. NUL, ':' and digits; "
        "each map in two insertion orders; both ignore_unresolved values; constructor and from_dict; after every construction "
        "the branch map is also given as defaultdict / __missing__ subclass / OrderedDict / copy()-overriding subclass / "
        "ImmutableDict (same id, same unresolved report, nothing inserted by formatting); the caller's own dict is mutated (branch added, removed, set to None) and id / compute_hash / manifest re-read; invalid "
        "branches (non-alias target not 20 bytes) included; non-trivial = >=2 branches incl. an alias or a dangling one")
TRUSTED = ["Python sorted() on (name, branch) tuples with distinct names = byte order of names; '%d' formatting; dict semantics",
           "lib/Sha1.v as an instance of the hash oracle (validated against hashlib on every case)"]
ASSUMPTIONS = ["branch names contain no NUL byte for the decode/injectivity theorems (the property's domain)"]

KINDS = ["content", "directory", "revision", "release", "snapshot", "alias"]
KCODE = {"content": "c", "directory": "d", "revision": "v", "release": "r", "snapshot": "s", "alias": "a"}
ALPHA = [b"a", b"b", b"/", b".", b"-", b"0", b" ", b"\n", b":", b"\x80", b"\xff", b"A", b"9"]


def gen_names(rng, n, nul):
    names = set()
    base = [b"HEAD", b"refs/heads/master", b"refs/heads/master/x", b"refs/tags/v1", b"a", b"ab", b"a/", b"", b"\xff"]
    while len(names) < n:
        r = rng.random()
        if r < 0.35 and names:
            nm = rng.choice(sorted(names)) + rng.choice(ALPHA)
        elif r < 0.6:
            nm = rng.choice(base)
        else:
            nm = b"".join(rng.choice(ALPHA) for _ in range(rng.randrange(1, 6)))
        if nul and rng.random() < 0.3:
            nm += b"\x00x"
        names.add(nm)
    return sorted(names)


def gen_map(rng, n, kind):
    names = gen_names(rng, n, kind == "nul")
    br = []
    for nm in names:
        r = rng.random()
        if r < 0.15:
            br.append([nm.hex(), None, None])
        elif r < 0.5:
            c = rng.random()
            if c < 0.35 and names:
                tg = rng.choice(names)                       # existing (maybe itself)
            elif c < 0.5:
                tg = nm                                      # self
            elif c < 0.7:
                tg = rng.choice(names) + b"x" if names else b"x"   # missing
            else:
                tg = bytes(rng.choice([0, 58, 48, 57, 10, 32, rng.randrange(256)]) for _ in range(rng.choice([0, 1, 2, 9, 10, 11, 99, 100, 300])))
            br.append([nm.hex(), "alias", tg.hex()])
        else:
            tl = 20 if kind != "badlen" or rng.random() < 0.5 else rng.choice([0, 19, 21])
            br.append([nm.hex(), rng.choice(KINDS[:5]), bytes(rng.randrange(256) for _ in range(tl)).hex()])
    rng.shuffle(br)
    return br


def gen(rng, tier):
    n_cases = 1200 if tier == "quick" else 40000
    cases = [{"branches": [], "perm": [], "ignore": False}]
    kinds = ["ok"] * 7 + ["nul", "badlen", "ok"]
    for k in range(n_cases):
        n = rng.choice([0, 1, 2, 2, 3, 3, 4, 5, 8, 13, 30])
        b = gen_map(rng, n, kinds[k % len(kinds)])
        perm = list(range(len(b)))
        rng.shuffle(perm)
        cases.append({"branches": b, "perm": perm, "ignore": rng.random() < 0.5})
    if tier == "thorough":
        names = [b"a", b"ab", b"a/", b"b"]
        tgts = [None] + [(k, (bytes([i + 1]) * 20).hex()) for i, k in enumerate(KINDS[:5])] + \
               [("alias", t.hex()) for t in (b"a", b"ab", b"zz")]
        for r in range(0, 4):
            for combo in itertools.combinations(names, r):
                for assign in itertools.product(tgts, repeat=r):
                    b = [[nm.hex(), None if a is None else a[0], None if a is None else a[1]] for nm, a in zip(combo, assign)]
                    cases.append({"branches": b, "perm": list(reversed(range(r))), "ignore": False})
    return cases


def nontrivial(c):
    b = c["branches"]
    return len(b) >= 2 and any(k is None or k == "alias" for _, k, _ in b)


def classify(c):
    b = c["branches"]
    ks = ["n=%s" % (len(b) if len(b) < 5 else "5-13" if len(b) <= 13 else ">13")]
    names = {bytes.fromhex(n) for n, _, _ in b}
    for n, k, t in b:
        if k is None:
            ks.append("dangling")
        elif k == "alias":
            tg = bytes.fromhex(t)
            ks.append("alias-self" if tg == bytes.fromhex(n) else "alias-resolved" if tg in names else "alias-missing")
        if b"\x00" in bytes.fromhex(n):
            ks.append("nul-in-name")
    if c["ignore"]:
        ks.append("ignore_unresolved")
    return sorted(set(ks))


def _build(branches, keep=None):
    from swh.model.model import Snapshot, SnapshotBranch, SnapshotTargetType
    d = {}
    for n, k, t in branches:
        d[bytes.fromhex(n)] = None if k is None else SnapshotBranch(target=bytes.fromhex(t), target_type=SnapshotTargetType(k))
    if keep is not None:
        keep.append(d)
    return Snapshot(branches=d)


_LAST_ID = [b"\x02" * 20]


def impl(c):
    from swh.model import git_objects
    from swh.model.model import Snapshot
    res = {}
    kept = []
    try:
        s = _build(c["branches"], kept)
    except Exception as e:
        return {"error": exc_class(e)}
    res["id"] = s.id.hex()
    res["swhid"] = str(s.swhid())
    try:
        res["manifest"] = git_objects.snapshot_git_object(s, ignore_unresolved=c["ignore"]).hex()
    except ValueError as e:
        try:
            res["unresolved"] = [[a.hex(), b.hex()] for a, b in e.args[1]]
        except Exception:
            res["unresolved"] = "malformed ValueError args"
    except Exception as e:
        res["format_error"] = exc_class(e)
    try:
        res["manifest_ignore"] = git_objects.snapshot_git_object(s, ignore_unresolved=True).hex()
    except Exception as e:
        res["manifest_ignore"] = "error:" + exc_class(e)
    try:
        import warnings
        with warnings.catch_warnings():
            warnings.simplefilter("ignore")
            res["manifest_from_dict_arg"] = git_objects.snapshot_git_object(s.to_dict(), ignore_unresolved=True).hex()   # deprecated route
            # ... carrying an id that is not its own (one value for the whole run, and the id of the previous case):
            # the id key of the dict must not decide what is formatted
            for stale in (b"\x01" * 20, _LAST_ID[0]):
                git_objects.snapshot_git_object({"id": stale, "branches": {}}, ignore_unresolved=True)      # another object seen under that id first (self-contained replay)
                m2 = git_objects.snapshot_git_object(dict(s.to_dict(), id=stale), ignore_unresolved=True).hex()
                if m2 != res["manifest_from_dict_arg"]:
                    res["manifest_from_dict_arg"] = "differs when the dict carries the id %s: %s" % (stale.hex(), m2[:80])
            _LAST_ID[0] = s.id
    except Exception as e:
        res["manifest_from_dict_arg"] = "error:" + exc_class(e)
    # the branch map given in other container shapes (a defaultdict or a __missing__ subclass must not leak its
    # behaviour into the snapshot: looking up a missing alias target must stay a miss)
    try:
        import collections
        from swh.model.collections import ImmutableDict

        class _Missing(dict):
            def __missing__(self, k):
                return None

        class _CopySelf(dict):
            def copy(self):
                return self
        plain = kept_plain = dict(_build(c["branches"]).branches.items())
        shapes = {"defaultdict": collections.defaultdict(lambda: None, plain), "missing": _Missing(plain),
                  "ordered": collections.OrderedDict(plain), "copyself": _CopySelf(plain), "idict": ImmutableDict(plain)}
        facts = []
        for nm, arg in shapes.items():
            try:
                s2 = Snapshot(branches=arg)
                f = [s2.id.hex(), s2.compute_hash().hex(), len(s2.branches)]
                try:
                    f.append(git_objects.snapshot_git_object(s2, ignore_unresolved=c["ignore"]).hex())
                except ValueError as e:
                    f.append("unresolved:" + repr(sorted((a.hex(), b.hex()) for a, b in e.args[1])))
                f.append(len(s2.branches))
            except Exception as e:
                f = ["error:" + exc_class(e)]
            facts.append([nm, f])
        res["shapes"] = facts
    except Exception as e:
        res["shapes"] = "error:" + exc_class(e)
    try:
        res["id_perm"] = _build([c["branches"][i] for i in c["perm"]]).id.hex()
    except Exception as e:
        res["id_perm"] = "error:" + exc_class(e)
    try:
        d = {"branches": {bytes.fromhex(n): (None if k is None else {"target": bytes.fromhex(t), "target_type": k})
                          for n, k, t in c["branches"]}}
        res["id_from_dict"] = Snapshot.from_dict(d).id.hex()
    except Exception as e:
        res["id_from_dict"] = "error:" + exc_class(e)
    # the caller goes on using its own working dict (next snapshot of the same origin): the first snapshot must not move
    try:
        from swh.model.model import SnapshotBranch, SnapshotTargetType
        d = kept[0]
        d[b"refs/heads/added-later"] = SnapshotBranch(target=b"\x11" * 20, target_type=SnapshotTargetType.REVISION)
        if len(d) > 1:
            del d[next(iter(d))]
        for k in list(d)[:1]:
            d[k] = None
        res["after_caller_mutation"] = [s.id.hex(), s.compute_hash().hex(),
                                        git_objects.snapshot_git_object(s, ignore_unresolved=True).hex(), len(s.branches)]
    except Exception as e:
        res["after_caller_mutation"] = "error:" + exc_class(e)
    return res


def enc_branches(b):
    if not b:
        return "."
    return "|".join("%s:%s:%s" % (hx(bytes.fromhex(n)), "-" if k is None else KCODE[k], "." if k is None else hx(bytes.fromhex(t)))
                    for n, k, t in b)


def requests(c, ires):
    e = enc_branches(c["branches"])
    r = ["snap %d %s" % (1 if c["ignore"] else 0, e), "snap 1 " + e,
         "snap 1 " + enc_branches([c["branches"][i] for i in c["perm"]])]
    if isinstance(ires.get("manifest_ignore"), str) and not ires["manifest_ignore"].startswith("error"):
        r.append("dec " + hx(bytes.fromhex(ires["manifest_ignore"])))
    return r


def model(c, resp):
    res = {"snap": resp[0], "snap_ignore": resp[1], "snap_perm": resp[2]}
    if len(resp) > 3:
        res["decoded_impl_manifest"] = resp[3]
    return res


def spec_manifest(branches):
    """the documented manifest, written from the property statement (independent of both model and code)"""
    out = b""
    for n, k, t in sorted(((bytes.fromhex(n), k, t) for n, k, t in branches), key=lambda x: x[0]):
        tid = b"" if k is None else bytes.fromhex(t)
        kind = b"dangling" if k is None else k.encode()
        out += kind + b" " + n + b"\x00" + str(len(tid)).encode() + b":" + tid
    return b"snapshot " + str(len(out)).encode() + b"\x00" + out


def oracle(c, ires, mres):
    b = c["branches"]
    valid = all(k is None or k == "alias" or len(t) == 40 for _, k, t in b)
    if "error" in ires:
        return ("a valid snapshot was rejected with " + ires["error"]) if valid else None
    if not valid:
        return None
    names = {bytes.fromhex(n) for n, _, _ in b}
    if "\x00".encode() in b"".join(names) and any(b"\x00" in n for n in names):
        nulfree = False
    else:
        nulfree = True
    man = bytes.fromhex(ires["manifest_ignore"]) if not ires["manifest_ignore"].startswith("error") else None
    if man is None:
        return "formatting with ignore_unresolved=True failed: " + ires["manifest_ignore"]
    if ires["id"] != hashlib.sha1(man).hexdigest():
        return "id is not the SHA-1 of the manifest"
    if man != spec_manifest(b):
        return "manifest differs from the documented one (sorted by name, kind SP name NUL len ':' target)"
    if ires["manifest_from_dict_arg"] != ires["manifest_ignore"]:
        return "snapshot_git_object(<dict>) differs from snapshot_git_object(<Snapshot>)"
    if ires["id_perm"] != ires["id"] or ires["id_from_dict"] != ires["id"]:
        return "id depends on insertion order or on the construction route"
    if ires["swhid"] != "swh:1:snp:" + ires["id"]:
        return "swhid() does not carry the id"
    if isinstance(ires.get("shapes"), str):
        return "building the snapshot from other container shapes crashed: " + ires["shapes"]
    for nm, f in ires.get("shapes", []):
        want_last = ires["manifest"] if "manifest" in ires else ("unresolved:" + repr(sorted((a, t) for a, t in ires["unresolved"]))
                                                                 if isinstance(ires.get("unresolved"), list) else None)
        if f[0] != ires["id"] or f[1] != ires["id"] or f[2] != len(b) or f[4] != len(b) or (want_last is not None and f[3] != want_last):
            return ("a snapshot whose branches are given as a %s differs from the one built from a plain dict "
                    "(id, compute_hash, number of branches before/after formatting, manifest or unresolved report): %s" % (nm, str(f)[:160]))
    if ires["after_caller_mutation"] != [ires["id"], ires["id"], ires["manifest_ignore"], len(b)]:
        return ("after the caller mutated the dict it had passed as `branches`, the snapshot's id / compute_hash() / manifest / "
                "number of branches are no longer those of the snapshot that was built: %s" % str(ires["after_caller_mutation"])[:120])
    want_unres = sorted((bytes.fromhex(n), bytes.fromhex(t)) for n, k, t in b
                        if k == "alias" and (bytes.fromhex(t) not in names or bytes.fromhex(t) == bytes.fromhex(n)))
    if "unresolved" in ires:
        if c["ignore"]:
            return "raised although asked to ignore unresolved aliases"
        if ires["unresolved"] == "malformed ValueError args" or \
                sorted((bytes.fromhex(a), bytes.fromhex(t)) for a, t in ires["unresolved"]) != want_unres:
            return "the reported unresolved aliases are not exactly the aliases to a missing branch or to themselves"
    elif "manifest" in ires:
        if want_unres and not c["ignore"]:
            return "unresolved aliases were not reported"
        if ires["manifest"] != ires["manifest_ignore"]:
            return "manifest depends on ignore_unresolved"
    else:
        return "formatting raised " + str(ires.get("format_error"))
    if nulfree:
        got = mres.get("decoded_impl_manifest", "")
        if not got.startswith("ok"):
            return "the manifest cannot be decoded back into the branch map: " + got
        dec = [] if got == "ok ." else [tuple(unhx(x) for x in t.split(":")) for t in got[3:].split("|")]
        want = sorted(((b"dangling" if k is None else k.encode()), bytes.fromhex(n), b"" if k is None else bytes.fromhex(t))
                      for n, k, t in b)
        if sorted(dec) != want:
            return "decoding the manifest does not give back the branch map"
    return None


def compare(c, ires, mres):
    if "error" in ires:
        return None if mres["snap"] == "err " + ires["error"] else \
            "implementation raised %s, model says %s" % (ires["error"], mres["snap"][:40])
    if mres["snap"].startswith("err"):
        return "implementation accepted, model says " + mres["snap"]
    if "unresolved" in ires:
        want = "unresolved " + "|".join(hx(bytes.fromhex(a)) + ":" + hx(bytes.fromhex(t)) for a, t in ires["unresolved"])
        if mres["snap"] != want:
            return "unresolved list (content or order) differs: model %s" % mres["snap"][:200]
    else:
        if not mres["snap"].startswith("ok "):
            return "model raises, implementation formats"
        if mres["snap"].split(" ")[1] != hx(bytes.fromhex(ires["manifest"])):
            return "manifest bytes differ between model and implementation"
    _, man, sha = mres["snap_ignore"].split(" ")
    if man != hx(bytes.fromhex(ires["manifest_ignore"])) or sha != ires["id"]:
        return "manifest/id (ignore_unresolved=True) differ between model and implementation"
    if mres["snap_perm"] != mres["snap_ignore"]:
        return "MODEL is order-dependent on this input (model bug)"
    return None


def shrink(c):
    b = c["branches"]
    for k in range(len(b)):
        sub = b[:k] + b[k + 1:]
        yield {"branches": sub, "perm": list(reversed(range(len(sub)))), "ignore": c["ignore"]}
    for k, (n, kd, t) in enumerate(b):
        nm = bytes.fromhex(n)
        if len(nm) > 1 and nm[:-1].hex() not in {x[0] for x in b}:
            yield {"branches": b[:k] + [[nm[:-1].hex(), kd, t]] + b[k + 1:], "perm": c["perm"], "ignore": c["ignore"]}


# functions of /repo whose executed-line coverage by this run is reported in the evidence
ANCHORS = [('swh/model/git_objects.py', 'snapshot_git_object'),
           ('swh/model/model.py', 'SnapshotBranch.check_target'),
           ('swh/model/model.py', 'Snapshot._compute_hash_from_attributes'),
           ('swh/model/model.py', 'Snapshot.from_dict')]


def coq_cases(cases):
    """snap_manifest evaluated by vm_compute inside Coq vs the extracted driver (extraction cross-check)"""
    from . import core
    cases = [c for c in cases if len(c["branches"]) <= 8 and all(k is None or k == "alias" or len(t) == 40 for _, k, t in c["branches"])]
    ty = {"content": "BContent", "directory": "BDirectory", "revision": "BRevision", "release": "BRelease", "snapshot": "BSnapshot", "alias": "BAlias"}
    def nl(h):
        return "[" + "; ".join("%d%%N" % b for b in bytes.fromhex(h)) + "]"
    def coq_branches(bs):
        return "[" + "; ".join("(%s, %s)" % (nl(n), "None" if k is None else "Some {| b_target := %s; b_type := %s |}" % (nl(t), ty[k]))
                               for n, k, t in bs) + "]"
    src = ("From Coq Require Import List NArith.\nFrom SWH.lib Require Import Bytes.\nFrom SWH.model Require Import Snap.\nImport ListNotations.\n" + core.COQ_CHECKSUM +
           "\nDefinition cases : list branches := [" + ";\n ".join(coq_branches(c["branches"]) for c in cases) + "].\n"
           "Eval vm_compute in map (fun b => cksum (snap_manifest b)) cases.\n")
    resp = core.run_driver(ID, ["snap 1 " + enc_branches(c["branches"]) for c in cases])
    exp = [core.py_cksum(unhx(r.split(" ")[1])) if r.startswith("ok ") else 0 for r in resp]
    return src, exp
