"""C05 - snapshot ids (git_objects.snapshot_git_object, model.Snapshot / SnapshotBranch)."""
import hashlib
import itertools

from .core import exc_class, hx, unhx

ID = "C05"
PROPS = "Props/C05.v"
EXTRACT = "extract/ExC05.v"
OBLIGATION = "snapshot_git_object"
REQUESTS_NEED_IMPL = True
THEOREMS = ["C05_order_free", "C05_sorted", "C05_decode", "C05_record_determines_branch", "C05_injective",
            "C05_unresolved_exact", "C05_raise_iff", "C05_raise_carries_list", "C05_id_ignores",
            "C05_ok_same_manifest", "C05_target_types_table", "C05_satisfiable"]
RULE = ("branch maps of 0-30 branches (+ hand-built corners: alias to a dangling branch, chains, 2-cycles, the empty name, "
        "targets that look like manifest text, body lengths 99/100/999/1000, one map of 300 branches; 1000 in the thorough tier); "
        "prefix-chain names over an adversarial alphabet; all six target kinds + "
        "dangling; alias targets: existing / missing / self / chains / 0-1000 arbitrary bytes incl. NUL, ':' and digits; "
        "each map in two insertion orders; ignore_unresolved True / False / left at its default, on the Snapshot and on the deprecated "
        "dict form (same dict object used several times and compared afterwards, OrderedDict, dict without 'id', dict with a stale id; "
        "warning filter 'always' or 'ignore'); "
        "constructor, from_dict (twice on one dict), evolve(branches=...), a second snapshot from the caller's working dict; "
        "a GIVEN id (own / constant / id of the previous case, each first seen on another object): compute_hash, formatting, check(); "
        "after every construction the branch map is also given as defaultdict / __missing__ subclass / OrderedDict / copy()-overriding "
        "subclass / ImmutableDict of a dict, of a list of pairs, of a one-shot iterator, of an ImmutableDict / dict keyed by a bytes "
        "subclass / mappingproxy (same id, same unresolved report, nothing inserted by formatting) and the caller then goes on "
        "changing the object it gave; the caller's own dict is mutated (branch added, removed, set to None) and id / compute_hash / "
        "manifest re-read; the dict returned by to_dict() is mutated; branches.copy_pop (present / absent key) and dict() views; "
        "a target / name / target type equal to a valid one but of another type (bytearray changed afterwards, bytes subclass, "
        "memoryview, str, enum value as str, release enum): refused, or the snapshot of the plain values; invalid "
        "branches (non-alias target not 20 bytes) included; the wide steps run on every case of the thorough tier and on a quarter "
        "of the quick tier's (maps of at most 13 branches); non-trivial = >=2 branches incl. an alias or a dangling one")
TRUSTED = ["Python sorted() on (name, branch) tuples with distinct names = byte order of names; '%d' formatting; dict semantics",
           "lib/Sha1.v as an instance of the hash oracle (validated against hashlib on every case)",
           "harness/c05.py spec_manifest (the documented manifest, written from the property text) is the reference for the routes the "
           "Coq model does not speak about: object identity and aliasing of containers, argument types, the deprecated dict form, "
           "given ids, evolve, copy_pop; attrs-generated __init__ / evolve / validate and the collections.abc.Mapping mixin methods "
           "(__contains__, get, __eq__) behind ImmutableDict"]
ASSUMPTIONS = ["branch names contain no NUL byte for the decode/injectivity theorems (the property's domain)"]

KINDS = ["content", "directory", "revision", "release", "snapshot", "alias"]
KCODE = {"content": "c", "directory": "d", "revision": "v", "release": "r", "snapshot": "s", "alias": "a"}
ALPHA = [b"a", b"b", b"/", b".", b"-", b"0", b" ", b"\n", b":", b"\x80", b"\xff", b"A", b"9"]


def gen_names(rng, n, nul):
    names = set()
    base = [b"HEAD", b"refs/heads/master", b"refs/heads/master/x", b"refs/tags/v1", b"a", b"ab", b"a/", b"", b"\xff", "e\u0301".encode(), "\u212b".encode(), "\uf900".encode(), "cafe\u0301".encode()]
    while len(names) < n:
        r = rng.random()
        if r < 0.35 and names:
            nm = rng.choice(sorted(names)) + rng.choice(ALPHA)
        elif r < 0.55:
            nm = rng.choice(base)
        elif r < 0.63:
            # a literal harvested from the code under test, spliced into a usual name
            from .gitobj_common import splice_token
            nm = splice_token(rng, rng.choice(base), "bytes")
        else:
            nm = b"".join(rng.choice(ALPHA) for _ in range(rng.randrange(1, 6)))
        if nul and rng.random() < 0.3:
            nm += b"\x00x"
        names.add(nm)
    return sorted(names)


def gen_map(rng, n, kind):
    names = gen_names(rng, n, kind == "nul")
    br = []
    for nm in names:
        r = rng.random()
        if r < 0.15:
            br.append([nm.hex(), None, None])
        elif r < 0.5:
            c = rng.random()
            if c < 0.35 and names:
                tg = rng.choice(names)                       # existing (maybe itself)
            elif c < 0.5:
                tg = nm                                      # self
            elif c < 0.7:
                tg = rng.choice(names) + b"x" if names else b"x"   # missing
            else:
                tg = bytes(rng.choice([0, 58, 48, 57, 10, 32, rng.randrange(256)]) for _ in range(rng.choice([0, 1, 2, 9, 10, 11, 99, 100, 300])))
            br.append([nm.hex(), "alias", tg.hex()])
        else:
            tl = 20 if kind != "badlen" or rng.random() < 0.5 else rng.choice([0, 19, 21])
            br.append([nm.hex(), rng.choice(KINDS[:5]), bytes(rng.randrange(256) for _ in range(tl)).hex()])
    rng.shuffle(br)
    return br


def gen(rng, tier):
    n_cases = 1200 if tier == "quick" else 40000
    cases = [{"branches": [], "perm": [], "ignore": False}]
    kinds = ["ok"] * 7 + ["nul", "badlen", "ok"]
    for k in range(n_cases):
        n = rng.choice([0, 1, 2, 2, 3, 3, 4, 5, 8, 13, 30])
        b = gen_map(rng, n, kinds[k % len(kinds)])
        perm = list(range(len(b)))
        rng.shuffle(perm)
        cases.append({"branches": b, "perm": perm, "ignore": rng.random() < 0.5})
        if tier == "quick" and (rng.random() < 0.75 or n > 13):
            cases[-1]["wide"] = False
    cases += corner_cases(rng, tier)
    # deterministic sweep over the literals harvested from the code under test (see c04): branch names and alias targets
    from .gitobj_common import source_tokens
    toks = source_tokens("bytes")
    for i in range(0, len(toks), 5):
        grp = toks[i:i + 5]
        b = []
        for j, t in enumerate(grp):
            b.append([(t + b"x").hex(), "revision", (bytes([(i + j) % 251 + 1]) * 20).hex()])
            b.append([(b"refs/heads/" + t).hex(), "alias", (t + b"x").hex()])
            b.append([t.hex(), "alias", (t + b"-missing").hex()])
        seen, b2 = set(), []
        for e in b:
            if e[0] not in seen:
                seen.add(e[0]); b2.append(e)
        cases.append({"branches": b2, "perm": list(reversed(range(len(b2)))), "ignore": i % 2 == 0, "wide": False})
    if tier == "thorough":
        names = [b"a", b"ab", b"a/", b"b"]
        tgts = [None] + [(k, (bytes([i + 1]) * 20).hex()) for i, k in enumerate(KINDS[:5])] + \
               [("alias", t.hex()) for t in (b"a", b"ab", b"zz")]
        for r in range(0, 4):
            for combo in itertools.combinations(names, r):
                for assign in itertools.product(tgts, repeat=r):
                    b = [[nm.hex(), None if a is None else a[0], None if a is None else a[1]] for nm, a in zip(combo, assign)]
                    cases.append({"branches": b, "perm": list(reversed(range(r))), "ignore": False})
    return cases


def corner_cases(rng, tier):
    """hand-built maps at the boundaries the random generator reaches only by luck"""
    rev = lambda i: ["revision", (bytes([i % 251 + 1]) * 20).hex()]
    hx_ = lambda x: x.hex()
    maps = [
        [[hx_(b"HEAD"), "alias", hx_(b"refs/heads/main")], [hx_(b"refs/heads/main"), None, None]],          # alias to an existing dangling branch
        [[hx_(b"a"), "alias", hx_(b"b")], [hx_(b"b"), "alias", hx_(b"c")], [hx_(b"c"), "alias", hx_(b"d")]],  # chain ending on a missing branch
        [[hx_(b"a"), "alias", hx_(b"b")], [hx_(b"b"), "alias", hx_(b"a")]],                                   # 2-cycle: both resolved
        [[hx_(b""), "alias", hx_(b"")]],                                                                      # the empty name aliasing itself
        [[hx_(b"x"), "alias", hx_(b"")]],                                                                     # alias to the (missing) empty name
        [[hx_(b"x"), "alias", hx_(b"")], [hx_(b""), None, None]],                                             # ... present and dangling
        [[hx_(b"x"), "alias", hx_(b"")], [hx_(b""), "content", (b"\x00" * 20).hex()]],                       # ... present, all-zero id
        [[hx_(b"dangling"), "alias", hx_(b"alias")], [hx_(b"alias"), None, None], [hx_(b"snapshot 0"), "snapshot", (b"0" * 20).hex()]],
        [[hx_(b"a"), "alias", hx_(b"20:" + b"\x01" * 20 + b"dangling b\x000:")]],                            # a target that looks like the rest of a manifest
    ]
    # body length just below / at a new digit of the header: "dangling " + name + NUL + "0:" = len(name) + 12
    for ln in (87, 88, 987, 988) + ((9987, 9988) if tier == "thorough" else ()):
        maps.append([[(b"n" * ln).hex(), None, None]])
    maps.append([[hx_(b"t"), "alias", (b"\x00:7" * 333 + b":")[:n].hex()] for n in (999,)])
    maps.append([[hx_(b"t"), "alias", (b"\x00:7" * 334)[:1000].hex()]])
    big = 300 if tier == "quick" else 1000
    m = []
    for i in range(big):
        nm = b"refs/heads/%d" % i if i % 3 else b"refs/tags/%d\xff" % i
        m.append([nm.hex()] + (rev(i) if i % 5 else [None, None] if i % 2 else ["alias", (b"refs/heads/%d" % (i + (7 if i % 4 else big))).hex()]))
    rng.shuffle(m)
    maps.append(m)
    out = []
    for m in maps:
        perm = list(range(len(m)))
        rng.shuffle(perm)
        for ig in (False, True):
            out.append({"branches": m, "perm": perm, "ignore": ig})
        if len(m) > 100:
            out[-1]["wide"] = out[-2]["wide"] = False
            out.pop()
    return out


def nontrivial(c):
    b = c["branches"]
    return len(b) >= 2 and any(k is None or k == "alias" for _, k, _ in b)


def classify(c):
    b = c["branches"]
    ks = ["n=%s" % (len(b) if len(b) < 5 else "5-13" if len(b) <= 13 else ">13")]
    names = {bytes.fromhex(n) for n, _, _ in b}
    for n, k, t in b:
        if k is None:
            ks.append("dangling")
        elif k == "alias":
            tg = bytes.fromhex(t)
            ks.append("alias-self" if tg == bytes.fromhex(n) else "alias-resolved" if tg in names else "alias-missing")
            if tg in names and tg != bytes.fromhex(n):
                to = [x for x in b if x[0] == t][0]
                ks.append("alias-to-dangling" if to[1] is None else "alias-to-alias" if to[1] == "alias" else "alias-to-object")
            if not tg:
                ks.append("alias-target-empty")
            if len(tg) >= 100:
                ks.append("alias-target>=100B")
        if not n:
            ks.append("empty-name")
        if b"\x00" in bytes.fromhex(n):
            ks.append("nul-in-name")
    if c["ignore"]:
        ks.append("ignore_unresolved")
    if c.get("wide", True):
        ks.append("wide-steps")
    if sum(1 for nn, k, t in b if k == "alias" and (bytes.fromhex(t) not in names or t == nn)) >= 2:
        ks.append(">=2-unresolved")
    return sorted(set(ks))


def _build(branches, keep=None):
    from swh.model.model import Snapshot, SnapshotBranch, SnapshotTargetType
    d = {}
    for n, k, t in branches:
        d[bytes.fromhex(n)] = None if k is None else SnapshotBranch(target=bytes.fromhex(t), target_type=SnapshotTargetType(k))
    if keep is not None:
        keep.append(d)
    return Snapshot(branches=d)


_LAST_ID = [b"\x02" * 20, b"\x03" * 20]


def impl(c):
    from swh.model import git_objects
    from swh.model.model import Snapshot
    res = {}
    kept = []
    try:
        s = _build(c["branches"], kept)
    except Exception as e:
        return {"error": exc_class(e)}
    res["id"] = s.id.hex()
    res["swhid"] = str(s.swhid())
    try:
        res["manifest"] = git_objects.snapshot_git_object(s, ignore_unresolved=c["ignore"]).hex()
    except ValueError as e:
        try:
            res["unresolved"] = [[a.hex(), b.hex()] for a, b in e.args[1]]
        except Exception:
            res["unresolved"] = "malformed ValueError args"
    except Exception as e:
        res["format_error"] = exc_class(e)
    try:
        res["manifest_ignore"] = git_objects.snapshot_git_object(s, ignore_unresolved=True).hex()
    except Exception as e:
        res["manifest_ignore"] = "error:" + exc_class(e)
    try:
        import warnings
        with warnings.catch_warnings():
            warnings.simplefilter("ignore")
            res["manifest_from_dict_arg"] = git_objects.snapshot_git_object(s.to_dict(), ignore_unresolved=True).hex()   # deprecated route
            # ... carrying an id that is not its own (one value for the whole run, and the id of the previous case):
            # the id key of the dict must not decide what is formatted
            for stale in (b"\x01" * 20, _LAST_ID[0]):
                git_objects.snapshot_git_object({"id": stale, "branches": {}}, ignore_unresolved=True)      # another object seen under that id first (self-contained replay)
                m2 = git_objects.snapshot_git_object(dict(s.to_dict(), id=stale), ignore_unresolved=True).hex()
                if m2 != res["manifest_from_dict_arg"]:
                    res["manifest_from_dict_arg"] = "differs when the dict carries the id %s: %s" % (stale.hex(), m2[:80])
            _LAST_ID[0] = s.id
    except Exception as e:
        res["manifest_from_dict_arg"] = "error:" + exc_class(e)
    # the branch map given in other container shapes (a defaultdict or a __missing__ subclass must not leak its
    # behaviour into the snapshot: looking up a missing alias target must stay a miss)
    try:
        import collections
        from swh.model.collections import ImmutableDict

        class _Missing(dict):
            def __missing__(self, k):
                return None

        class _CopySelf(dict):
            def copy(self):
                return self
        import types
        plain = dict(_build(c["branches"]).branches.items())
        under = [dict(plain), list(plain.items()), dict(plain)]
        # name -> (what is given as `branches`, the caller's own mutable object behind it or None)
        shapes = {"defaultdict": collections.defaultdict(lambda: None, plain), "missing": _Missing(plain),
                  "ordered": collections.OrderedDict(plain), "copyself": _CopySelf(plain)}
        shapes = {k: (v, v) for k, v in shapes.items()}
        shapes["idict"] = (ImmutableDict(under[0]), under[0])
        if c.get("wide", True):
            shapes.update({"pairs_list": (ImmutableDict(under[1]), under[1]),
                           "pairs_iter": (ImmutableDict(iter(list(plain.items()))), None),
                           "idict_of_idict": (ImmutableDict(ImmutableDict(plain)), None),
                           "keys_of_a_bytes_subclass": ({_B(k): v for k, v in plain.items()}, None),
                           "mappingproxy": (types.MappingProxyType(under[2]), under[2])})
        facts = []
        for nm, (arg, mine) in shapes.items():
            try:
                s2 = Snapshot(branches=arg)
                f = [s2.id.hex(), s2.compute_hash().hex(), len(s2.branches)]
                try:
                    f.append(git_objects.snapshot_git_object(s2, ignore_unresolved=c["ignore"]).hex())
                except ValueError as e:
                    f.append("unresolved:" + repr(sorted((a.hex(), b.hex()) for a, b in e.args[1])))
                f.append(len(s2.branches))
                # ... and the caller goes on using the object it gave (quick tier, big maps: two shapes only)
                if not c.get("wide", True) and nm not in ("ordered", "idict"):
                    facts.append([nm, f])
                    continue
                if isinstance(mine, list):
                    mine.append((b"refs/heads/added-later", None))
                    del mine[0]
                elif mine is not None:
                    mine[b"refs/heads/added-later"] = None
                    if len(mine) > 1:
                        del mine[next(iter(mine))]
                f += [s2.id.hex(), s2.compute_hash().hex(), len(s2.branches)]
            except Exception as e:
                f = ["error:" + exc_class(e)]
            facts.append([nm, f])
        res["shapes"] = facts
    except Exception as e:
        res["shapes"] = "error:" + exc_class(e)
    try:
        res["id_perm"] = _build([c["branches"][i] for i in c["perm"]]).id.hex()
    except Exception as e:
        res["id_perm"] = "error:" + exc_class(e)
    try:
        d = {"branches": {bytes.fromhex(n): (None if k is None else {"target": bytes.fromhex(t), "target_type": k})
                          for n, k, t in c["branches"]}}
        res["id_from_dict"] = Snapshot.from_dict(d).id.hex()
    except Exception as e:
        res["id_from_dict"] = "error:" + exc_class(e)
    # the caller goes on using its own working dict (next snapshot of the same origin): the first snapshot must not move
    try:
        from swh.model.model import SnapshotBranch, SnapshotTargetType
        d = kept[0]
        d[b"refs/heads/added-later"] = SnapshotBranch(target=b"\x11" * 20, target_type=SnapshotTargetType.REVISION)
        if len(d) > 1:
            del d[next(iter(d))]
        for k in list(d)[:1]:
            d[k] = None
        res["after_caller_mutation"] = [s.id.hex(), s.compute_hash().hex(),
                                        git_objects.snapshot_git_object(s, ignore_unresolved=True).hex(), len(s.branches)]
    except Exception as e:
        res["after_caller_mutation"] = "error:" + exc_class(e)
    # the other routes / sequences; on big maps of the quick tier only the formatting routes (c["wide"] is False there)
    for nm, fn in (("routes", _routes), ("explicit_id", _explicit_id), ("derived", _derived), ("handed_out", _handed_out),
                   ("odd", _odd)) if c.get("wide", True) else (("routes", _routes),):
        try:
            res[nm] = fn(c, s, kept[0])
        except Exception as e:
            res[nm] = "error:" + exc_class(e)
    return res


def _fmt(arg, *a, **kw):
    """one formatting, canonical: ["ok", manifest] | ["unresolved", sorted pairs] | ["error", class]"""
    from swh.model import git_objects
    try:
        return ["ok", git_objects.snapshot_git_object(arg, *a, **kw).hex()]
    except ValueError as e:
        try:
            return ["unresolved", sorted([x.hex(), y.hex()] for x, y in e.args[1])]
        except Exception:
            return ["error", "malformed ValueError args"]
    except Exception as e:
        return ["error", exc_class(e)]


def _state(s):
    """everything the property says about one snapshot object, re-read now"""
    return [s.id.hex(), s.compute_hash().hex(), _fmt(s, ignore_unresolved=True), len(s.branches), str(s.swhid()), s.unique_key().hex()]


def _triples(d):
    return [[n.hex(), None if b is None else b.target_type.value, None if b is None else b.target.hex()] for n, b in d.items()]


def _routes(c, s, _d):
    """the option left at its default / given explicitly, on the object and on the deprecated dict form; the same dict
    given twice; the dict as a subclass; the dict without its id; the caller's dict must come back untouched"""
    import collections
    import warnings
    from swh.model.model import Snapshot
    out = {}
    with warnings.catch_warnings(record=True):
        # the deprecated route warns: under "always" every call goes through the warning machinery, under "ignore" none does
        warnings.simplefilter("always" if c["ignore"] else "ignore")
        wide = c.get("wide", True)
        out["obj_default"] = _fmt(s)
        td = s.to_dict()
        if not wide:
            out["dict_false"] = _fmt(td, ignore_unresolved=False)
            return out
        fresh = s.to_dict()
        out["obj_false"] = _fmt(s, ignore_unresolved=False)
        out["dict_default"] = _fmt(td)
        out["dict_false"] = _fmt(td, ignore_unresolved=False)            # the same dict object again
        out["dict_true_again"] = _fmt(td, ignore_unresolved=True)        # ... and again
        out["dict_subclass"] = _fmt(collections.OrderedDict(td))
        noid = {"branches": td["branches"]}
        out["dict_noid"] = [_fmt(noid, ignore_unresolved=c["ignore"]), sorted(noid) == ["branches"]]
        out["dict_untouched"] = td == fresh and list(td) == list(fresh) and list(td["branches"]) == list(fresh["branches"])
        del fresh["id"]
        fd = dict(fresh)
        a = Snapshot.from_dict(fd)
        b = Snapshot.from_dict(fd)
        out["from_dict_twice"] = [a.id.hex(), b.id.hex(), fd == fresh and list(fd) == list(fresh), a == s]
    return out


def _explicit_id(c, s, _d):
    """a snapshot that is GIVEN an id (its own, a constant, the id of the previous case): formatting and compute_hash read
    the branches, never the id; check() accepts exactly the right one"""
    from swh.model.model import Snapshot
    out = []
    plain = dict(s.branches.items())
    for stale in (s.id, b"\x07" * 20, _LAST_ID[1]):
        other = Snapshot(branches={}, id=stale)                # another object seen under that id first (self-contained replay)
        _fmt(other, ignore_unresolved=True)
        other.compute_hash()
        s2 = Snapshot(branches=plain, id=stale)
        try:
            s2.check()
            chk = "passes"
        except Exception:
            chk = "raises"
        out.append([stale == s.id, s2.id == stale, s2.compute_hash().hex(), _fmt(s2, ignore_unresolved=True),
                    _fmt(s2, ignore_unresolved=False), chk, str(s2.swhid()) == "swh:1:snp:" + stale.hex()])
    _LAST_ID[1] = s.id
    try:
        s.check()
        out.append("passes")
    except Exception as e:
        out.append("raises " + exc_class(e))
    return out


def _derived(c, s, d):
    """snapshots derived from the first one: evolve(branches=<the caller's working dict, which has changed since>) and a second
    construction from that same dict; both get the id of THEIR branch map, the first one keeps its own"""
    from swh.model.model import Snapshot
    tri = _triples(d)
    e = s.evolve(branches=d)
    n = Snapshot(branches=d)
    e2 = s.evolve(branches=dict(s.branches.items()))
    try:
        e3 = _state(s.evolve(branches=d, id=b"\x09" * 20))      # evolve computes the id itself: refused today
    except Exception:
        e3 = "refused"
    return {"branches": tri, "evolve": _state(e), "second": _state(n), "evolve_same": e2.id.hex(), "evolve_with_id": e3, "first": _state(s)}


def _handed_out(c, s, _d):
    """containers the snapshot hands out: to_dict() (mutated by the caller afterwards), ImmutableDict.copy_pop (the rest is a
    snapshot's worth of branches, the original keeps all of them), dict()/items() views"""
    from swh.model.model import Snapshot
    out = {}
    td = s.to_dict()
    td["branches"][b"refs/heads/added-to-the-returned-dict"] = None
    for k in list(td["branches"])[:2]:
        if td["branches"][k]:
            td["branches"][k]["target"] = b"changed"
            td["branches"][k]["target_type"] = "alias"
        else:
            del td["branches"][k]
    td["id"] = b"\x05" * 20
    out["after_to_dict_mutation"] = _state(s)
    names = [bytes.fromhex(n) for n, _, _ in c["branches"]]
    pops = []
    for key in names[:1] + [b"no/such/branch\xfe"]:
        v, rest = s.branches.copy_pop(key)
        pops.append([key.hex(), v is None, _triples(dict(rest.items())), Snapshot(branches=rest).id.hex()])
    out["copy_pop"] = pops
    view = dict(s.branches)
    view[b"zz-added-to-a-view"] = None
    view.pop(names[0], None) if names else None
    list(s.branches.items())
    out["after_copy_pop"] = _state(s)
    return out


class _B(bytes):
    pass


def _odd(c, s, _d):
    """values equal to a valid one but of another type: a branch target / name given as a bytes subclass, a bytearray, a
    memoryview, a str; a target type given as its string value or as the release enum.  The library may refuse (today it does,
    except for names of a bytes subclass); if it accepts, the snapshot must be the one of the plain values, and stay so when
    the caller changes its bytearray"""
    from swh.model.model import Snapshot, SnapshotBranch, SnapshotTargetType, ReleaseTargetType
    out = []
    b = c["branches"]
    if not b:
        return out
    mid = len(b) // 2
    live = [i for i in list(range(mid, len(b))) + list(range(mid)) if b[i][1] is not None]
    for what in ("bytearray", "subclass", "memoryview", "str", "tt_str", "tt_release", "name_subclass", "name_str"):
        d = {}
        mut = None
        k = mid if what.startswith("name") or not live else live[0]
        try:
            for i, (n, kd, t) in enumerate(b):
                nm = bytes.fromhex(n)
                if i == k and what == "name_subclass":
                    nm = _B(nm)
                if i == k and what == "name_str":
                    nm = nm.decode("latin-1")
                if kd is None:
                    d[nm] = None
                    continue
                tg, tt = bytes.fromhex(t), SnapshotTargetType(kd)
                if i == k:
                    if what == "bytearray":
                        tg = mut = bytearray(tg)
                    elif what == "subclass":
                        tg = _B(tg)
                    elif what == "memoryview":
                        tg = memoryview(tg)
                    elif what == "str":
                        tg = tg.decode("latin-1")
                    elif what == "tt_str":
                        tt = kd
                    elif what == "tt_release" and kd != "alias":
                        tt = ReleaseTargetType(kd)
                d[nm] = SnapshotBranch(target=tg, target_type=tt)
            s2 = Snapshot(branches=d)
        except Exception as e:
            out.append([what, "refused", exc_class(e)])
            continue
        f = [what, "accepted", _state(s2)]
        if mut is not None:
            mut += b"!"
            if len(mut) > 1:
                mut[0] ^= 0xff
            f.append(_state(s2))
        out.append(f)
    return out


def enc_branches(b):
    if not b:
        return "."
    return "|".join("%s:%s:%s" % (hx(bytes.fromhex(n)), "-" if k is None else KCODE[k], "." if k is None else hx(bytes.fromhex(t)))
                    for n, k, t in b)


def requests(c, ires):
    e = enc_branches(c["branches"])
    r = ["snap %d %s" % (1 if c["ignore"] else 0, e), "snap 1 " + e,
         "snap 1 " + enc_branches([c["branches"][i] for i in c["perm"]])]
    if isinstance(ires.get("manifest_ignore"), str) and not ires["manifest_ignore"].startswith("error"):
        r.append("dec " + hx(bytes.fromhex(ires["manifest_ignore"])))
    return r


def model(c, resp):
    res = {"snap": resp[0], "snap_ignore": resp[1], "snap_perm": resp[2]}
    if len(resp) > 3:
        res["decoded_impl_manifest"] = resp[3]
    return res


def spec_manifest(branches):
    """the documented manifest, written from the property statement (independent of both model and code)"""
    out = b""
    for n, k, t in sorted(((bytes.fromhex(n), k, t) for n, k, t in branches), key=lambda x: x[0]):
        tid = b"" if k is None else bytes.fromhex(t)
        kind = b"dangling" if k is None else k.encode()
        out += kind + b" " + n + b"\x00" + str(len(tid)).encode() + b":" + tid
    return b"snapshot " + str(len(out)).encode() + b"\x00" + out


def oracle(c, ires, mres):
    b = c["branches"]
    valid = all(k is None or k == "alias" or len(t) == 40 for _, k, t in b)
    if "error" in ires:
        return ("a valid snapshot was rejected with " + ires["error"]) if valid else None
    if not valid:
        return None
    names = {bytes.fromhex(n) for n, _, _ in b}
    if "\x00".encode() in b"".join(names) and any(b"\x00" in n for n in names):
        nulfree = False
    else:
        nulfree = True
    man = bytes.fromhex(ires["manifest_ignore"]) if not ires["manifest_ignore"].startswith("error") else None
    if man is None:
        return "formatting with ignore_unresolved=True failed: " + ires["manifest_ignore"]
    if ires["id"] != hashlib.sha1(man).hexdigest():
        return "id is not the SHA-1 of the manifest"
    if man != spec_manifest(b):
        return "manifest differs from the documented one (sorted by name, kind SP name NUL len ':' target)"
    if ires["manifest_from_dict_arg"] != ires["manifest_ignore"]:
        return "snapshot_git_object(<dict>) differs from snapshot_git_object(<Snapshot>)"
    if ires["id_perm"] != ires["id"] or ires["id_from_dict"] != ires["id"]:
        return "id depends on insertion order or on the construction route"
    if ires["swhid"] != "swh:1:snp:" + ires["id"]:
        return "swhid() does not carry the id"
    if isinstance(ires.get("shapes"), str):
        return "building the snapshot from other container shapes crashed: " + ires["shapes"]
    for nm, f in ires.get("shapes", []):
        want_last = ires["manifest"] if "manifest" in ires else ("unresolved:" + repr(sorted((a, t) for a, t in ires["unresolved"]))
                                                                 if isinstance(ires.get("unresolved"), list) else None)
        if nm == "mappingproxy" and len(f) == 1:
            continue                                   # refused (a mapping that is neither a dict nor an ImmutableDict): nothing to check
        if len(f) < 5 or f[0] != ires["id"] or f[1] != ires["id"] or f[2] != len(b) or f[4] != len(b) or (want_last is not None and f[3] != want_last):
            return ("a snapshot whose branches are given as a %s differs from the one built from a plain dict "
                    "(id, compute_hash, number of branches before/after formatting, manifest or unresolved report): %s" % (nm, str(f)[:160]))
        if f[5:] and f[5:] != [ires["id"], ires["id"], len(b)]:
            return ("a snapshot whose branches were given as a %s moved when the caller went on using the object it had given "
                    "(id, compute_hash, number of branches re-read): %s" % (nm, str(f[5:])[:160]))
    if ires["after_caller_mutation"] != [ires["id"], ires["id"], ires["manifest_ignore"], len(b)]:
        return ("after the caller mutated the dict it had passed as `branches`, the snapshot's id / compute_hash() / manifest / "
                "number of branches are no longer those of the snapshot that was built: %s" % str(ires["after_caller_mutation"])[:120])
    want_unres = sorted((bytes.fromhex(n), bytes.fromhex(t)) for n, k, t in b
                        if k == "alias" and (bytes.fromhex(t) not in names or bytes.fromhex(t) == bytes.fromhex(n)))
    why = _oracle_wide(b, ires, want_unres, c["ignore"])
    if why:
        return why
    if "unresolved" in ires:
        if c["ignore"]:
            return "raised although asked to ignore unresolved aliases"
        if ires["unresolved"] == "malformed ValueError args" or \
                sorted((bytes.fromhex(a), bytes.fromhex(t)) for a, t in ires["unresolved"]) != want_unres:
            return "the reported unresolved aliases are not exactly the aliases to a missing branch or to themselves"
    elif "manifest" in ires:
        if want_unres and not c["ignore"]:
            return "unresolved aliases were not reported"
        if ires["manifest"] != ires["manifest_ignore"]:
            return "manifest depends on ignore_unresolved"
    else:
        return "formatting raised " + str(ires.get("format_error"))
    if nulfree:
        got = mres.get("decoded_impl_manifest", "")
        if not got.startswith("ok"):
            return "the manifest cannot be decoded back into the branch map: " + got
        dec = [] if got == "ok ." else [tuple(unhx(x) for x in t.split(":")) for t in got[3:].split("|")]
        want = sorted(((b"dangling" if k is None else k.encode()), bytes.fromhex(n), b"" if k is None else bytes.fromhex(t))
                      for n, k, t in b)
        if sorted(dec) != want:
            return "decoding the manifest does not give back the branch map"
    return None


def _sid(branches):
    return hashlib.sha1(spec_manifest(branches)).hexdigest()


def _state_of(branches):
    """what _state() must read on a snapshot of these branches (from the property statement)"""
    i = _sid(branches)
    return [i, i, ["ok", spec_manifest(branches).hex()], len(branches), "swh:1:snp:" + i, i]


def _oracle_wide(b, ires, want_unres, ignore):
    """the same statement on the other routes / call sequences: option at its default, deprecated dict form, given ids,
    derived snapshots, containers handed out, equal values of another type"""
    for k in ("routes", "explicit_id", "derived", "handed_out", "odd"):
        if isinstance(ires.get(k), str):
            return "the step '%s' crashed on a valid snapshot: %s" % (k, ires[k])
    spec = spec_manifest(b).hex()
    exp_true = ["ok", spec]
    exp_false = ["unresolved", [[n.hex(), t.hex()] for n, t in want_unres]] if want_unres else exp_true
    first = _state_of(b)
    r = ires.get("routes")
    if r is not None:
        want = {"obj_default": exp_false, "obj_false": exp_false, "dict_default": exp_false, "dict_false": exp_false,
                "dict_true_again": exp_true, "dict_untouched": True, "dict_subclass": exp_false,
                "dict_noid": [exp_true if ignore else exp_false, True], "from_dict_twice": [first[0], first[0], True, True]}
        text = {"obj_default": "snapshot_git_object(snapshot) with ignore_unresolved left at its default does not report exactly the unresolved aliases / the documented manifest",
                "obj_false": "snapshot_git_object(snapshot, ignore_unresolved=False) does not report exactly the unresolved aliases / the documented manifest",
                "dict_default": "snapshot_git_object(<dict>) with ignore_unresolved left at its default does not behave like the object form",
                "dict_false": "snapshot_git_object(<dict>, ignore_unresolved=False) does not behave like the object form",
                "dict_true_again": "snapshot_git_object(<dict>, ignore_unresolved=True) on a dict that was already formatted differs",
                "dict_untouched": "snapshot_git_object(<dict>) changed the caller's dict",
                "dict_subclass": "snapshot_git_object(<OrderedDict of the dict form>) differs",
                "dict_noid": "snapshot_git_object(<dict without an 'id'>, ignore_unresolved as in the case) differs [result, dict keys untouched]",
                "from_dict_twice": "Snapshot.from_dict used twice on one dict [id, id of the second, dict untouched, equal to the constructed snapshot]"}
        for k, w in want.items():
            if k in r and r[k] != w:
                return "%s: %s" % (text[k], str(r.get(k))[:160])
    e = ires.get("explicit_id")
    if e is not None:
        for own, kept_id, ch, m_true, m_false, chk, sw in e[:-1]:
            if not kept_id or not sw:
                return "a snapshot built with a given id does not carry it (id, swhid)"
            if ch != first[0] or m_true != exp_true or m_false != exp_false:
                return ("a snapshot built with a given id (%s) is not formatted / re-hashed from its branches: compute_hash %s, manifest %s"
                        % ("its own" if own else "not its own", ch, str(m_true)[:80]))
            if chk != ("passes" if own else "raises"):
                return "check() %s on a snapshot whose given id is %s the SHA-1 of its manifest" % (chk, "" if own else "not")
        if e[-1] != "passes":
            return "check() on a freshly built snapshot: " + e[-1]
    d = ires.get("derived")
    if d is not None:
        st = _state_of(d["branches"])
        if d["evolve"] != st:
            return "evolve(branches=...) does not give the snapshot of the new branch map: " + str(d["evolve"])[:160]
        if d.get("evolve_with_id", "refused") not in ("refused", st):
            return "evolve(branches=..., id=...) was accepted and the result does not carry the id of its branch map: " + str(d["evolve_with_id"])[:160]
        if d["second"] != st:
            return "a second snapshot built from the caller's working dict is not the snapshot of that dict: " + str(d["second"])[:160]
        if d["evolve_same"] != first[0] or d["first"] != first:
            return "deriving another snapshot moved the first one (or evolve with the same branches changed the id): " + str(d["first"])[:160]
    h = ires.get("handed_out")
    if h is not None:
        if h["after_to_dict_mutation"] != first:
            return "the caller changed the dict returned by to_dict() and the snapshot moved: " + str(h["after_to_dict_mutation"])[:160]
        for key, was_none, rest, rid in h["copy_pop"]:
            want_rest = [x for x in b if x[0] != key]
            gone = [x for x in b if x[0] == key]
            if sorted(map(repr, rest)) != sorted(map(repr, want_rest)) or rid != _sid(want_rest) or was_none != (not gone or gone[0][1] is None):
                return "branches.copy_pop(%s) is not the branch map without that branch (or its snapshot has another id)" % key
        if h["after_copy_pop"] != first:
            return "copy_pop / dict() views changed the snapshot they were taken from: " + str(h["after_copy_pop"])[:160]
    for f in ires.get("odd") or []:
        if f[1] == "accepted" and any(x != first for x in f[2:]):
            return ("a value equal to a valid one but of another type (%s) was accepted and the snapshot is not the one of the "
                    "plain values%s: %s" % (f[0], " after the caller changed its bytearray" if len(f) > 3 and f[2] == first else "", str(f[2:])[:160]))
    return None


def compare(c, ires, mres):
    if "error" in ires:
        return None if mres["snap"] == "err " + ires["error"] else \
            "implementation raised %s, model says %s" % (ires["error"], mres["snap"][:40])
    if mres["snap"].startswith("err"):
        return "implementation accepted, model says " + mres["snap"]
    if "unresolved" in ires:
        want = "unresolved " + "|".join(hx(bytes.fromhex(a)) + ":" + hx(bytes.fromhex(t)) for a, t in ires["unresolved"])
        if mres["snap"] != want:
            return "unresolved list (content or order) differs: model %s" % mres["snap"][:200]
    else:
        if not mres["snap"].startswith("ok "):
            return "model raises, implementation formats"
        if mres["snap"].split(" ")[1] != hx(bytes.fromhex(ires["manifest"])):
            return "manifest bytes differ between model and implementation"
    _, man, sha = mres["snap_ignore"].split(" ")
    if man != hx(bytes.fromhex(ires["manifest_ignore"])) or sha != ires["id"]:
        return "manifest/id (ignore_unresolved=True) differ between model and implementation"
    if mres["snap_perm"] != mres["snap_ignore"]:
        return "MODEL is order-dependent on this input (model bug)"
    return None


def shrink(c):
    b = c["branches"]
    for k in range(len(b)):
        sub = b[:k] + b[k + 1:]
        yield {"branches": sub, "perm": list(reversed(range(len(sub)))), "ignore": c["ignore"]}
    for k, (n, kd, t) in enumerate(b):
        nm = bytes.fromhex(n)
        if len(nm) > 1 and nm[:-1].hex() not in {x[0] for x in b}:
            yield {"branches": b[:k] + [[nm[:-1].hex(), kd, t]] + b[k + 1:], "perm": c["perm"], "ignore": c["ignore"]}


# functions of /repo whose executed-line coverage by this run is reported in the evidence
ANCHORS = [('swh/model/git_objects.py', 'snapshot_git_object'),
           ('swh/model/model.py', 'BaseHashableModel.evolve'),
           ('swh/model/model.py', 'BaseHashableModel.check'),
           ('swh/model/model.py', 'SnapshotBranch.from_dict'),
           ('swh/model/model.py', 'SnapshotBranch.check_target'),
           ('swh/model/model.py', 'Snapshot._compute_hash_from_attributes'),
           ('swh/model/model.py', 'Snapshot.from_dict')]


def coq_cases(cases):
    """snap_manifest evaluated by vm_compute inside Coq vs the extracted driver (extraction cross-check)"""
    from . import core
    cases = [c for c in cases if len(c["branches"]) <= 8 and all(k is None or k == "alias" or len(t) == 40 for _, k, t in c["branches"])]
    ty = {"content": "BContent", "directory": "BDirectory", "revision": "BRevision", "release": "BRelease", "snapshot": "BSnapshot", "alias": "BAlias"}
    def nl(h):
        return "[" + "; ".join("%d%%N" % b for b in bytes.fromhex(h)) + "]"
    def coq_branches(bs):
        return "[" + "; ".join("(%s, %s)" % (nl(n), "None" if k is None else "Some {| b_target := %s; b_type := %s |}" % (nl(t), ty[k]))
                               for n, k, t in bs) + "]"
    src = ("From Coq Require Import List NArith.\nFrom SWH.lib Require Import Bytes.\nFrom SWH.model Require Import Snap.\nImport ListNotations.\n" + core.COQ_CHECKSUM +
           "\nDefinition cases : list branches := [" + ";\n ".join(coq_branches(c["branches"]) for c in cases) + "].\n"
           "Eval vm_compute in map (fun b => cksum (snap_manifest b)) cases.\n")
    resp = core.run_driver(ID, ["snap 1 " + enc_branches(c["branches"]) for c in cases])
    exp = [core.py_cksum(unhx(r.split(" ")[1])) if r.startswith("ok ") else 0 for r in resp]
    return src, exp
