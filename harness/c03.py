"""C03 - revision ids are git commit ids (git_objects.revision_git_object, model.Revision)."""
import hashlib

from .core import exc_class, hx, unhx
from .gitobj_common import (author_line_spec, date_dict, enc_date, enc_opt, gen_bytes, gen_date, gen_fullname,
                            mk_person, mk_tstz, person_dict)

ID = "C03"
PROPS = "Props/C03.v"
EXTRACT = "extract/ExC03.v"
OBLIGATION = "revision_git_object"
REQUESTS_NEED_IMPL = True
THEOREMS = ["C03_id_is_commit_hash", "C03_parse_partial", "C03_parse_full_refuted", "C03_manifest_injective",
            "C03_irrelevant_fields", "C03_legacy_extra_headers", "C03_post_init_keeps_manifest", "C03_presence_matrix",
            "C03_satisfiable", "C03_author_date_exact"]
RULE = ("all 16 presence combinations of author/committer/date/committer_date (7 rejected by the validators) x 0-7 parents "
        "(empty parent ids, repeated parents and a parent equal to the tree id included) x message {None, empty, arbitrary, trailing newline, blank lines} x 0-4 extra headers "
        "with values {empty, leading space, multi-line, trailing newline, newline+space} and keys mostly well-formed, "
        "sometimes exotic (space, newline, empty, reserved word: the recorded finding class) x dates over the accepted "
        "range; headers given as the attribute or inside legacy metadata; constructor and from_dict; non-trivial = an "
        "optional field present and a multi-line or empty value")
TRUSTED = ["format_date / offset bytes as modelled in model/Time.v (property C16)", "bytes join/split as modelled in lib/Headers.v",
           "lib/Sha1.v as an instance of the hash oracle (validated against hashlib on every case)"]
ASSUMPTIONS = ["extra-header keys are non-empty, free of space/newline and not tree/parent/author/committer for the "
               "parse/injectivity theorems (outside this class the commit format itself is ambiguous: known finding)"]

GOOD_KEYS = [b"gpgsig", b"mergetag", b"encoding", b"x-custom", b"HG:extra", b"a", b"\xff"]
BAD_KEYS = [b"a b", b"", b"k\nl", b"parent", b"author", b"committer", b"tree", b" x"]


def gen(rng, tier):
    n_cases = 1500 if tier == "quick" else 40000
    cases = []
    for k in range(n_cases):
        pres = k % 16
        n_par = rng.choice([0, 1, 1, 2, 2, 3, 5])
        parents = [bytes(rng.randrange(256) for _ in range(20)).hex() for _ in range(n_par)]
        if parents and rng.random() < 0.1:
            parents[rng.randrange(len(parents))] = ""
        directory = bytes(rng.randrange(256) for _ in range(20)).hex()
        if parents and rng.random() < 0.2:     # git stores repeated parents verbatim: (p, p), (p, q, p, r), a parent equal to the tree id
            for _ in range(rng.randrange(1, 3)):
                parents.insert(rng.randrange(len(parents) + 1), rng.choice(parents + [directory]))
        n_ex = rng.choice([0, 0, 1, 2, 4])
        exotic = rng.random() < 0.08
        extra = [[(rng.choice(BAD_KEYS) if exotic and rng.random() < 0.6 else rng.choice(GOOD_KEYS)).hex(), gen_bytes(rng).hex()]
                 for _ in range(n_ex)]
        msg = rng.choice([None, b"", gen_bytes(rng), b"subject\n\nbody\n", b"\n\nx"])
        cases.append({"message": None if msg is None else msg.hex(),
                      "author": gen_fullname(rng).hex() if pres & 1 else None,
                      "date": gen_date(rng) if pres & 2 else None,
                      "committer": gen_fullname(rng).hex() if pres & 4 else None,
                      "committer_date": gen_date(rng) if pres & 8 else None,
                      "directory": directory,
                      "parents": parents, "extra": extra, "legacy": rng.random() < 0.3,
                      "synthetic": rng.random() < 0.5})
    return cases


def _vals(c):
    v = [bytes.fromhex(x[1]) for x in c["extra"]]
    for k in ("message", "author", "committer"):
        if c[k] is not None:
            v.append(bytes.fromhex(c[k]))
    return v


def wf_keys(c):
    return all(k and b" " not in k and b"\n" not in k and k not in (b"tree", b"parent", b"author", b"committer")
               for k in (bytes.fromhex(x[0]) for x in c["extra"]))


def nontrivial(c):
    opt = c["author"] is not None or c["committer"] is not None or c["message"] is not None or c["extra"]
    return bool(opt) and any(v == b"" or b"\n" in v for v in _vals(c))


def classify(c):
    ks = ["presence=%d%d%d%d" % (c["author"] is not None, c["date"] is not None, c["committer"] is not None,
                                 c["committer_date"] is not None),
          "parents=%d" % len(c["parents"]), "extra=%d" % len(c["extra"]),
          "msg=" + ("None" if c["message"] is None else "empty" if c["message"] == "" else "bytes")]
    if c["legacy"]:
        ks.append("legacy-metadata-headers")
    if not wf_keys(c):
        ks.append("exotic-header-key")
    if any(p == "" for p in c["parents"]):
        ks.append("empty-parent")
    if len(set(c["parents"])) < len(c["parents"]):
        ks.append("repeated-parent")
    return ks


def _kwargs(c, variant=0, legacy=None):
    """constructor keyword arguments exactly as a caller would give them (legacy: the extra
    headers inside metadata, the attribute left empty)"""
    from swh.model.model import RevisionType
    legacy = c["legacy"] if legacy is None else legacy
    extra = tuple((bytes.fromhex(k), bytes.fromhex(v)) for k, v in c["extra"])
    md = None
    if legacy and extra:
        md = {"extra_headers": [[k, v] for k, v in extra]}
    if variant == 1:
        md = dict(md or {}, other="x", n=[1, 2])
    return dict(message=None if c["message"] is None else bytes.fromhex(c["message"]),
                author=mk_person(c["author"], variant), committer=mk_person(c["committer"], variant),
                date=mk_tstz(c["date"]), committer_date=mk_tstz(c["committer_date"]),
                type=RevisionType.GIT if variant == 0 else RevisionType.MERCURIAL,
                directory=bytes.fromhex(c["directory"]),
                synthetic=c["synthetic"] if variant == 0 else not c["synthetic"],
                metadata=md, parents=tuple(bytes.fromhex(p) for p in c["parents"]),
                extra_headers=() if (legacy and extra) else extra)


def _build(c, variant=0, legacy=None):
    from swh.model.model import Revision
    return Revision(**_kwargs(c, variant, legacy))


_LAST_ID = [b"\x02" * 20]


def impl(c):
    from swh.model import git_objects
    from swh.model.model import Revision
    try:
        r = _build(c)
    except Exception as e:
        return {"error": exc_class(e)}
    res = {"id": r.id.hex(), "manifest": git_objects.revision_git_object(r).hex(), "swhid": str(r.swhid()),
           "extra_attr": [[k.hex(), v.hex()] for k, v in r.extra_headers],
           "meta_has_extra": bool(r.metadata and "extra_headers" in r.metadata),
           "compute_hash": r.compute_hash().hex()}
    try:
        import warnings
        with warnings.catch_warnings():
            warnings.simplefilter("ignore")
            # deprecated routes: plain dicts instead of model objects
            res["manifest_from_dict_arg"] = git_objects.revision_git_object(r.to_dict()).hex()
            # ... carrying an id that is not its own (one value for the whole run, and the id of the previous case):
            # the id key of the dict must not decide what is formatted
            for stale in (b"\x01" * 20, _LAST_ID[0]):
                git_objects.revision_git_object(dict(r.to_dict(), id=stale, message=b"another revision"))      # another object seen under that id first (self-contained replay)
                m2 = git_objects.revision_git_object(dict(r.to_dict(), id=stale)).hex()
                if m2 != res["manifest_from_dict_arg"]:
                    res["manifest_from_dict_arg"] = "differs when the dict carries the id %s: %s" % (stale.hex(), m2[:80])
            _LAST_ID[0] = r.id
            if c["date"] is not None:
                res["format_date_dict"] = git_objects.format_date({"seconds": c["date"][0], "microseconds": c["date"][1]}).hex()
                res["format_date_obj"] = git_objects.format_date(r.date.timestamp).hex()
    except Exception as e:
        res["manifest_from_dict_arg"] = "error:" + exc_class(e)
    for name, kw in (("id_variant", {"variant": 1}), ("id_other_route", {"legacy": not c["legacy"]})):
        try:
            res[name] = _build(c, **kw).id.hex()
        except Exception as e:
            res[name] = "error:" + exc_class(e)
    try:
        d = {"message": None if c["message"] is None else bytes.fromhex(c["message"]),
             "author": person_dict(c["author"]), "committer": person_dict(c["committer"]),
             "date": date_dict(c["date"]), "committer_date": date_dict(c["committer_date"]), "type": "git",
             "directory": bytes.fromhex(c["directory"]), "synthetic": c["synthetic"], "metadata": None,
             "parents": [bytes.fromhex(p) for p in c["parents"]],
             "extra_headers": [[bytes.fromhex(k), bytes.fromhex(v)] for k, v in c["extra"]]}
        res["id_from_dict"] = Revision.from_dict(d).id.hex()
    except Exception as e:
        res["id_from_dict"] = "error:" + exc_class(e)
    return res


def enc_headers(hs):
    return "|".join(hx(bytes.fromhex(k)) + ":" + hx(bytes.fromhex(v)) for k, v in hs) if hs else "."


def requests(c, ires):
    ex = enc_headers(c["extra"])
    legacy = c["legacy"] and c["extra"]
    r = [" ".join(["rev", enc_opt(c["message"]), enc_opt(c["author"]), enc_date(c["date"]), enc_opt(c["committer"]),
                   enc_date(c["committer_date"]), hx(bytes.fromhex(c["directory"])),
                   ",".join(hx(bytes.fromhex(p)) for p in c["parents"]) if c["parents"] else ".",
                   "." if legacy else ex, ex if legacy else "-"])]
    if "manifest" in ires:
        r.append("pcommit " + hx(bytes.fromhex(ires["manifest"])))
    return r


def model(c, resp):
    res = {"rev": resp[0]}
    if len(resp) > 1:
        res["parsed_impl_manifest"] = resp[1]
    return res


def _dec_headers(s):
    return [] if s == "." else [[unhx(k), unhx(v)] for k, v in (kv.split(":") for kv in s.split("|"))]


def oracle(c, ires, mres):
    valid = not (c["author"] is None and c["date"] is not None) and not (c["committer"] is None and c["committer_date"] is not None)
    if "error" in ires:
        return ("a valid revision was rejected with " + ires["error"]) if valid else None
    if not valid:
        return "a revision with a date but no author/committer was accepted"
    man = bytes.fromhex(ires["manifest"])
    if ires["id"] != hashlib.sha1(man).hexdigest() or ires["compute_hash"] != ires["id"]:
        return "id is not the SHA-1 of the commit object"
    if ires["manifest_from_dict_arg"] != ires["manifest"] or ires.get("format_date_dict") != ires.get("format_date_obj"):
        return "revision_git_object(<dict>) / format_date(<dict>) differ from the object routes"
    if ires["id_variant"] != ires["id"]:
        return "type / synthetic / split name+email / other metadata influence the id"
    if ires["id_other_route"] != ires["id"]:
        return "extra headers as attribute vs inside legacy metadata give different ids"
    if ires["id_from_dict"] != ires["id"]:
        return "id differs between constructor and from_dict"
    if ires["extra_attr"] != c["extra"] or ires["meta_has_extra"]:
        return "after construction the extra headers are not (only) in the attribute"
    if ires["swhid"] != "swh:1:rev:" + ires["id"]:
        return "swhid() wrong"
    got = mres.get("parsed_impl_manifest", "none")
    want = [c["directory"].encode(), [p.encode() for p in c["parents"] if p],
            None if c["author"] is None else author_line_spec(bytes.fromhex(c["author"]), c["date"]),
            None if c["committer"] is None else author_line_spec(bytes.fromhex(c["committer"]), c["committer_date"]),
            [[bytes.fromhex(k), bytes.fromhex(v)] for k, v in c["extra"]],
            None if c["message"] is None else bytes.fromhex(c["message"])]
    if got.startswith("ok "):
        _, t, ps, a, co, ex, msg = got.split(" ")
        have = [unhx(t), [] if ps == "." else [unhx(p) for p in ps.split(",")], unhx(a), unhx(co), _dec_headers(ex), unhx(msg)]
    else:
        have = None
    if have != want:
        return "the independent commit parser does not recover tree/parents/author/committer/extra headers/message"
    return None


def finding_key(c, ires, mres, verdict):
    # only the parser-recovery predicate, only for keys in the recorded class: any other failure on such a
    # revision (wrong id, order, irrelevant fields ...) is still reported
    if not wf_keys(c) and verdict["kind"] == "property-violation" and verdict["why"].startswith("the independent commit parser"):
        return "exotic-extra-header-keys"
    return None


def compare(c, ires, mres):
    if "error" in ires:
        return None if mres["rev"] == "err " + ires["error"] else \
            "implementation raised %s, model says %s" % (ires["error"], mres["rev"][:40])
    if not mres["rev"].startswith("ok "):
        return "implementation accepted, model says " + mres["rev"]
    _, man, sha, extra_after, wf, man_after = mres["rev"].split(" ")
    if man != hx(bytes.fromhex(ires["manifest"])):
        return "manifest bytes differ between model and implementation"
    if sha != ires["id"]:
        return "id differs from the model's SHA-1 of the manifest"
    if extra_after != enc_headers(ires["extra_attr"]):
        return "extra_headers attribute after construction differs from the model's post_init"
    if man_after != man:
        return "MODEL: post_init changes the manifest (model bug)"
    return None


def shrink(c):
    for k in ("message", "author", "committer", "date", "committer_date"):
        if c[k] is not None and not (k == "author" and c["date"] is not None) and not (k == "committer" and c["committer_date"] is not None):
            yield dict(c, **{k: None})
    for i in range(len(c["parents"])):
        yield dict(c, parents=c["parents"][:i] + c["parents"][i + 1:])
    for i in range(len(c["extra"])):
        yield dict(c, extra=c["extra"][:i] + c["extra"][i + 1:])
    if c["legacy"]:
        yield dict(c, legacy=False)
    for k in ("message", "author", "committer"):
        if c[k]:
            b = bytes.fromhex(c[k])
            yield dict(c, **{k: b[:len(b) // 2].hex()})
    for i, (k, v) in enumerate(c["extra"]):
        if v:
            b = bytes.fromhex(v)
            yield dict(c, extra=c["extra"][:i] + [[k, b[:len(b) // 2].hex()]] + c["extra"][i + 1:])


# functions of /repo whose executed-line coverage by this run is reported in the evidence
ANCHORS = [('swh/model/git_objects.py', 'revision_git_object'),
           ('swh/model/git_objects.py', 'format_author_data'),
           ('swh/model/git_objects.py', 'format_date'),
           ('swh/model/git_objects.py', 'escape_newlines'),
           ('swh/model/git_objects.py', 'format_git_object_from_headers'),
           ('swh/model/model.py', 'Revision.__attrs_post_init__'),
           ('swh/model/model.py', 'Revision.check_author'),
           ('swh/model/model.py', 'Revision.check_committer'),
           ('swh/model/model.py', 'tuplify_extra_headers')]


def pre_checks(ctx):
    """validation of the spec-level definition against independent implementations of git's commit format
    (not a theorem): on the subset git can express - author and committer with integer dates and canonical
    offsets, well-formed header keys - dulwich parses the library's payload into the same fields and re-serialises
    it byte for byte, and (thorough tier) `git hash-object -t commit` / `git cat-file` agree on id and payload"""
    import random
    import subprocess
    import tempfile
    from swh.model import git_objects
    out = []
    try:
        from dulwich.objects import Commit
    except Exception:
        return out
    rng = random.Random(ctx.seed + 303)
    n = 60 if ctx.tier == "quick" else 3000
    gitdir = None
    if ctx.tier == "thorough":
        gitdir = tempfile.mkdtemp(prefix="c03git")
        subprocess.run(["git", "init", "-q", "--bare", gitdir], check=True)
    try:
        for _ in range(n):
            def date():
                h, m = rng.randrange(0, 14), rng.choice([0, 30, 45])
                return [rng.randrange(0, 2 ** 33), 0, (rng.choice(["+", "-"]) + "%02d%02d" % (h, m)).encode().hex()]
            extra = [[rng.choice([b"gpgsig", b"x-multi", b"x-custom", b"encoding"]).hex(),   # not mergetag: dulwich parses its value as a tag
                      rng.choice([b"v", b"line1\nline2", b"-----BEGIN-----\n\nab\n-----END-----", b"UTF-8"]).hex()]
                     for _ in range(rng.choice([0, 0, 1, 2]))]
            if len({e[0] for e in extra}) < len(extra):
                extra = extra[:1]
            c = {"message": rng.choice([b"", b"subject\n\nbody\n", b"x"]).hex(), "author": b"A U Thor <a@example.org>".hex(),
                 "date": date(), "committer": b"C O Mitter <c@example.org>".hex(), "committer_date": date(),
                 "directory": bytes(rng.randrange(256) for _ in range(20)).hex(),
                 "parents": [bytes(rng.randrange(256) for _ in range(20)).hex() for _ in range(rng.choice([0, 1, 2, 3]))],
                 "extra": extra, "legacy": False, "synthetic": False}
            r = _build(c)
            man = git_objects.revision_git_object(r)
            payload = man[man.index(b"\x00") + 1:]
            dc = Commit.from_string(payload)
            got = (dc.tree, list(dc.parents), dc.author, dc.author_time, dc.committer, dc.commit_time, dc.message)
            want = (c["directory"].encode(), [p.encode() for p in c["parents"]], bytes.fromhex(c["author"]), c["date"][0],
                    bytes.fromhex(c["committer"]), c["committer_date"][0], bytes.fromhex(c["message"]))
            if got != want or dc.as_raw_string() != payload or dc.id.decode() != r.id.hex():
                out.append(("spec-validation:dulwich-commit", "dulwich parses/re-serialises the payload differently: %r vs %r" % (got, want)))
                break
            if gitdir:
                p = subprocess.run(["git", "--git-dir", gitdir, "hash-object", "-t", "commit", "-w", "--stdin", "--literally"],
                                   input=payload, stdout=subprocess.PIPE, stderr=subprocess.PIPE)
                if p.returncode == 0:
                    gid = p.stdout.decode().strip()
                    back = subprocess.run(["git", "--git-dir", gitdir, "cat-file", "commit", gid], stdout=subprocess.PIPE).stdout
                    if gid != r.id.hex() or back != payload:
                        out.append(("spec-validation:git-commit", "git hash-object/cat-file disagree for %r" % c))
                        break
    finally:
        if gitdir:
            subprocess.run(["rm", "-rf", gitdir])
    return out


def coq_cases(cases):
    """revision_valid / rev_manifest / post_init / wf_extra (+ Sha1.sha1 of the manifest) evaluated by vm_compute inside
    Coq vs the extracted driver (extraction cross-check)"""
    from . import core
    def size(c):
        return sum(len(v) for v in _vals(c)) + sum(len(k) // 2 for k, _ in c["extra"]) + 20 * len(c["parents"])
    cases[:] = [c for c in cases if size(c) <= 300]      # in place: the evidence's `n` is the number evaluated
    def nl(h):
        return "[" + "; ".join("%d" % b for b in bytes.fromhex(h)) + "]%N"
    def opt(h, f=nl):
        return "None" if h is None else "(Some %s)" % f(h)
    def person(h):
        return "{| fullname := %s; p_name := None; p_email := None |}" % nl(h)
    def date(d):
        return "{| ts := {| seconds := (%d)%%Z; microseconds := (%d)%%Z |}; offset_bytes := %s |}" % (d[0], d[1], nl(d[2]))
    def hdrs(hs):
        return "[" + "; ".join("(%s, %s)" % (nl(k), nl(v)) for k, v in hs) + "]"
    def rev(c):
        legacy = c["legacy"] and c["extra"]
        return ("{| v_message := %s; v_author := %s; v_committer := %s; v_date := %s; v_committer_date := %s; v_type := RtGit; "
                "v_directory := %s; v_synthetic := false; v_meta_extra := %s; v_meta_other := []; v_parents := [%s]; "
                "v_extra_headers := %s; v_raw_manifest := None |}"
                % (opt(c["message"]), opt(c["author"], person), opt(c["committer"], person), opt(c["date"], date),
                   opt(c["committer_date"], date), nl(c["directory"]), "(Some %s)" % hdrs(c["extra"]) if legacy else "None",
                   "; ".join(nl(p) for p in c["parents"]), hdrs([] if legacy else c["extra"])))
    src = ("From Coq Require Import List NArith ZArith.\nFrom SWH.lib Require Import Bytes Sha1.\nFrom SWH.model Require Import Time Rel Rev.\n"
           "Import ListNotations.\n" + core.COQ_CHECKSUM +
           "\nDefinition flat (hs : list (list N * list N)) : list N := concat (map (fun h => fst h ++ [256%N] ++ snd h ++ [257%N]) hs).\n"
           "Definition cases : list revision := [" + ";\n ".join(rev(c) for c in cases) + "].\n"
           "Eval vm_compute in map (fun r => if revision_valid r then let m := rev_manifest r in "
           "cksum (m ++ sha1 m ++ flat (v_extra_headers (post_init r)) ++ [if wf_extra (effective_extra r) then 1%N else 0%N] "
           "++ rev_manifest (post_init r)) else 1%N) cases.\n")
    resp = core.run_driver(ID, [requests(c, {})[0] for c in cases])
    exp = []
    for r in resp:
        w = r.split(" ")
        if w[0] != "ok":
            exp.append(1 if r == "err ValueError" else 3)
            continue
        flat = []
        for k, v in _dec_headers(w[3]):
            flat += list(k) + [256] + list(v) + [257]
        exp.append(core.py_cksum(list(unhx(w[1])) + list(unhx(w[2])) + flat + [int(w[4])] + list(unhx(w[5]))))
    return src, exp
