"""C03 - revision ids are git commit ids (git_objects.revision_git_object, model.Revision)."""
import hashlib

from .core import exc_class, hx, unhx
from .gitobj_common import (LEGACY_DATE_MODES, author_line_spec, date_dict, date_dict_legacy, enc_date, enc_opt, gen_bytes,
                            gen_bytes_wide, gen_date_wide, gen_fullname_wide, gen_id, mk_person, mk_person_from_fullname, mk_tstz,
                            nofullname_split, person_dict, BytesSub)

ID = "C03"
PROPS = "Props/C03.v"
EXTRACT = "extract/ExC03.v"
OBLIGATION = "revision_git_object"
REQUESTS_NEED_IMPL = True
THEOREMS = ["C03_id_is_commit_hash", "C03_parse_partial", "C03_parse_full_refuted", "C03_manifest_injective",
            "C03_irrelevant_fields", "C03_legacy_extra_headers", "C03_post_init_keeps_manifest", "C03_presence_matrix",
            "C03_satisfiable", "C03_raw_manifest_precedence", "C03_attribute_wins", "C03_author_date_exact"]
RULE = ("all 16 presence combinations of author/committer/date/committer_date (7 rejected by the validators) x 0-7 parents "
        "(empty parent ids, repeated parents and a parent equal to the tree id included; ids of 20 bytes, git's null id, ids "
        "differing from another id of the object in one byte, 1 or 32 bytes, an empty tree id; sometimes 40-60 parents) x message "
        "{None, empty, arbitrary, trailing newline, blank lines} x 0-4 (sometimes 30-50) extra headers with values {empty, leading "
        "space, multi-line, trailing newline, newline+space, CR / CRLF, NUL, TAB continuation, lone separators, VT/FF/FS/NEL, header "
        "look-alikes, >100 lines, ~1 kB} and keys mostly well-formed, sometimes exotic (space, newline, empty, reserved word: the "
        "recorded finding class) x dates over the accepted range (digit-count boundaries of seconds and microseconds); messages padded "
        "so that the object length sits at 99/100/101, 999/1000/1001, 9999/10000; author and committer sometimes one shared object. "
        "Headers given as the attribute (tuple / list / generator of tuples / lists), inside legacy metadata (non-empty or the empty "
        "list), or BOTH (attribute wins, metadata keeps its key); the variant's type is any of the 7 revision types and its other "
        "metadata comes from a pool (keys named like commit lines or Revision fields, near-misses of 'extra_headers', nested). Every "
        "case: constructor, from_dict (lists / tuples / one-shot iterators, the same dict twice, to_dict minus id, headers in legacy "
        "metadata with and without the attribute key, persons without fullname, legacy date dictionaries), the deprecated dict "
        "argument (with and without id, legacy layout, stale ids), check(), second calls; per case one of: explicit id (empty / own "
        "/ foreign: check() must refuse it), raw manifest (own manifest / empty / arbitrary), evolve there and back; "
        "non-trivial = an optional field present and a multi-line or empty value")
TRUSTED = ["format_date / offset bytes as modelled in model/Time.v (property C16)", "bytes join/split as modelled in lib/Headers.v",
           "lib/Sha1.v as an instance of the hash oracle (validated against hashlib on every case)"]
ASSUMPTIONS = ["extra-header keys are non-empty, free of space/newline and not tree/parent/author/committer for the "
               "parse/injectivity theorems (outside this class the commit format itself is ambiguous: known finding)",
               "an id given explicitly to the constructor is kept as given (only check() compares it with the commit hash); a raw "
               "manifest replaces the fields for the id only (C03_raw_manifest_precedence)",
               "Revision.from_dict with a date given as the plain integer 0 is refused (falsy), 1 is accepted: outside the property, reported"]

GOOD_KEYS = [b"gpgsig", b"mergetag", b"encoding", b"x-custom", b"HG:extra", b"a", b"\xff"]
BAD_KEYS = [b"a b", b"", b"k\nl", b"parent", b"author", b"committer", b"tree", b" x"]
HDR_SHAPES = ["tt", "ll", "lt", "tl", "gen"]
REV_TYPES = ["git", "tar", "dsc", "svn", "hg", "cvs", "bzr"]
BOUNDARY_LENGTHS = [99, 100, 101, 999, 1000, 1001, 9999, 10000]


def _esc_len(v):
    return len(v) + v.count(b"\n")


def _payload_len(c):
    """length of the commit payload for these fields, from the format's definition (used only to aim a message at a
    length boundary; never compared with the implementation)"""
    n = 5 + 2 * len(c["directory"]) // 2 + 1
    for p in c["parents"]:
        if p:
            n += 7 + len(p) + 1
    for who, when in (("author", "date"), ("committer", "committer_date")):
        if c[who] is not None:
            n += len(who) + 1 + _esc_len(author_line_spec(bytes.fromhex(c[who]), c[when])) + 1
    for k, v in c["extra"]:
        n += len(k) // 2 + 1 + _esc_len(bytes.fromhex(v)) + 1
    if c["message"] is not None:
        n += 1 + len(c["message"]) // 2
    return n


def gen(rng, tier):
    n_cases = 1500 if tier == "quick" else 40000
    cases = []
    n_huge = 0
    for k in range(n_cases):
        pres = k % 16
        n_par = rng.choice([0, 1, 1, 2, 2, 3, 5])
        if rng.random() < 0.004:
            n_par = rng.randrange(40, 60)
        directory = gen_id(rng) if rng.random() < 0.97 else b""
        parents = []
        for _ in range(n_par):
            parents.append(gen_id(rng, [directory] + parents))
        parents = [p.hex() for p in parents]
        directory = directory.hex()
        if parents and rng.random() < 0.1:
            parents[rng.randrange(len(parents))] = ""
        if parents and rng.random() < 0.2:     # git stores repeated parents verbatim: (p, p), (p, q, p, r), a parent equal to the tree id
            for _ in range(rng.randrange(1, 3)):
                parents.insert(rng.randrange(len(parents) + 1), rng.choice(parents + [directory]))
        n_ex = rng.choice([0, 0, 1, 2, 4])
        if rng.random() < 0.004:
            n_ex = rng.randrange(30, 50)
        exotic = rng.random() < 0.08
        extra = [[(rng.choice(BAD_KEYS) if exotic and rng.random() < 0.6 else rng.choice(GOOD_KEYS)).hex(), gen_bytes_wide(rng).hex()]
                 for _ in range(n_ex)]
        msg = rng.choice([None, b"", gen_bytes_wide(rng), b"subject\n\nbody\n", b"\n\nx"])
        c = {"message": None if msg is None else msg.hex(),
             "author": gen_fullname_wide(rng).hex() if pres & 1 else None,
             "date": gen_date_wide(rng) if pres & 2 else None,
             "committer": gen_fullname_wide(rng).hex() if pres & 4 else None,
             "committer_date": gen_date_wide(rng) if pres & 8 else None,
             "directory": directory,
             "parents": parents, "extra": extra, "legacy": rng.random() < 0.3,
             "synthetic": rng.random() < 0.5}
        # ---- dimensions of the audit (absent key = the behaviour of earlier recorded cases)
        if pres & 5 == 5 and rng.random() < 0.15:        # author and committer one shared Person (and date) object
            c["committer"] = c["author"]
            if pres & 10 == 10:
                c["committer_date"] = c["date"]
            c["share"] = True
        c["hdr_shape"] = rng.choice(HDR_SHAPES)
        c["legacy_empty"] = rng.random() < 0.5            # legacy route with no headers: metadata {"extra_headers": []}
        if extra and not c["legacy"] and rng.random() < 0.3:   # BOTH routes at once: other headers inside the metadata
            c["decoy"] = [[rng.choice(GOOD_KEYS).hex(), gen_bytes_wide(rng).hex()] for _ in range(rng.choice([0, 1, 2]))]
        c["vtype"] = rng.choice(REV_TYPES)
        c["vmd"] = rng.randrange(len(VMD_POOL))
        c["vmd_val"] = gen_bytes(rng).hex()
        x = k % 5
        if x == 0:
            c["id_mode"] = rng.choice(["empty", "own", "foreign"])
        elif x == 1:
            c["raw"] = rng.choice(["M", "", gen_bytes_wide(rng).hex(), b"commit 0\x00".hex()])
        elif x == 2:
            c["evolve"] = True
        c["grp"] = (k // 16) % 3                          # which group of dictionary routes this case takes
        c["pf"] = rng.randrange(6)                        # which (name, email) split replaces the fullname on the dict route
        c["dl"] = rng.randrange(len(LEGACY_DATE_MODES))
        if c["message"] is not None and rng.random() < 0.04:      # aim the object length at a digit-count boundary
            want = rng.choice(BOUNDARY_LENGTHS[:6] if (tier == "quick" or n_huge >= 40) else BOUNDARY_LENGTHS)
            have = _payload_len(c)
            if have <= want:
                c["message"] = (bytes.fromhex(c["message"]) + b"x" * (want - have)).hex()
                n_huge += want > 2000
        cases.append(c)
    # deterministic sweep over the literals harvested from the code under test (see c04): message, author, committer, an extra
    # header value and - for tokens that can be a header key - an extra header key all carry the token
    from .gitobj_common import source_tokens
    for i, t in enumerate(source_tokens("bytes")):
        for mode in (("pre",) if tier == "quick" else ("pre", "suf", "whole")):
            f = {"pre": lambda v: t + v, "suf": lambda v: v + t, "whole": lambda v: t}[mode]
            key = t if (t and b" " not in t and b"\n" not in t and t not in (b"tree", b"parent", b"author", b"committer")) else b"x-custom"
            cases.append({"message": f(b"subject\n\nbody\n").hex(), "author": f(b"A U Thor <a@b>").hex(), "date": [1234567890 + i, 0, b"+0000".hex()],
                          "committer": f(b"C O Mitter <c@d>").hex(), "committer_date": [1234567890 + i, 0, b"-0130".hex()],
                          "directory": (bytes([i % 251 + 1]) * 20).hex(), "parents": [(bytes([i % 250 + 2]) * 20).hex()],
                          "extra": [[key.hex(), f(b"value").hex()]], "legacy": i % 3 == 0, "synthetic": False})
    return cases


def _vals(c):
    v = [bytes.fromhex(x[1]) for x in c["extra"]]
    for k in ("message", "author", "committer"):
        if c[k] is not None:
            v.append(bytes.fromhex(c[k]))
    return v


def wf_keys(c):
    return all(k and b" " not in k and b"\n" not in k and k not in (b"tree", b"parent", b"author", b"committer")
               for k in (bytes.fromhex(x[0]) for x in c["extra"]))


def nontrivial(c):
    opt = c["author"] is not None or c["committer"] is not None or c["message"] is not None or c["extra"]
    return bool(opt) and any(v == b"" or b"\n" in v for v in _vals(c))


def classify(c):
    ks = ["presence=%d%d%d%d" % (c["author"] is not None, c["date"] is not None, c["committer"] is not None,
                                 c["committer_date"] is not None),
          "parents=%s" % (len(c["parents"]) if len(c["parents"]) < 8 else "many"),
          "extra=%s" % (len(c["extra"]) if len(c["extra"]) < 5 else "many"),
          "msg=" + ("None" if c["message"] is None else "empty" if c["message"] == "" else "bytes")]
    attr, meta = _md_plan(c)
    ks.append("route=" + ("both" if attr and meta is not None else "legacy-metadata" if meta else "legacy-metadata-empty-list"
                          if meta is not None else "attribute"))
    if c["legacy"]:
        ks.append("legacy-metadata-headers")
    if not wf_keys(c):
        ks.append("exotic-header-key")
    if any(p == "" for p in c["parents"]):
        ks.append("empty-parent")
    if len(set(c["parents"])) < len(c["parents"]):
        ks.append("repeated-parent")
    ids = [c["directory"]] + [p for p in c["parents"] if p]
    if any(len(i) != 40 for i in ids):
        ks.append("id-not-20-bytes")
    if any(i and not i.strip("0") for i in ids):
        ks.append("null-id")
    if any(a != b and len(a) == len(b) and (a[:-2] == b[:-2] or a[2:] == b[2:]) for a in ids for b in ids):
        ks.append("ids-one-byte-apart")
    vals = _vals(c)
    if any(b"\r" in v for v in vals):
        ks.append("value-with-CR")
    if any(b"\x00" in v for v in vals):
        ks.append("value-with-NUL")
    if any(v.count(b"\n") > 100 for v in vals):
        ks.append("value>100-lines")
    for k in ("id_mode", "raw", "evolve", "share"):
        if c.get(k) is not None:
            ks.append("%s=%s" % (k, c[k] if k == "id_mode" else "M" if c[k] == "M" else "empty" if c[k] == "" else "yes"))
    try:
        n = _payload_len(c)
        if n in BOUNDARY_LENGTHS:
            ks.append("object-length=%d" % n)
    except Exception:
        pass
    return ks


# "other metadata" of the variant: never takes part in the id.  No pool entry has a top-level "extra_headers" key (that IS
# the legacy location of the headers); near-misses of it, nested occurrences and keys named like commit lines are there.
VMD_POOL = [lambda v: {"other": "x", "n": [1, 2]},
            lambda v: {"gpgsig": v, "parent": v, "tree": v, "author": v, "committer": v, "message": v, "encoding": "x"},
            lambda v: {"extra-headers": [[b"k", v]], "extra_headers ": [[b"k", v]], "Extra_Headers": [[b"k", v]], "extra_header": [[b"k", v]]},
            lambda v: {"nested": {"extra_headers": [[b"gpgsig", v]]}, "l": [{"extra_headers": [[b"k", v]]}]},
            lambda v: {"original_artifact": [{"sha1": v.hex(), "length": len(v)}], "raw_manifest": v, "id": v, "parents": [v], "directory": v},
            lambda v: {"date": {"timestamp": {"seconds": 1, "microseconds": 0}, "offset_bytes": b"+0000"}, "committer_date": None,
                       "type": "git", "synthetic": True},
            lambda v: {}]


def _md_plan(c):
    """(headers given as the attribute, headers given inside metadata['extra_headers'] or None when the key is absent)"""
    extra = c["extra"]
    if c["legacy"]:
        if extra:
            return [], extra
        return [], ([] if c.get("legacy_empty") else None)
    if extra and c.get("decoy") is not None:
        return extra, c["decoy"]
    return extra, None


def _pairs(hs):
    return [(bytes.fromhex(k), bytes.fromhex(v)) for k, v in hs]


def _shape(pairs, shape):
    if shape == "ll":
        return [[k, v] for k, v in pairs]
    if shape == "lt":
        return [(k, v) for k, v in pairs]
    if shape == "tl":
        return tuple([k, v] for k, v in pairs)
    if shape == "gen":
        return ([k, v] for k, v in pairs)       # one-shot
    return tuple((k, v) for k, v in pairs)


def _kwargs(c, variant=0, legacy=None):
    """constructor keyword arguments exactly as a caller would give them (legacy: the extra
    headers inside metadata, the attribute left empty)"""
    from swh.model.model import RevisionType
    if legacy is None:
        attr, meta = _md_plan(c)
        shape = c.get("hdr_shape", "tt")
    else:               # the other of the two plain routes
        attr, meta = ([], c["extra"]) if (legacy and c["extra"]) else (c["extra"], None)
        shape = "tt"
    md = None
    if meta is not None:
        md = {"extra_headers": _shape(_pairs(meta), "ll" if shape == "gen" else shape)}
    if variant == 1:
        md = dict(md or {}, **VMD_POOL[c.get("vmd", 0)](bytes.fromhex(c.get("vmd_val", ""))))
        if c.get("vmd", 0) % 2:
            from swh.model.collections import ImmutableDict
            md = ImmutableDict(md)
    mkp = mk_person_from_fullname if (variant == 1 and c.get("vmd", 0) % 3 == 2) else (lambda h: mk_person(h, variant))
    author, date = mkp(c["author"]), mk_tstz(c["date"])
    if c.get("share") and c["committer"] is not None and c["committer"] == c["author"]:
        committer, committer_date = author, (date if c["committer_date"] == c["date"] else mk_tstz(c["committer_date"]))
    else:
        committer, committer_date = mkp(c["committer"]), mk_tstz(c["committer_date"])
    return dict(message=None if c["message"] is None else bytes.fromhex(c["message"]),
                author=author, committer=committer, date=date, committer_date=committer_date,
                type=RevisionType.GIT if variant == 0 else RevisionType(c.get("vtype", "hg")),
                directory=bytes.fromhex(c["directory"]),
                synthetic=c["synthetic"] if variant == 0 else not c["synthetic"],
                metadata=md, parents=tuple(bytes.fromhex(p) for p in c["parents"]),
                extra_headers=_shape(_pairs(attr), shape))


def _build(c, variant=0, legacy=None, **over):
    from swh.model.model import Revision
    return Revision(**dict(_kwargs(c, variant, legacy), **over))


_LAST_ID = [b"\x02" * 20]


def _from_dict_base(c):
    return {"message": None if c["message"] is None else bytes.fromhex(c["message"]),
            "author": person_dict(c["author"]), "committer": person_dict(c["committer"]),
            "date": date_dict(c["date"]), "committer_date": date_dict(c["committer_date"]), "type": "git",
            "directory": bytes.fromhex(c["directory"]), "synthetic": c["synthetic"], "metadata": None,
            "parents": [bytes.fromhex(p) for p in c["parents"]],
            "extra_headers": [[bytes.fromhex(k), bytes.fromhex(v)] for k, v in c["extra"]]}


def _wide_routes(c, r, res):
    """the routes added by the audit.  same_id / same_manifest: {route: value} that must equal the id / manifest of the
    plainly constructed revision; notes: [violated statement]"""
    import warnings
    from swh.model import git_objects
    from swh.model.model import Person, Revision
    same_id, same_man, notes = {}, {}, []
    res["same_id"], res["same_manifest"], res["notes"] = same_id, same_man, notes
    man = bytes.fromhex(res["manifest"])

    def route(table, name, f):
        try:
            table[name] = f()
        except Exception as e:
            table[name] = "error:" + exc_class(e)

    # ---- the finished object, asked again
    route(same_man, "revision_git_object(r), second call", lambda: git_objects.revision_git_object(r).hex())
    route(same_id, "compute_hash(), second call", lambda: r.compute_hash().hex())
    try:
        r.check()
    except Exception as e:
        notes.append("check() refuses the constructed revision: " + exc_class(e))
    # ---- explicit id / raw manifest / evolve (one per case)
    mode = c.get("id_mode")
    try:
        if mode == "empty":
            same_id["constructor with id=b''"] = _build(c, id=b"").id.hex()
        elif mode == "own":
            r2 = _build(c, id=r.id)
            same_id["constructor with its own id"] = r2.id.hex()
            same_man["object built with its own id"] = git_objects.revision_git_object(r2).hex()
            r2.check()
        elif mode == "foreign":
            foreign = r.id[:-1] + bytes([r.id[-1] ^ 1])
            r2 = _build(c, id=foreign)
            same_id["compute_hash() of an object built with a foreign id"] = r2.compute_hash().hex()
            same_man["object built with a foreign id"] = git_objects.revision_git_object(r2).hex()
            if r2.id != foreign:
                notes.append("an explicitly given id is not kept")
            try:
                r2.check()
                notes.append("check() accepts an id that is not the SHA-1 of the commit object")
            except ValueError:
                pass
    except Exception as e:
        notes.append("explicit id (%s): %s" % (mode, exc_class(e)))
    if c.get("raw") is not None:
        try:
            raw = man if c["raw"] == "M" else bytes.fromhex(c["raw"])
            rr = _build(c, raw_manifest=raw)
            res["raw_id"] = rr.id.hex()
            same_man["object carrying a raw manifest"] = git_objects.revision_git_object(rr).hex()
            if rr.compute_hash() != rr.id:
                notes.append("compute_hash() of an object carrying a raw manifest differs from its id")
        except Exception as e:
            res["raw_id"] = "error:" + exc_class(e)
    if c.get("evolve"):
        try:
            m0 = None if c["message"] is None else bytes.fromhex(c["message"])
            m2 = b"evolved\n" if m0 != b"evolved\n" else None
            e = r.evolve(message=m2)
            if e.id != _build(c, message=m2).id or e.id != hashlib.sha1(git_objects.revision_git_object(e)).digest():
                notes.append("evolve(message=...) does not give the id of the commit with the new message")
            same_id["evolve(message) there and back"] = e.evolve(message=m0).id.hex()
            e = r.evolve(parents=(), extra_headers=())
            attr, meta = _md_plan(c)
            both = bool(attr) and meta is not None     # the metadata still holds other headers: they come back, by the same rule
            if e.id != hashlib.sha1(git_objects.revision_git_object(e)).digest() or (not both and e.id != _build(c, parents=(), extra_headers=(), metadata=None).id):
                notes.append("evolve(parents=(), extra_headers=()) does not give the id of the commit without them")
            same_id["evolve(parents, extra_headers) there and back"] = e.evolve(parents=r.parents, extra_headers=r.extra_headers).id.hex()
        except Exception as e:
            notes.append("evolve: " + exc_class(e))
    # ---- dictionary routes (one group of them per case: c["grp"]; all of them for a case that does not say)
    d = _from_dict_base(c)
    pairs = d["extra_headers"]
    keys0 = sorted(d)
    grp = c.get("grp")
    if grp in (None, 0):
        _routes_shapes(c, r, d, pairs, same_id, route)
        if sorted(d) != keys0:
            notes.append("from_dict removed keys from the dictionary it was given")
    if grp in (None, 1):
        _routes_layouts(c, r, d, pairs, same_id, same_man, route)
    if grp in (None, 2):
        _routes_legacy_values(c, d, same_id, notes, route)


def _routes_shapes(c, r, d, pairs, same_id, route):
    from swh.model.model import Revision
    route(same_id, "from_dict, the same dict a second time", lambda: Revision.from_dict(d).id.hex())
    def sub_kwargs():
        from swh.model.model import Person, TimestampWithTimezone
        kw = _kwargs(c)
        for k in ("message", "directory"):
            kw[k] = None if kw[k] is None else BytesSub(kw[k])
        kw["parents"] = tuple(BytesSub(p) for p in kw["parents"])
        for k in ("author", "committer"):
            if kw[k] is not None:
                kw[k] = Person(fullname=BytesSub(kw[k].fullname), name=None, email=None)
        for k in ("date", "committer_date"):
            if kw[k] is not None:
                kw[k] = TimestampWithTimezone(timestamp=kw[k].timestamp, offset_bytes=BytesSub(kw[k].offset_bytes))
        return kw
    route(same_id, "constructor, values of a bytes subclass", lambda: Revision(**sub_kwargs()).id.hex())
    route(same_id, "from_dict with tuples", lambda: Revision.from_dict(
        dict(d, parents=tuple(d["parents"]), extra_headers=tuple((k, v) for k, v in pairs))).id.hex())
    route(same_id, "from_dict with one-shot iterators", lambda: Revision.from_dict(
        dict(d, parents=iter(d["parents"]), extra_headers=((k, v) for k, v in pairs))).id.hex())
    route(same_id, "from_dict with type=%s, the other synthetic flag, id=b''" % c.get("vtype", "hg"), lambda: Revision.from_dict(
        dict(d, type=c.get("vtype", "hg"), synthetic=not c["synthetic"], id=b"")).id.hex())


def _routes_layouts(c, r, d, pairs, same_id, same_man, route):
    import warnings
    from swh.model import git_objects
    from swh.model.model import Revision
    route(same_id, "from_dict(to_dict() without id)", lambda: Revision.from_dict(
        {k: v for k, v in r.to_dict().items() if k != "id"}).id.hex())
    route(same_id, "from_dict(to_dict())", lambda: Revision.from_dict(r.to_dict()).id.hex())
    d_legacy = dict(d, extra_headers=[], metadata={"extra_headers": [[k, v] for k, v in pairs], "x": 1})
    d_legacy_nokey = {k: v for k, v in d_legacy.items() if k != "extra_headers"}
    route(same_id, "from_dict, headers inside legacy metadata", lambda: Revision.from_dict(d_legacy).id.hex())
    route(same_id, "from_dict, headers inside legacy metadata, no extra_headers key", lambda: Revision.from_dict(d_legacy_nokey).id.hex())
    with warnings.catch_warnings():
        warnings.simplefilter("ignore")
        route(same_man, "revision_git_object(<dict without id>)", lambda: git_objects.revision_git_object(d).hex())
        route(same_man, "revision_git_object(<dict, legacy metadata layout>)", lambda: git_objects.revision_git_object(d_legacy_nokey).hex())


def _routes_legacy_values(c, d, same_id, notes, route):
    from swh.model.model import Person, Revision
    # persons given WITHOUT a fullname: the documented rule builds it from name and email
    if c.get("pf") is not None and (c["author"] is not None or c["committer"] is not None):
        try:
            dd, over = dict(d), {}
            for who in ("author", "committer"):
                if c[who] is not None:
                    name, email, fn = nofullname_split(bytes.fromhex(c[who]), c["pf"] + (who == "committer"))
                    dd[who] = {"name": name, "email": email}
                    over[who] = Person(fullname=fn, name=name, email=email)
            if Revision.from_dict(dd).id != _build(c, **over).id:
                notes.append("from_dict with persons given as {name, email} without fullname: the id is not the commit id of the "
                             "documented fullname ('name', '<email>' or 'name <email>')")
        except Exception as e:
            notes.append("from_dict with persons given as {name, email}: " + exc_class(e))
    # dates in the older dictionary encodings
    if c.get("dl") is not None and (c["date"] is not None or c["committer_date"] is not None):
        mode = LEGACY_DATE_MODES[c["dl"] % len(LEGACY_DATE_MODES)]
        dd, used = dict(d), False
        for when in ("date", "committer_date"):
            ld = date_dict_legacy(c[when], mode)
            if ld is not None:
                dd[when], used = ld, True
        if used:
            route(same_id, "from_dict, dates in the '%s' encoding" % mode, lambda: Revision.from_dict(dd).id.hex())


def impl(c):
    from swh.model import git_objects
    from swh.model.model import Revision
    try:
        r = _build(c)
    except Exception as e:
        return {"error": exc_class(e)}
    res = {"id": r.id.hex(), "manifest": git_objects.revision_git_object(r).hex(), "swhid": str(r.swhid()),
           "extra_attr": [[k.hex(), v.hex()] for k, v in r.extra_headers],
           "meta_has_extra": bool(r.metadata and "extra_headers" in r.metadata),
           "meta_extra": [[bytes(k).hex(), bytes(v).hex()] for k, v in r.metadata["extra_headers"]]
           if (r.metadata and "extra_headers" in r.metadata) else None,
           "compute_hash": r.compute_hash().hex()}
    try:
        import warnings
        with warnings.catch_warnings():
            warnings.simplefilter("ignore")
            # deprecated routes: plain dicts instead of model objects
            res["manifest_from_dict_arg"] = git_objects.revision_git_object(r.to_dict()).hex()
            # ... carrying an id that is not its own (one value for the whole run, and the id of the previous case):
            # the id key of the dict must not decide what is formatted
            for stale in (b"\x01" * 20, _LAST_ID[0]):
                git_objects.revision_git_object(dict(r.to_dict(), id=stale, message=b"another revision"))      # another object seen under that id first (self-contained replay)
                m2 = git_objects.revision_git_object(dict(r.to_dict(), id=stale)).hex()
                if m2 != res["manifest_from_dict_arg"]:
                    res["manifest_from_dict_arg"] = "differs when the dict carries the id %s: %s" % (stale.hex(), m2[:80])
            _LAST_ID[0] = r.id
            if c["date"] is not None:
                res["format_date_dict"] = git_objects.format_date({"seconds": c["date"][0], "microseconds": c["date"][1]}).hex()
                res["format_date_obj"] = git_objects.format_date(r.date.timestamp).hex()
    except Exception as e:
        res["manifest_from_dict_arg"] = "error:" + exc_class(e)
    for name, kw in (("id_variant", {"variant": 1}), ("id_other_route", {"legacy": not c["legacy"]})):
        try:
            res[name] = _build(c, **kw).id.hex()
        except Exception as e:
            res[name] = "error:" + exc_class(e)
    try:
        res["id_from_dict"] = Revision.from_dict(_from_dict_base(c)).id.hex()
    except Exception as e:
        res["id_from_dict"] = "error:" + exc_class(e)
    try:
        _wide_routes(c, r, res)
    except Exception as e:
        res.setdefault("notes", []).append("the added routes crashed: " + exc_class(e))
    return res


def enc_headers(hs):
    return "|".join(hx(bytes.fromhex(k)) + ":" + hx(bytes.fromhex(v)) for k, v in hs) if hs else "."


def _raw_hex(c, ires):
    raw = c.get("raw")
    if raw == "M":
        return ires.get("manifest")
    return raw


def requests(c, ires):
    attr, meta = _md_plan(c)
    r = [" ".join(["rev", enc_opt(c["message"]), enc_opt(c["author"]), enc_date(c["date"]), enc_opt(c["committer"]),
                   enc_date(c["committer_date"]), hx(bytes.fromhex(c["directory"])),
                   ",".join(hx(bytes.fromhex(p)) for p in c["parents"]) if c["parents"] else ".",
                   enc_headers(attr), "-" if meta is None else enc_headers(meta), enc_opt(_raw_hex(c, ires))])]
    if "manifest" in ires:
        r.append("pcommit " + hx(bytes.fromhex(ires["manifest"])))
    return r


def model(c, resp):
    res = {"rev": resp[0]}
    if len(resp) > 1:
        res["parsed_impl_manifest"] = resp[1]
    return res


def _dec_headers(s):
    return [] if s == "." else [[unhx(k), unhx(v)] for k, v in (kv.split(":") for kv in s.split("|"))]


def oracle(c, ires, mres):
    valid = not (c["author"] is None and c["date"] is not None) and not (c["committer"] is None and c["committer_date"] is not None)
    if "error" in ires:
        return ("a valid revision was rejected with " + ires["error"]) if valid else None
    if not valid:
        return "a revision with a date but no author/committer was accepted"
    man = bytes.fromhex(ires["manifest"])
    if ires["id"] != hashlib.sha1(man).hexdigest() or ires["compute_hash"] != ires["id"]:
        return "id is not the SHA-1 of the commit object"
    if ires["manifest_from_dict_arg"] != ires["manifest"] or ires.get("format_date_dict") != ires.get("format_date_obj"):
        return "revision_git_object(<dict>) / format_date(<dict>) differ from the object routes"
    if ires["id_variant"] != ires["id"]:
        return "type / synthetic / split name+email / other metadata influence the id"
    if ires["id_other_route"] != ires["id"]:
        return "extra headers as attribute vs inside legacy metadata give different ids"
    if ires["id_from_dict"] != ires["id"]:
        return "id differs between constructor and from_dict"
    attr, meta = _md_plan(c)
    both = bool(attr) and meta is not None       # both routes at once: the attribute decides, the metadata keeps its key
    if ires["extra_attr"] != c["extra"] or ires["meta_has_extra"] != both:
        return "after construction the extra headers are not (only) in the attribute"
    if ires["swhid"] != "swh:1:rev:" + ires["id"]:
        return "swhid() wrong"
    for k, v in ires.get("same_id", {}).items():
        if v != ires["id"]:
            return "the id differs on the route '%s': %s" % (k, v[:60])
    for k, v in ires.get("same_manifest", {}).items():
        if v != ires["manifest"]:
            return "the commit object differs on the route '%s': %s" % (k, v[:80])
    if ires.get("notes"):
        return ires["notes"][0]
    if "raw_id" in ires:
        raw = _raw_hex(c, ires)
        if ires["raw_id"] != hashlib.sha1(bytes.fromhex(raw)).hexdigest():
            return "the id of a revision carrying a raw manifest is not the SHA-1 of that manifest: " + ires["raw_id"]
    got = mres.get("parsed_impl_manifest", "none")
    want = [c["directory"].encode(), [p.encode() for p in c["parents"] if p],
            None if c["author"] is None else author_line_spec(bytes.fromhex(c["author"]), c["date"]),
            None if c["committer"] is None else author_line_spec(bytes.fromhex(c["committer"]), c["committer_date"]),
            [[bytes.fromhex(k), bytes.fromhex(v)] for k, v in c["extra"]],
            None if c["message"] is None else bytes.fromhex(c["message"])]
    if got.startswith("ok "):
        _, t, ps, a, co, ex, msg = got.split(" ")
        have = [unhx(t), [] if ps == "." else [unhx(p) for p in ps.split(",")], unhx(a), unhx(co), _dec_headers(ex), unhx(msg)]
    else:
        have = None
    if have != want:
        return "the independent commit parser does not recover tree/parents/author/committer/extra headers/message"
    return None


def finding_key(c, ires, mres, verdict):
    # only the parser-recovery predicate, only for keys in the recorded class: any other failure on such a
    # revision (wrong id, order, irrelevant fields ...) is still reported
    if not wf_keys(c) and verdict["kind"] == "property-violation" and verdict["why"].startswith("the independent commit parser"):
        return "exotic-extra-header-keys"
    return None


def compare(c, ires, mres):
    if "error" in ires:
        return None if mres["rev"] == "err " + ires["error"] else \
            "implementation raised %s, model says %s" % (ires["error"], mres["rev"][:40])
    if not mres["rev"].startswith("ok "):
        return "implementation accepted, model says " + mres["rev"]
    _, man, sha, extra_after, wf, man_after, meta_after, idhash = mres["rev"].split(" ")
    if man != hx(bytes.fromhex(ires["manifest"])):
        return "manifest bytes differ between model and implementation"
    if sha != ires["id"]:
        return "id differs from the model's SHA-1 of the manifest"
    if extra_after != enc_headers(ires["extra_attr"]):
        return "extra_headers attribute after construction differs from the model's post_init"
    if meta_after != ("-" if ires.get("meta_extra") is None else enc_headers(ires["meta_extra"])):
        return "metadata['extra_headers'] after construction differs from the model's post_init"
    if man_after != man:
        return "MODEL: post_init changes the manifest (model bug)"
    if (sha if idhash == "=" else idhash) != ires.get("raw_id", ires["id"]):
        return "id (raw manifest first) differs from the model's rev_compute_hash"
    return None


def shrink(c):
    for k in ("id_mode", "raw", "evolve", "decoy", "share", "pf", "dl"):
        if c.get(k) is not None:
            yield {x: y for x, y in c.items() if x != k}
    for g in (0, 1, 2):
        if c.get("grp") is None:
            yield dict(c, grp=g)
    if c.get("hdr_shape", "tt") != "tt":
        yield dict(c, hdr_shape="tt")
    if c.get("vmd"):
        yield dict(c, vmd=0)
    for k in ("message", "author", "committer", "date", "committer_date"):
        if c[k] is not None and not (k == "author" and c["date"] is not None) and not (k == "committer" and c["committer_date"] is not None):
            yield dict(c, **{k: None})
    if len(c["parents"]) > 8:
        yield dict(c, parents=c["parents"][:len(c["parents"]) // 2])
    if len(c["extra"]) > 8:
        yield dict(c, extra=c["extra"][:len(c["extra"]) // 2])
    for i in range(len(c["parents"])):
        yield dict(c, parents=c["parents"][:i] + c["parents"][i + 1:])
    for i in range(len(c["extra"])):
        yield dict(c, extra=c["extra"][:i] + c["extra"][i + 1:])
    if c["legacy"]:
        yield dict(c, legacy=False)
    for k in ("message", "author", "committer"):
        if c[k]:
            b = bytes.fromhex(c[k])
            yield dict(c, **{k: b[:len(b) // 2].hex()})
            yield dict(c, **{k: b[len(b) // 2:].hex()})
    for i, (k, v) in enumerate(c["extra"]):
        if v:
            b = bytes.fromhex(v)
            yield dict(c, extra=c["extra"][:i] + [[k, b[:len(b) // 2].hex()]] + c["extra"][i + 1:])
            yield dict(c, extra=c["extra"][:i] + [[k, b[len(b) // 2:].hex()]] + c["extra"][i + 1:])
    for k in ("date", "committer_date"):
        if c[k] is not None and c[k] != [0, 0, b"+0000".hex()]:
            yield dict(c, **{k: [0, c[k][1], c[k][2]]})
            yield dict(c, **{k: [c[k][0], 0, c[k][2]]})
            yield dict(c, **{k: [c[k][0], c[k][1], b"+0000".hex()]})


# functions of /repo whose executed-line coverage by this run is reported in the evidence
ANCHORS = [('swh/model/git_objects.py', 'revision_git_object'),
           ('swh/model/git_objects.py', 'format_author_data'),
           ('swh/model/git_objects.py', 'format_date'),
           ('swh/model/git_objects.py', 'escape_newlines'),
           ('swh/model/git_objects.py', 'format_git_object_from_headers'),
           ('swh/model/model.py', 'Revision.__attrs_post_init__'),
           ('swh/model/model.py', 'Revision.check_author'),
           ('swh/model/model.py', 'Revision.check_committer'),
           ('swh/model/model.py', 'tuplify_extra_headers'),
           ('swh/model/model.py', 'Revision.from_dict'),
           ('swh/model/model.py', 'Person.from_dict'),
           ('swh/model/model.py', 'HashableObjectWithManifest.compute_hash'),
           ('swh/model/model.py', 'HashableObjectWithManifest.check'),
           ('swh/model/model.py', 'BaseHashableModel.check'),
           ('swh/model/model.py', 'BaseHashableModel.evolve'),
           ('swh/model/model.py', 'BaseHashableModel.__attrs_post_init__')]


def pre_checks(ctx):
    """validation of the spec-level definition against independent implementations of git's commit format
    (not a theorem): on the subset git can express - author and committer with integer dates and canonical
    offsets, well-formed header keys - dulwich parses the library's payload into the same fields and re-serialises
    it byte for byte, and (thorough tier) `git hash-object -t commit` / `git cat-file` agree on id and payload"""
    import random
    import subprocess
    import tempfile
    from swh.model import git_objects
    out = []
    try:
        from dulwich.objects import Commit
    except Exception:
        return out
    rng = random.Random(ctx.seed + 303)
    n = 60 if ctx.tier == "quick" else 3000
    gitdir = None
    if ctx.tier == "thorough":
        gitdir = tempfile.mkdtemp(prefix="c03git")
        subprocess.run(["git", "init", "-q", "--bare", gitdir], check=True)
    try:
        for _ in range(n):
            def date():
                h, m = rng.randrange(0, 14), rng.choice([0, 30, 45])
                return [rng.randrange(0, 2 ** 33), 0, (rng.choice(["+", "-"]) + "%02d%02d" % (h, m)).encode().hex()]
            extra = [[rng.choice([b"gpgsig", b"x-multi", b"x-custom", b"encoding"]).hex(),   # not mergetag: dulwich parses its value as a tag
                      rng.choice([b"v", b"line1\nline2", b"-----BEGIN-----\n\nab\n-----END-----", b"UTF-8"]).hex()]
                     for _ in range(rng.choice([0, 0, 1, 2]))]
            if len({e[0] for e in extra}) < len(extra):
                extra = extra[:1]
            c = {"message": rng.choice([b"", b"subject\n\nbody\n", b"x"]).hex(), "author": b"A U Thor <a@example.org>".hex(),
                 "date": date(), "committer": b"C O Mitter <c@example.org>".hex(), "committer_date": date(),
                 "directory": bytes(rng.randrange(256) for _ in range(20)).hex(),
                 "parents": [bytes(rng.randrange(256) for _ in range(20)).hex() for _ in range(rng.choice([0, 1, 2, 3]))],
                 "extra": extra, "legacy": False, "synthetic": False}
            r = _build(c)
            man = git_objects.revision_git_object(r)
            payload = man[man.index(b"\x00") + 1:]
            dc = Commit.from_string(payload)
            got = (dc.tree, list(dc.parents), dc.author, dc.author_time, dc.committer, dc.commit_time, dc.message)
            want = (c["directory"].encode(), [p.encode() for p in c["parents"]], bytes.fromhex(c["author"]), c["date"][0],
                    bytes.fromhex(c["committer"]), c["committer_date"][0], bytes.fromhex(c["message"]))
            if got != want or dc.as_raw_string() != payload or dc.id.decode() != r.id.hex():
                out.append(("spec-validation:dulwich-commit", "dulwich parses/re-serialises the payload differently: %r vs %r" % (got, want)))
                break
            if gitdir:
                p = subprocess.run(["git", "--git-dir", gitdir, "hash-object", "-t", "commit", "-w", "--stdin", "--literally"],
                                   input=payload, stdout=subprocess.PIPE, stderr=subprocess.PIPE)
                if p.returncode == 0:
                    gid = p.stdout.decode().strip()
                    back = subprocess.run(["git", "--git-dir", gitdir, "cat-file", "commit", gid], stdout=subprocess.PIPE).stdout
                    if gid != r.id.hex() or back != payload:
                        out.append(("spec-validation:git-commit", "git hash-object/cat-file disagree for %r" % c))
                        break
    finally:
        if gitdir:
            subprocess.run(["rm", "-rf", gitdir])
    return out


def coq_cases(cases):
    """revision_valid / rev_manifest / post_init / wf_extra / rev_compute_hash (+ Sha1.sha1 of the manifest) evaluated by
    vm_compute inside Coq vs the extracted driver (extraction cross-check)"""
    from . import core
    def size(c):
        return (sum(len(v) for v in _vals(c)) + sum(len(k) // 2 for k, _ in c["extra"]) + 20 * len(c["parents"])
                + sum(len(k + v) // 2 for k, v in (c.get("decoy") or [])) + len(c.get("raw") or "") // 2)
    cases[:] = [c for c in cases if size(c) <= 300]      # in place: the evidence's `n` is the number evaluated
    def nl(h):
        return "[" + "; ".join("%d" % b for b in bytes.fromhex(h)) + "]%N"
    def opt(h, f=nl):
        return "None" if h is None else "(Some %s)" % f(h)
    def person(h):
        return "{| fullname := %s; p_name := None; p_email := None |}" % nl(h)
    def date(d):
        return "{| ts := {| seconds := (%d)%%Z; microseconds := (%d)%%Z |}; offset_bytes := %s |}" % (d[0], d[1], nl(d[2]))
    def hdrs(hs):
        return "[" + "; ".join("(%s, %s)" % (nl(k), nl(v)) for k, v in hs) + "]"
    def rev(c):
        attr, meta = _md_plan(c)
        return ("{| v_message := %s; v_author := %s; v_committer := %s; v_date := %s; v_committer_date := %s; v_type := RtGit; "
                "v_directory := %s; v_synthetic := false; v_meta_extra := %s; v_meta_other := []; v_parents := [%s]; "
                "v_extra_headers := %s; v_raw_manifest := %s |}"
                % (opt(c["message"]), opt(c["author"], person), opt(c["committer"], person), opt(c["date"], date),
                   opt(c["committer_date"], date), nl(c["directory"]), "None" if meta is None else "(Some %s)" % hdrs(meta),
                   "; ".join(nl(p) for p in c["parents"]), hdrs(attr), opt(_raw_hex(c, {}))))
    src = ("From Coq Require Import List NArith ZArith.\nFrom SWH.lib Require Import Bytes Sha1.\nFrom SWH.model Require Import Time Rel Rev.\n"
           "Import ListNotations.\n" + core.COQ_CHECKSUM +
           "\nDefinition flat (hs : list (list N * list N)) : list N := concat (map (fun h => fst h ++ [256%N] ++ snd h ++ [257%N]) hs).\n"
           "Definition cases : list revision := [" + ";\n ".join(rev(c) for c in cases) + "].\n"
           "Eval vm_compute in map (fun r => if revision_valid r then let m := rev_manifest r in "
           "cksum (m ++ sha1 m ++ flat (v_extra_headers (post_init r)) ++ [if wf_extra (effective_extra r) then 1%N else 0%N] "
           "++ rev_manifest (post_init r) ++ match v_meta_extra (post_init r) with None => [258%N] | Some l => 259%N :: flat l end "
           "++ rev_compute_hash sha1 r) else 1%N) cases.\n")
    resp = core.run_driver(ID, [requests(c, {})[0] for c in cases])
    exp = []
    def flat(hs):
        out = []
        for k, v in hs:
            out += list(k) + [256] + list(v) + [257]
        return out
    for r in resp:
        w = r.split(" ")
        if w[0] != "ok":
            exp.append(1 if r == "err ValueError" else 3)
            continue
        exp.append(core.py_cksum(list(unhx(w[1])) + list(unhx(w[2])) + flat(_dec_headers(w[3])) + [int(w[4])] + list(unhx(w[5]))
                                 + ([258] if w[6] == "-" else [259] + flat(_dec_headers(w[6]))) + list(unhx(w[2] if w[7] == "=" else w[7]))))
    return src, exp
