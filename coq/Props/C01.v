(* C01 - Content hashes: every route gives the git blob id and the same
   digests.  Property theorems only: each is closed by `exact` of a lemma of
   proofs/HashutilProofs.v, with Print Assumptions beneath it.

   Reading guide.  A hashlib object is the byte string fed to it so far;
   [H algo data] is the digest function, UNIVERSALLY QUANTIFIED (nothing is
   assumed about it).  [cell_spec names length data c] says: the MultiHash
   object c, created for the algorithm names [names] with the declared length
   [length], holds for every requested name a exactly the bytes
   [prefix a length ++ data] (prefix = "blob <length>\0" for *_git names, empty
   otherwise), tracks the length iff "length" was requested, and its length
   counter is |data|.  [digest_spec] is the same after [digest()]:
   name a |-> H (base a) (prefix a length ++ data), "length" |-> |data|. *)
From Coq Require Import List NArith Bool.
From SWH.lib Require Import Bytes Dec GitHeader Hex Sha1.
From SWH Require Import Generated.
From SWH.model Require Import Hashutil.
From SWH.proofs Require Import HashutilProofs.
From SWH.proofs Require HashutilExamples.
Import ListNotations.
Open Scope N_scope.

(* Streaming.  For every store, every list of names and every declared length
   accepted by the constructor, and EVERY list of chunks (empty chunks
   included): after update(chunk) for each chunk the object has consumed
   exactly concat chunks - its entries, its length counter and therefore its
   digests (for every H) depend on the concatenation only; no other object of
   the store is touched. *)
Theorem C01_chunking : forall (st : store) names length st0 h chunks,
  mh_new st names length = Ok (st0, h) ->
  exists st1 c,
    mh_update_all st0 h chunks = Some st1 /\ nth_error st1 h = Some c
    /\ cell_spec names length (concat chunks) c
    /\ (forall H, exists d, mh_digest H st1 h = Some d /\ digest_spec H names length (concat chunks) d)
    /\ (forall k, k <> h -> nth_error st1 k = nth_error st k).
Proof. exact chunking. Qed.
Print Assumptions C01_chunking.

(* Two chunkings of the same bytes give the same digest dict and length. *)
Theorem C01_chunking_digest : forall H names length chunks1 chunks2 c1 c2,
  concat chunks1 = concat chunks2 ->
  mh_chunked names length chunks1 = Ok c1 -> mh_chunked names length chunks2 = Ok c2 ->
  forall a, lookup a (fst (cell_digest H c1)) = lookup a (fst (cell_digest H c2))
            /\ snd (cell_digest H c1) = snd (cell_digest H c2).
Proof. exact chunking_digest. Qed.
Print Assumptions C01_chunking_digest.

(* from_file.  (1) For every sequence of read outcomes that honours the
   file-object contract for [data] (non-empty prefixes of what remains, at most
   block bytes each, then an empty read) the `while True` loop ends with the
   fuel |data|+1 - never OutOfFuel, never ReaderExhausted - having consumed
   exactly data.  (2) If the block size is positive, every file-like object
   (any short-read schedule; BytesIO and regular files are the empty
   schedule) honours that contract, hence from_file on it consumes exactly
   data.  With block size 0 nothing would be read (C01_block_zero). *)
Theorem C01_from_file_total : forall block names length data c0,
  init_cell names length empty_cell = Ok c0 ->
  (forall reads, reader_contract block data reads ->
     exists c, from_file_reads names length (S (List.length data)) reads = Ok c /\ cell_spec names length data c)
  /\ (0 < block -> forall sched,
        reader_contract block data (file_reads block data sched)
        /\ exists c, from_file_obj block names length data sched = Ok c /\ cell_spec names length data c).
Proof. exact from_file_total_full. Qed.
Print Assumptions C01_from_file_total.

Theorem C01_block_zero : forall data sched, file_reads 0 data sched = [[]].
Proof. exact block_zero_reads_nothing. Qed.
Print Assumptions C01_block_zero.

(* Side condition on the table regenerated from hashutil.py. *)
Theorem C01_block_size_positive : 0 < HASH_BLOCK_SIZE.
Proof. exact block_size_positive. Qed.
Print Assumptions C01_block_size_positive.

(* All routes.  For every hash function H and every byte string: each entry
   point yields the record  (H sha1 data, H sha1 (blob_manifest data),
   H sha256 data, H blake2s256 data, |data|), where blob_manifest data =
   "blob " ++ decimal |data| ++ "\0" ++ data is git's blob object. *)
Theorem C01_routes_agree : forall (H : bytes -> bytes -> bytes) data,
    let e := expected H data in
    (exists c, mh_from_data NAMES5 data = Ok c /\ content_of_digest (cell_digest H c) = Some e)
    /\ (forall sched, exists c, mh_from_file NAMES5 (Some (lenN data)) data sched = Ok c
                                /\ content_of_digest (cell_digest H c) = Some e)
    /\ (forall sched, exists c, mh_from_path NAMES5 data sched = Ok c
                                /\ content_of_digest (cell_digest H c) = Some e)
    /\ (forall block reads, reader_contract block data reads ->
          exists c, from_file_reads NAMES5 (Some (lenN data)) (S (List.length data)) reads = Ok c
                    /\ content_of_digest (cell_digest H c) = Some e)
    /\ (forall chunks, concat chunks = data ->
          exists c, mh_chunked NAMES5 (Some (lenN data)) chunks = Ok c
                    /\ content_of_digest (cell_digest H c) = Some e)
    /\ model_content_from_data H data = Ok e
    /\ model_skipped_from_data H data = Ok e
    /\ disk_from_bytes H data = Ok e
    /\ (forall sched maxlen, exists absent, disk_from_file H (FReg data sched) maxlen = Ok (e, absent))
    /\ disk_from_file H (FSymlink data) None = Ok (e, false)
    /\ hash_git_data H data BLOB SHA1 = Ok (c_sha1_git e)
    /\ rmap (H SHA1) (content_git_object (Some data)) = Ok (c_sha1_git e)
    /\ (forall sched, cli_swhid_of_file H (FReg data sched) = Ok (swhid_text (c_sha1_git e)))
    /\ cli_swhid_of_file_content H data = Ok (swhid_text (c_sha1_git e)).
Proof. exact routes_agree. Qed.
Print Assumptions C01_routes_agree.

(* The spec-level blob object is lib/GitHeader's git object of type "blob",
   which an independent parser decodes back to ("blob", data). *)
Theorem C01_blob_manifest : forall d,
  blob_manifest d = git_object BLOB d /\ parse_git_object (blob_manifest d) = Some (BLOB, d).
Proof. exact blob_manifest_parses. Qed.
Print Assumptions C01_blob_manifest.

(* hash_git_data for every git object type and base algorithm: accepted iff the
   type is in the regenerated table GIT_OBJECT_TYPES, and then the digest is
   H base applied to "<type> <decimal length>\0" ++ data, an object that the
   independent parser decodes back to (type, data); otherwise ValueError.  No
   type of the table contains a space. *)
Theorem C01_hash_git_data_any : forall (H : bytes -> bytes -> bytes) data ty base,
  (mem_bytes ty GIT_OBJECT_TYPES = true ->
     hash_git_data H data ty base = Ok (H base (git_object ty data))
     /\ (~ In SP ty -> parse_git_object (git_object ty data) = Some (ty, data)))
  /\ (mem_bytes ty GIT_OBJECT_TYPES = false -> hash_git_data H data ty base = Err ValueError).
Proof. exact hash_git_data_any. Qed.
Print Assumptions C01_hash_git_data_any.

Theorem C01_git_types_space_free : forallb (fun ty => negb (memb SP ty)) GIT_OBJECT_TYPES = true.
Proof. exact git_types_space_free. Qed.
Print Assumptions C01_git_types_space_free.

(* Subsets.  For EVERY list of names and declared length: either the
   constructor accepts them, and then from_file (any reader) yields for each
   requested name a the digest H (base a) (prefix a length ++ data) - an
   expression in which the other names do not occur - and "length" |-> |data|
   iff requested; or it raises ValueError. *)
Theorem C01_subsets : forall H names length data sched,
  (names_ok names length = true ->
   exists c, mh_from_file names length data sched = Ok c /\ digest_spec H names length data (cell_digest H c))
  /\ (names_ok names length = false -> mh_from_file names length data sched = Err ValueError).
Proof. exact subsets. Qed.
Print Assumptions C01_subsets.

(* In particular a digest requested in two different subsets (with or without
   "length", through different readers) is the same. *)
Theorem C01_subsets_independent : forall H names1 names2 length data sched1 sched2 c1 c2 a,
  mh_from_file names1 length data sched1 = Ok c1 -> mh_from_file names2 length data sched2 = Ok c2 ->
  requested names1 a = true -> requested names2 a = true ->
  lookup a (fst (cell_digest H c1)) = lookup a (fst (cell_digest H c2))
  /\ lookup a (fst (cell_digest H c1)) = Some (H (base_algo a) (prefix a length ++ data)).
Proof. exact subsets_independent. Qed.
Print Assumptions C01_subsets_independent.

(* Exception classes of the constructor: accepted iff every name is "length"
   or a member of ALGORITHMS, and a length is given when a *_git name is
   present; otherwise ValueError. *)
Theorem C01_new_errors : forall names length,
  (names_ok names length = true -> exists c, init_cell names length empty_cell = Ok c)
  /\ (names_ok names length = false -> init_cell names length empty_cell = Err ValueError).
Proof. exact new_errors. Qed.
Print Assumptions C01_new_errors.

(* Copy.  For every store and live handle h: copy() returns a handle h' that
   is fresh (different from h, not previously in the store), changes nothing
   else, is in the same state as h (same digests for every H); feeding any
   chunks to h' leaves h's digests unchanged, feeding any chunks to h leaves
   the copy's digests unchanged, and either one continues from the common
   point (state = fold of update over the chunks from the common state). *)
Theorem C01_copy_independent : forall (st : store) h c,
  nth_error st h = Some c ->
  exists st' h',
    mh_copy st h = Some (st', Some h')
    /\ h' <> h /\ nth_error st h' = None
    /\ (forall k, k <> h' -> nth_error st' k = nth_error st k)
    /\ nth_error st' h' = Some c
    /\ (forall H, mh_digest H st' h' = mh_digest H st h)
    /\ (forall chunks, exists st1,
          mh_update_all st' h' chunks = Some st1
          /\ (forall H, mh_digest H st1 h = mh_digest H st h)
          /\ nth_error st1 h' = Some (fold_left cell_update chunks c))
    /\ (forall chunks, exists st1,
          mh_update_all st' h chunks = Some st1
          /\ (forall H, mh_digest H st1 h' = mh_digest H st h)
          /\ nth_error st1 h = Some (fold_left cell_update chunks c)).
Proof. exact copy_independent. Qed.
Print Assumptions C01_copy_independent.

(* The code before the fix of from_state (no `return ret`): copy() of a live
   object returns None - the first conjunct above is false of it. *)
Theorem C01_copy_refuted_old :
  exists (st : store) h c, nth_error st h = Some c /\ exists st', mh_copy_old st h = Some (st', None).
Proof. exact copy_refuted_old. Qed.
Print Assumptions C01_copy_refuted_old.

(* The domain hypothesis "the declared length is the real length" is needed:
   MultiHash(length=4) fed "abc" gives another sha1_git (real SHA-1) than
   length=3, the sha1 being the same. *)
Theorem C01_wrong_length_example :
  exists data n c_wrong c_right,
    n <> lenN data
    /\ mh_chunked NAMES5 (Some n) [data] = Ok c_wrong
    /\ mh_chunked NAMES5 (Some (lenN data)) [data] = Ok c_right
    /\ lookup SHA1_GIT (fst (cell_digest Hexec c_wrong)) <> lookup SHA1_GIT (fst (cell_digest Hexec c_right))
    /\ lookup SHA1 (fst (cell_digest Hexec c_wrong)) = lookup SHA1 (fst (cell_digest Hexec c_right)).
Proof. exact wrong_length_example. Qed.
Print Assumptions C01_wrong_length_example.

(* The driver's compressed presentation of a fed byte string is sound. *)
Theorem C01_view_sound : forall data x p, view data x = (p, true) -> x = p ++ data.
Proof. exact view_sound. Qed.
Print Assumptions C01_view_sound.

(* Non-vacuity: a store with a live object fed with empty and non-empty
   chunks and copied; a short-reading reader honouring the contract; the
   model run with real SHA-1 gives git's id of the blob "abc". *)
Theorem C01_satisfiable :
  (exists st0 h, mh_new [] NAMES5 (Some 3) = Ok (st0, h)
      /\ exists st1, mh_update_all st0 h [bs "a"; []; bs "bc"; []] = Some st1
      /\ exists st2 h', mh_copy st1 h = Some (st2, Some h') /\ h' <> h)
  /\ reader_contract 4 (bs "abcdefghij") [bs "a"; bs "bcde"; bs "fg"; bs "hij"; []]
  /\ rmap (fun c => hexlify (c_sha1_git c)) (model_content_from_data Hexec (bs "abc"))
     = Ok (bs "f2ba8f84ab5c1bce84a7b441cb1959cfc7093b7f").
Proof. exact hyps_satisfiable. Qed.
Print Assumptions C01_satisfiable.
