(* C06 - A directory read from disk gets the id git gives the same tree.
   Model: model/FromDisk.v (the tree on disk is data [fsnode]; the order in
   which the OS lists a directory is the oracle [ord], any permutation).
   Property theorems only: each is closed by `exact` of a lemma proved in
   proofs/FromDiskProofs.v / FromDiskMain.v, with Print Assumptions beneath. *)
From Coq Require Import List NArith Bool Permutation.
From SWH.lib Require Import Bytes Hex GitHeader.
From SWH.model Require Import Dir FromDisk.
From SWH.proofs Require Import FromDiskProofs FromDiskExport FromDiskMain.
From SWH Require Import Generated.
Import ListNotations.
Open Scope N_scope.

(* The specification-level id of a tree (regular file = blob of its bytes, link
   = blob of its text, special file = empty blob, directory = tree of its
   entries with the code's sort key and octal modes) IS the id git gives the
   tree: [git_node_id] encodes with git's own ordering rule (base_name_compare)
   and the literal modes 040000 / 120000 / 100644 / 100755 (100755 iff any
   execute bit).  For every hash function and every tree a POSIX directory can
   hold (names distinct, non-empty, without '/' and NUL). *)
Theorem C06_is_git_tree : forall (H : bytes -> bytes) (t : fsnode),
  wf_fs t = true -> node_id H t = git_node_id H t.
Proof. exact node_id_is_git. Qed.
Print Assumptions C06_is_git_tree.

(* The walk of Directory.from_disk without filter, for EVERY listing order
   (each os.scandir may answer any permutation, independently per directory)
   and every max_content_length under which it does not raise: the root hash
   is the git tree id of the tree (sub-directories, empty ones included, are
   trees). *)
Theorem C06_walk_refines : forall (H : bytes -> bytes) ord limit t m,
  (forall p ks, Permutation (ord p ks) ks) -> wf_fs t = true ->
  from_disk ord FAll limit t = FdOk m ->
  mt_id H m = node_id H t /\ mt_id H m = git_node_id H t.
Proof. exact walk_is_git_tree. Qed.
Print Assumptions C06_walk_refines.

(* ... and so is the hash of the node at every path; the paths of the result
   are exactly the paths of the tree (None on one side iff None on the other). *)
Theorem C06_walk_refines_paths : forall (H : bytes -> bytes) ord limit t m path,
  (forall p ks, Permutation (ord p ks) ks) -> wf_fs t = true ->
  from_disk ord FAll limit t = FdOk m ->
  option_map (mt_id H) (mt_get path m) = option_map (node_id H) (fs_get path t) /\
  option_map (mt_id H) (mt_get path m) = option_map (git_node_id H) (fs_get path t).
Proof. exact walk_paths_git. Qed.
Print Assumptions C06_walk_refines_paths.

(* The walk cannot fail without a size limit; with a limit it raises exactly
   when a symbolic link it reaches is longer than the limit. *)
Theorem C06_walk_total : forall ord f t, exists m, from_disk ord f None t = FdOk m.
Proof. exact from_disk_total. Qed.
Print Assumptions C06_walk_total.

(* The result does not depend on the order in which the OS lists entries
   (nor on the size limit): same root id, same id at every path. *)
Theorem C06_listing_order_free : forall (H : bytes -> bytes) ord1 ord2 l1 l2 t m1 m2,
  (forall p ks, Permutation (ord1 p ks) ks) -> (forall p ks, Permutation (ord2 p ks) ks) -> wf_fs t = true ->
  from_disk ord1 FAll l1 t = FdOk m1 -> from_disk ord2 FAll l2 t = FdOk m2 ->
  mt_id H m1 = mt_id H m2 /\
  forall path, option_map (mt_id H) (mt_get path m1) = option_map (mt_id H) (mt_get path m2).
Proof. exact order_free_all. Qed.
Print Assumptions C06_listing_order_free.

(* Trailing slashes: the path normalisation at the top of from_disk maps
   "p" followed by any number of "/" to "p" (p non-empty, not ending in "/"),
   so the same directory is scanned ... *)
Theorem C06_trailing_slash : forall (p : bytes) (k : nat),
  p <> [] -> last p 0 <> SLASH -> norm_path (p ++ repeat SLASH k) = p.
Proof. exact trailing_slash. Qed.
Print Assumptions C06_trailing_slash.

(* ... and "/" stays "/" ("//", "///", ... are read as "/"). *)
Theorem C06_trailing_slash_root : forall k : nat, norm_path (SLASH :: repeat SLASH k) = [SLASH].
Proof. exact trailing_slash_root. Qed.
Print Assumptions C06_trailing_slash_root.

(* A symbolic link is the blob of its link text, mode 120000, never skipped;
   nothing but the text enters: the target is never looked at. *)
Theorem C06_symlink_never_followed : forall (H : bytes -> bytes) (x : bytes),
  node_id H (Lnk x) = blob_id H x /\ git_node_id H (Lnk x) = blob_id H x /\
  (forall n, fs_entry H (n, Lnk x) = {| e_name := n; e_type := EFile; e_target := blob_id H x; e_perms := 40960 |}) /\
  (forall limit ci, from_file limit (Lnk x) = FdOk ci -> ci_data ci = x /\ ci_perms ci = 40960 /\ ci_skipped ci = false).
Proof. exact symlink_never_followed. Qed.
Print Assumptions C06_symlink_never_followed.

(* A fifo / socket / device is indistinguishable from an empty regular file
   with the same permission bits. *)
Theorem C06_special_is_empty_file : forall (H : bytes -> bytes) (mo : N),
  node_id H (Special mo) = blob_id H [] /\ git_node_id H (Special mo) = blob_id H [] /\
  (forall n, fs_entry H (n, Special mo) = fs_entry H (n, Reg [] mo)) /\
  (forall limit, from_file limit (Special mo) = from_file limit (Reg [] mo)).
Proof. exact special_is_empty_file. Qed.
Print Assumptions C06_special_is_empty_file.

(* mode_to_perms: executable_content iff any of the three execute bits (0o111 = 73) is set, else content. *)
Theorem C06_exec_bit : forall mode : N,
  (file_perms mode = PERMS_executable_content <-> N.land mode 73 <> 0) /\
  (file_perms mode = PERMS_content <-> N.land mode 73 = 0).
Proof. exact exec_bit. Qed.
Print Assumptions C06_exec_bit.

(* The DentryPerms constants regenerated from the source are git's modes. *)
Theorem C06_perms_table :
  PERMS_directory = 16384 /\ PERMS_symlink = 40960 /\ PERMS_content = 33188 /\ PERMS_executable_content = 33261 /\
  map oct [PERMS_directory; PERMS_symlink; PERMS_content; PERMS_executable_content]
  = [bs "40000"; bs "120000"; bs "100644"; bs "100755"].
Proof. exact perms_table. Qed.
Print Assumptions C06_perms_table.

(* With empty directories ignored, the root id is the git tree id of the tree
   without its recursively empty directories - the tree `git add -A && git
   write-tree` records (git does not track empty directories); the agreement
   of [prune_empty] with git is validated at run time (thorough tier). *)
Theorem C06_empty_ignored_is_git : forall (H : bytes -> bytes) ord limit t m,
  (forall p ks, Permutation (ord p ks) ks) -> wf_fs t = true ->
  from_disk ord FEmpty limit t = FdOk m -> mt_id H m = git_node_id H (prune_empty t).
Proof. exact empty_ignored_is_git. Qed.
Print Assumptions C06_empty_ignored_is_git.

(* Non-vacuity: a well-formed tree with a sub-directory, a symlink, an
   executable, a special file and a directory that is empty only recursively;
   a listing oracle that is not the identity; the walk succeeds. *)
Theorem C06_satisfiable :
  wf_fs ex_tree = true /\ (forall p ks, Permutation (rev_ord p ks) ks) /\
  (exists m, from_disk rev_ord FAll (Some 5) ex_tree = FdOk m /\ m <> MNode []) /\
  prune_empty ex_tree <> ex_tree /\ prune_named [bs ".GIT"] false ex_tree <> ex_tree /\
  prune_named [bs ".GIT"] true ex_tree = ex_tree.
Proof. exact ex_tree_ok. Qed.
Print Assumptions C06_satisfiable.

(* ---------------------------------------------------------------------------
   The literal iteration.  The code does not recurse: pass 1 is a LIFO stack
   `to_visit` filling a path-keyed map and a `filtered` list, pass 2 a FIFO
   queue building `traversal`, iterated in reverse with `del top_dir[path]`.
   model/FromDiskIter.v transcribes these loops as they are written
   ([from_disk_iter]: explicit stack and queue with fuel, update / delete at a
   path in the partially built tree, KeyError and the assert as error values);
   proofs/FromDiskIterProofs.v shows that this is what the recursive model
   [from_disk] of the theorems above computes.  [lord] is the os.scandir
   order of the literal model (on the entries on disk), [ord] the one of the
   recursive model: any two permutations. *)
From SWH.model Require Import FromDiskIter.
From SWH.proofs Require Import FromDiskIterProofs.

(* With fuel = the number of directories of the tree ([dir_count t], fixed
   inside [from_disk_iter]) neither loop runs out of fuel, no lookup or
   deletion by path fails (no KeyError, the assert holds): the iteration ends
   normally or with the ValueError of a too long symbolic link.  Every
   well-formed tree, filter, size limit and listing order. *)
Theorem C06_iter_total : forall lord f limit,
  (forall p cs, Permutation (lord p cs) cs) -> forall t, wf_fs t = true ->
  from_disk_iter lord f limit t = ItSymlinkTooLarge \/ exists m, from_disk_iter lord f limit t = ItOk m.
Proof. exact iter_total. Qed.
Print Assumptions C06_iter_total.

(* The iteration raises exactly when the recursive model raises, and
   otherwise returns the tree of the recursive model up to the order of the
   children inside each directory ([mtree_equiv]: a permutation at every
   level). *)
Theorem C06_iter_refines_recursive : forall lord f limit,
  (forall p cs, Permutation (lord p cs) cs) -> forall ord t,
  (forall p ks, Permutation (ord p ks) ks) -> wf_fs t = true ->
  match from_disk ord f limit t with
  | FdOk m => exists m', from_disk_iter lord f limit t = ItOk m' /\ mtree_equiv m m'
  | FdSymlinkTooLarge => from_disk_iter lord f limit t = ItSymlinkTooLarge
  end.
Proof. exact iter_refines_equiv. Qed.
Print Assumptions C06_iter_refines_recursive.

(* Hence the same root id and the same id at every path, for every hash
   function; the two results have the same set of paths (None on one side iff
   None on the other).  So every theorem above about [from_disk] is a theorem
   about the iteration. *)
Theorem C06_iter_same_ids : forall lord f limit,
  (forall p cs, Permutation (lord p cs) cs) -> forall (H : bytes -> bytes) ord t m m',
  (forall p ks, Permutation (ord p ks) ks) -> wf_fs t = true ->
  from_disk ord f limit t = FdOk m -> from_disk_iter lord f limit t = ItOk m' ->
  mt_id H m = mt_id H m' /\
  forall path, option_map (mt_id H) (mt_get path m) = option_map (mt_id H) (mt_get path m').
Proof. exact iter_same_ids. Qed.
Print Assumptions C06_iter_same_ids.

(* Non-vacuity: on ex_tree with ignore_empty_directories (pass 1 filters
   e/f, pass 2 deletes e) and the listing reversed, and with a name filter,
   the iteration and the recursive model return the SAME tree - on these
   examples even the order of the children agrees -; both raise with limit 3. *)
Theorem C06_iter_satisfiable :
  wf_fs ex_tree = true /\ (forall p cs, Permutation (lrev p cs) cs) /\
  (exists m, from_disk_iter lrev FEmpty (Some 5) ex_tree = ItOk m /\ from_disk rev_ord FEmpty (Some 5) ex_tree = FdOk m /\
             m <> MNode []) /\
  (exists m, from_disk_iter lid (FNamed [bs ".GIT"] false) None ex_tree = ItOk m /\
             from_disk id_ord (FNamed [bs ".GIT"] false) None ex_tree = FdOk m) /\
  from_disk_iter lid FAll (Some 3) ex_tree = ItSymlinkTooLarge /\ from_disk id_ord FAll (Some 3) ex_tree = FdSymlinkTooLarge.
Proof. exact iter_example. Qed.
Print Assumptions C06_iter_satisfiable.

(* ---------------------------------------------------------------------------
   Cross-model consistency C06 x C01 (proofs/CrossModelDiskHash.v).  The leaf
   ids used above ([blob_id], [mt_id] of the [MLeaf] built by [from_file]) are
   the sha1_git values that the content-hashing model of C01
   (model/Hashutil.v: [disk_from_file] = from_disk.Content.from_file, through
   MultiHash, any read schedule [sched]) computes for the same object.
   Hashutil quantifies over H : algorithm name -> data -> digest, this model
   over one function standing for SHA-1: the bridge instantiates it with
   [H "sha1"], for EVERY H.  For every regular file, symbolic link and special
   file [t] ([fsobj_of t sched] is the same object in Hashutil's vocabulary)
   and every size limit: either both raise (a link longer than the limit), or
   C01's route returns the content record [expected H data] with the same
   "absent" (skipped) flag and length, and the leaf's Merkle id - equally the
   specification id [node_id] - is that record's sha1_git, the hash of
   Hashutil's [blob_manifest] = "blob <len>\0<data>". *)
From SWH.model Require Hashutil.
From SWH.proofs Require Import CrossModelDiskHash.

Theorem C06_leaf_ids_are_C01_blob_ids : forall (H : bytes -> bytes -> bytes),
  (forall d, blob_id (H Hashutil.SHA1) d = H Hashutil.SHA1 (Hashutil.blob_manifest d)) /\
  (forall (t : fsnode) (sched : list nat) (limit : option N), is_fdir t = false ->
     match from_file limit t with
     | FdOk ci =>
         exists c, Hashutil.disk_from_file H (fsobj_of t sched) limit = Hashutil.Ok (c, ci_skipped ci)
           /\ c = Hashutil.expected H (ci_data ci)
           /\ mt_id (H Hashutil.SHA1) (MLeaf ci) = Hashutil.c_sha1_git c
           /\ mt_id (H Hashutil.SHA1) (MLeaf ci) = H Hashutil.SHA1 (Hashutil.blob_manifest (ci_data ci))
           /\ node_id (H Hashutil.SHA1) t = Hashutil.c_sha1_git c
           /\ Hashutil.c_length c = lenN (ci_data ci)
     | FdSymlinkTooLarge =>
         Hashutil.disk_from_file H (fsobj_of t sched) limit = Hashutil.Err Hashutil.OtherException
     end).
Proof. exact leaf_ids_are_C01_blob_ids. Qed.
Print Assumptions C06_leaf_ids_are_C01_blob_ids.

(* The path normalisation never does more than strip trailing slashes: the
   path handed to the OS is a prefix of the given one followed only by '/',
   never empty.  No component is removed or collapsed ("X/.." is NOT
   simplified lexically): which directory a path designates - symbolic links
   in it, "..", "." - is resolved by the operating system (exercised by the
   correspondence check over spellings of the root path, not modelled). *)
Theorem C06_norm_path_only_strips_slashes : forall p : bytes,
  (exists k, p = norm_path p ++ repeat SLASH k) /\ (p <> [] -> norm_path p <> []).
Proof. exact norm_path_only_strips_slashes. Qed.
Print Assumptions C06_norm_path_only_strips_slashes.

(* Depth.  The property quantifies over trees of every depth.  The MODEL has
   no depth limit: for t at the bottom of n nested directories (any n), the
   walk succeeds and its root hash is obtained by iterating n times, from the
   id of t, "hash of the tree object with the single entry 40000 <name>\0<id>"
   - the iterative reference the correspondence check uses for deep chains.
   The IMPLEMENTATION's domain is depth < the interpreter's recursion limit
   (Directory.from_disk raises RecursionError on a chain of 987 directories,
   986 work): recorded as the open known finding
   tree-deeper-than-recursion-limit, demonstrated at run time. *)
Theorem C06_model_has_no_depth_limit : forall (H : bytes -> bytes) n name t ord,
  is_fdir t = true -> name_wf name -> wf_fs t = true -> (forall p ks, Permutation (ord p ks) ks) ->
  fs_depth (chain n name t) = (n + fs_depth t)%nat /\
  exists m, from_disk ord FAll None (chain n name t) = FdOk m /\
            mt_id H m = Nat.iter n (fun i => H (single_dir_object name i)) (node_id H t).
Proof. exact no_depth_limit. Qed.
Print Assumptions C06_model_has_no_depth_limit.

Theorem C06_chain_id : forall (H : bytes -> bytes) n name t, is_fdir t = true ->
  node_id H (chain n name t) = Nat.iter n (fun i => H (git_object (bs "tree") (bs "40000" ++ [SP] ++ name ++ [NUL] ++ i))) (node_id H t).
Proof. exact node_id_chain. Qed.
Print Assumptions C06_chain_id.
