(* C06 - placeholder while the proofs are being written *)
From SWH.model Require Import FromDisk.
