(* C20 - Topological sort of a revision log puts every parent before its
   children.  Property theorems only: each is closed by `exact` of a lemma
   proved in proofs/TopoProofs.v, with Print Assumptions beneath it. *)
From Coq Require Import List NArith Permutation.
From SWH.model Require Import Topo.
From SWH.proofs Require Import TopoProofs.
Import ListNotations.

(* For every log with distinct ids, containing the parents of all its
   revisions, acyclic - given in ANY order (the hypotheses are invariant under
   permutation of the log) - and for EVERY choice of which ready revision is
   emitted next (the code's FIFO queue is the instance [fifo]): the sort ends
   without running out of fuel, yields each revision exactly once
   (Permutation) and every revision after all of its parents. *)
Theorem C20_topo : forall (pick : pick_oracle) (log : list rev),
  ids_distinct log -> closed log -> acyclic log ->
  exists out, toposort pick log = TopoOk out /\ Permutation out log /\ parents_first out.
Proof. exact toposort_correct. Qed.
Print Assumptions C20_topo.

(* The extracted checker run on the implementation's output decides exactly
   the conclusion of the property. *)
Theorem C20_checker_sound : forall log out, ids_distinct log ->
  is_topo_order log out = true -> Permutation out log /\ parents_first out.
Proof. exact is_topo_order_sound. Qed.
Print Assumptions C20_checker_sound.

Theorem C20_checker_complete : forall log out, ids_distinct log ->
  Permutation out log -> parents_first out -> is_topo_order log out = true.
Proof. exact is_topo_order_complete. Qed.
Print Assumptions C20_checker_complete.

(* Trace inclusion: an emission order accepted by the step-by-step replay of
   the model is a topological order of the log. *)
Theorem C20_trace_inclusion : forall log trace, ids_distinct log -> closed log -> acyclic log ->
  is_model_run log trace = true ->
  exists out, map rid out = trace /\ Permutation out log /\ parents_first out.
Proof. exact replay_sound. Qed.
Print Assumptions C20_trace_inclusion.

(* Non-vacuity: the hypotheses are satisfiable by a non-trivial log. *)
Theorem C20_hyps_satisfiable : exists log, ids_distinct log /\ closed log /\ acyclic log /\ length log >= 5.
Proof. exact hyps_satisfiable. Qed.
Print Assumptions C20_hyps_satisfiable.

(* "given in any order": the hypotheses of C20_topo are invariant under every
   permutation of the log, so the theorem covers every input order of every
   admissible log. *)
Theorem C20_any_order : forall log log', Permutation log log' ->
  ids_distinct log -> closed log -> acyclic log ->
  ids_distinct log' /\ closed log' /\ acyclic log'.
Proof. exact hyps_perm_invariant. Qed.
Print Assumptions C20_any_order.

(* The edge of the quantifier, machine-checked on the model of the code as it
   is: a log that lists one revision twice gets that revision yielded twice,
   and a log that lacks a parent silently loses the child (and everything
   above it).  Neither hypothesis of C20_topo can be dropped. *)
Theorem C20_hypotheses_needed :
  (exists log out, closed log /\ acyclic log /\ toposort fifo log = TopoOk out /\ ~ NoDup (map rid out)) /\
  (exists log out, ids_distinct log /\ acyclic log /\ toposort fifo log = TopoOk out /\ length out < length log).
Proof. exact hypotheses_needed. Qed.
Print Assumptions C20_hypotheses_needed.
