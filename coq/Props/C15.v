(* C15 - External-id and extrinsic-metadata ids come from unambiguous manifests. *)
From Coq Require Import List NArith ZArith Bool.
From SWH.lib Require Import Bytes Dec Hex GitHeader Headers CutLast.
From SWH.model Require Import Meta.
From SWH.proofs Require Import MetaProofs.
From SWH.proofs Require MetaExamples.
From SWH Require Import Generated.
Import ListNotations.
Open Scope N_scope.

(* The identifier is the hash of the header-list manifest - for every hash
   function H (SHA-1 is the instance run in the correspondence check). *)
Theorem C15_id_is_manifest_hash : forall (H : bytes -> bytes),
  (forall m, emd_id H m = H (emd_git_object m)) /\
  (forall e man, extid_git_object e = Ok man -> extid_id H e = Ok (H man)).
Proof.
  intro H. split; [reflexivity|]. intros e man E. unfold extid_id. rewrite E. reflexivity.
Qed.
Print Assumptions C15_id_is_manifest_hash.

(* ExtID: an independent positional parser (built on Headers.parse_object) recovers
   extid_type, version (0 when the line is absent), the extid bytes (arbitrary:
   newlines, binary), the printed target, payload_type and payload - for every
   constructible ExtID (payload pair set together; ASCII type strings, the
   others make .encode("ascii") raise). *)
Theorem C15_extid_parse : forall e m, extid_valid e = true -> extid_git_object e = Ok m ->
  parse_extid m = Some {| xf_type := x_type e; xf_version := x_version e; xf_extid := x_extid e;
                          xf_target := print_core (x_target e);
                          xf_payload_type := x_payload_type e; xf_payload := x_payload e |}.
Proof. exact parse_extid_ok. Qed.
Print Assumptions C15_extid_parse.

(* the printed SWHID text (target, context values) reads back to type and id *)
Theorem C15_swhid_text_roundtrip :
  (forall s, wf_bytes (es_id s) = true -> parse_ext (print_ext s) = Some s) /\
  (forall s, wf_bytes (cs_id s) = true -> parse_core (print_core s) = Some s).
Proof. split; [exact parse_ext_print | exact parse_core_print]. Qed.
Print Assumptions C15_swhid_text_roundtrip.

(* ExtID: the extid_version line is present iff version <> 0 (any int, negative
   included); the payload_type / payload lines are present iff the field is
   set, and for a constructible object they are present together; the key
   sequence is exactly the documented one. *)
Theorem C15_extid_optional_lines_exact : forall e,
  let ks := map fst (extid_headers e) in
  ks = [bs "extid_type"]
       ++ (if Z.eqb (x_version e) 0 then [] else [bs "extid_version"])
       ++ [bs "extid"; bs "target"]
       ++ (if issome (x_payload_type e) then [bs "payload_type"] else [])
       ++ (if issome (x_payload e) then [bs "payload"] else []) /\
  (In (bs "extid_version") ks <-> x_version e <> 0%Z) /\
  (In (bs "payload_type") ks <-> x_payload_type e <> None) /\
  (In (bs "payload") ks <-> x_payload e <> None) /\
  (extid_valid e = true -> (In (bs "payload_type") ks <-> In (bs "payload") ks)).
Proof. exact extid_optional_lines_exact. Qed.
Print Assumptions C15_extid_optional_lines_exact.

(* the constructor accepts exactly "payload_type set <-> payload set" *)
Theorem C15_extid_presence : forall e,
  extid_valid e = true <-> (x_payload_type e <> None <-> x_payload e <> None).
Proof. exact extid_presence. Qed.
Print Assumptions C15_extid_presence.

(* ExtID manifests are injective: equal manifests, equal objects *)
Theorem C15_extid_injective : forall e e' m,
  extid_valid e = true -> extid_valid e' = true ->
  wf_bytes (cs_id (x_target e)) = true -> wf_bytes (cs_id (x_target e')) = true ->
  extid_git_object e = Ok m -> extid_git_object e' = Ok m -> e = e'.
Proof. exact extid_manifest_injective. Qed.
Print Assumptions C15_extid_injective.

(* Metadata: the independent parser recovers target text, discovery second,
   authority type and url (split at the first space: the type word has none),
   fetcher name and version (split at the last space), format, the context as
   an association list in table order, and the metadata bytes.  The only
   hypothesis is that fetcher.version is space-free (as the format requires);
   url, name, origin, path, format and metadata are arbitrary bytes. *)
Theorem C15_emd_parse : forall m, ~ In SP (fe_version (m_fetcher m)) ->
  parse_emd (emd_git_object m) =
  Some {| ef_target := print_ext (m_target m); ef_second := (dt_us (m_date m) / 1000000)%Z;
          ef_auth_type := au_type (m_authority m); ef_auth_url := au_url (m_authority m);
          ef_fetcher_name := fe_name (m_fetcher m); ef_fetcher_version := fe_version (m_fetcher m);
          ef_format := m_format m; ef_context := opt_lines (ctx_field m) EMD_CONTEXT_KEYS;
          ef_metadata := m_metadata m |}.
Proof. exact parse_emd_ok. Qed.
Print Assumptions C15_emd_parse.

(* ... and each context field is read back from that association list *)
Theorem C15_context_lookup : forall m k, In k EMD_CONTEXT_KEYS ->
  assoc k (opt_lines (ctx_field m) EMD_CONTEXT_KEYS) = ctx_field m k.
Proof. exact emd_context_assoc. Qed.
Print Assumptions C15_context_lookup.

(* the restriction on fetcher.version is necessary: two different fetchers, one manifest *)
Theorem C15_fetcher_space_needed :
  ex_emd (bs "a b") (bs "c") <> ex_emd (bs "a") (bs "b c") /\
  emd_git_object (ex_emd (bs "a b") (bs "c")) = emd_git_object (ex_emd (bs "a") (bs "b c")).
Proof. exact fetcher_version_space_ambiguous. Qed.
Print Assumptions C15_fetcher_space_needed.

(* Metadata: the header keys are the five fixed ones followed by exactly the
   context keys whose field is set, in EMD_CONTEXT_KEYS order; a context line
   (k, v) is present iff the field k is set to v. *)
Theorem C15_optional_lines_exact : forall m,
  map fst (emd_headers m) =
    [bs "target"; bs "discovery_date"; bs "authority"; bs "fetcher"; bs "format"]
    ++ filter (fun k => issome (ctx_field m k)) EMD_CONTEXT_KEYS /\
  (forall k, In k EMD_CONTEXT_KEYS -> (In k (map fst (emd_headers m)) <-> ctx_field m k <> None)) /\
  (forall k v, In k EMD_CONTEXT_KEYS -> (In (k, v) (emd_headers m) <-> ctx_field m k = Some v)).
Proof. exact emd_optional_lines_exact. Qed.
Print Assumptions C15_optional_lines_exact.

Theorem C15_lines_per_field : forall m,
  let ks := map fst (emd_headers m) in
  (In (bs "origin") ks <-> m_origin m <> None) /\
  (In (bs "visit") ks <-> m_visit m <> None) /\
  (In (bs "snapshot") ks <-> m_snapshot m <> None) /\
  (In (bs "release") ks <-> m_release m <> None) /\
  (In (bs "revision") ks <-> m_revision m <> None) /\
  (In (bs "path") ks <-> m_path m <> None) /\
  (In (bs "directory") ks <-> m_directory m <> None).
Proof. exact emd_lines_per_field. Qed.
Print Assumptions C15_lines_per_field.

(* Metadata manifests are injective on constructed objects (date normalised
   by the constructor, ids are byte strings, space-free fetcher version) *)
Theorem C15_emd_injective : forall m m',
  ~ In SP (fe_version (m_fetcher m)) -> ~ In SP (fe_version (m_fetcher m')) ->
  swhids_wf m -> swhids_wf m' ->
  date_normalised (m_date m) -> date_normalised (m_date m') ->
  emd_git_object m = emd_git_object m' -> m = m'.
Proof. exact emd_manifest_injective. Qed.
Print Assumptions C15_emd_injective.

(* the constructor's output is normalised, so the theorem above applies to it *)
Theorem C15_constructor_normalises : forall m a, mk_emd m = Ok a ->
  a = set_date m (normalize_date (m_date m)) /\ emd_valid a = true /\
  dt_off (m_date a) = 0%Z /\ (dt_us (m_date a) mod 1000000 = 0)%Z /\
  emd_git_object a = emd_git_object m.
Proof.
  intros m a E. pose proof (mk_emd_normalised m a E) as [N1 N2].
  apply mk_emd_inv in E. destruct E as [E V]. repeat split; try assumption.
  rewrite E. apply emd_git_object_normalize.
Qed.
Print Assumptions C15_constructor_normalises.

(* The id depends on the discovery date only through the UTC second: two
   datetimes with the same floor(epoch_us / 10^6) - any offsets, any sub-second
   parts, before or after the epoch (Z./ is floor division) - give equal
   constructed objects, equal manifests and equal ids (for every H); different
   seconds give different manifests, raw and constructed. *)
Theorem C15_date_second_only : forall (H : bytes -> bytes) m d1 d2,
  ((dt_us d1 / 1000000 = dt_us d2 / 1000000)%Z ->
     mk_emd (set_date m d1) = mk_emd (set_date m d2) /\
     emd_git_object (set_date m d1) = emd_git_object (set_date m d2) /\
     emd_id H (set_date m d1) = emd_id H (set_date m d2)) /\
  ((dt_us d1 / 1000000 <> dt_us d2 / 1000000)%Z ->
     emd_git_object (set_date m d1) <> emd_git_object (set_date m d2) /\
     forall a b, mk_emd (set_date m d1) = Ok a -> mk_emd (set_date m d2) = Ok b ->
                 emd_git_object a <> emd_git_object b).
Proof. exact date_second_only. Qed.
Print Assumptions C15_date_second_only.

(* A discovery_date without a UTC offset - tzinfo None (DNaive) or a tzinfo whose utcoffset() is None for
   that date (DOffsetless) - is rejected with ValueError, whatever else the object holds; aware datetimes go
   through the constructor modelled above.  (No local-zone input exists in the model.) *)
Theorem C15_naive_rejected : forall m w,
  mk_emd_in m (DNaive w) = Err ValueError /\ mk_emd_in m (DOffsetless w) = Err ValueError /\
  forall d, mk_emd_in m (DAware d) = mk_emd (set_date m d).
Proof. exact naive_rejected. Qed.
Print Assumptions C15_naive_rejected.

(* Fixed finding (106558f): the constructor as it WAS accepted an offset-less tzinfo and read the wall-clock
   fields in the machine's local zone - the same call gives different manifests, hence ids, on a machine in
   UTC and on one at +09:00. *)
Theorem C15_offsetless_refuted_old : exists m w a b,
  mk_emd_in_old local_utc m (DOffsetless w) = Ok a /\
  mk_emd_in_old local_tokyo m (DOffsetless w) = Ok b /\
  emd_git_object a <> emd_git_object b /\
  (forall H : bytes -> bytes, emd_id H a = H (emd_git_object a) /\ emd_id H b = H (emd_git_object b)).
Proof. exact offsetless_refuted_old. Qed.
Print Assumptions C15_offsetless_refuted_old.

(* Fixed finding (c60369d): the version / visit lines were written with str(); a bool is an int for the
   validators and True == 1, so ExtID(extid_version=True) and ExtID(extid_version=1) - equal objects - had the
   manifests "extid_version True" and "extid_version 1": two ids, and the first is not read back by the parser.
   The present printing is the model's (a Z printed in decimal), which on plain ints is what str() gave. *)
Theorem C15_bool_version_refuted_old :
  int_value (IBool true) = x_version ex_extid_v1 /\ int_value (IPlain 1) = x_version ex_extid_v1 /\
  extid_manifest_old ex_extid_v1 (IBool true) <> extid_manifest_old ex_extid_v1 (IPlain 1) /\
  parse_extid (extid_manifest_old ex_extid_v1 (IBool true)) = None /\
  extid_git_object ex_extid_v1 = Ok (extid_manifest_old ex_extid_v1 (IPlain 1)).
Proof. exact bool_version_refuted_old. Qed.
Print Assumptions C15_bool_version_refuted_old.

(* Which context fields the seven validators admit for which target kind. *)
Theorem C15_context_admissible : forall m,
  emd_valid m = true <->
  ( (forall k, In k (ctx_set m) -> In k (admissible (es_ty (m_target m)))) /\
    (forall o, m_origin m = Some o -> starts_with (bs "swh:") o = false) /\
    (forall v, m_visit m = Some v -> (0 < v)%Z /\ m_origin m <> None) /\
    cs_has_ty (m_snapshot m) CSnp /\ cs_has_ty (m_release m) CRel /\
    cs_has_ty (m_revision m) CRev /\ cs_has_ty (m_directory m) CDir ).
Proof. exact emd_valid_spec. Qed.
Print Assumptions C15_context_admissible.

(* Side conditions on the regenerated tables and the literal keys. *)
Theorem C15_keys_wf :
  NoDup EMD_CONTEXT_KEYS /\ forallb wf_key EMD_CONTEXT_KEYS = true /\
  (forall k, In k EMD_CONTEXT_KEYS -> ~ In k fixed_keys) /\
  (forall k, In k ctx_field_names -> In k EMD_CONTEXT_KEYS) /\
  NoDup fixed_keys /\ forallb wf_key fixed_keys = true /\
  NoDup extid_keys /\ forallb wf_key extid_keys = true /\
  mem_bytes (bs "extid") GIT_OBJECT_TYPES = true /\
  mem_bytes (bs "raw_extrinsic_metadata") GIT_OBJECT_TYPES = true /\
  map cty_word all_cty = SWHID_TYPES /\ map ety_word all_ety = EXTENDED_SWHID_TYPES.
Proof. exact keys_wf. Qed.
Print Assumptions C15_keys_wf.

(* non-vacuity: concrete objects with every optional line, newlines, non-ASCII,
   a negative version and a date one microsecond before the epoch at +05:30 *)
Theorem C15_extid_satisfiable :
  extid_valid ex_extid = true /\ wf_bytes (cs_id (x_target ex_extid)) = true /\
  exists m, extid_git_object ex_extid = Ok m /\ parse_extid m = Some (extid_expected ex_extid).
Proof. exact ex_extid_ok. Qed.
Print Assumptions C15_extid_satisfiable.

Theorem C15_emd_satisfiable :
  exists a, mk_emd ex_full_emd = Ok a /\ ~ In SP (fe_version (m_fetcher a)) /\ swhids_wf a /\
            date_normalised (m_date a) /\ emd_second a = (-1)%Z /\ length (emd_context a) = 7%nat /\
            parse_emd (emd_git_object a) = Some (emd_expected a).
Proof. exact ex_full_emd_ok. Qed.
Print Assumptions C15_emd_satisfiable.

(* the authority-type words of the model are the MetadataAuthorityType enum values of the source (regenerated table) *)
Theorem C15_authority_types_table : METADATA_AUTHORITY_TYPES = map auth_word all_auth.
Proof. vm_compute. reflexivity. Qed.
Print Assumptions C15_authority_types_table.

(* ---- cross-model consistency C15 x C08 (proofs/CrossModelMetaSwhid.v): the SWHID
   printer of this model (print_swhid / print_core / print_ext: the `target`
   line and the snapshot / release / revision / directory context lines) is the
   printer of the full SWHID model of C08 (model/Swhid.v).  Meta prints bytes,
   Swhid prints text (code points); both are lists of numbers and
   1. the two lists are EQUAL, for every type word and every id;
   2. for an id made of bytes they are ASCII, so encoding Swhid's text in UTF-8
      gives exactly Meta's bytes and decoding Meta's bytes gives the text;
   3. for a 20-byte id (what a SWHID carries) Swhid's from_string parsers
      accept Meta's bytes and return the same type word and id - parse_ext for
      all seven types, parse_core exactly for the five core ones (ori / emd:
      ValidationError) - as this model's own small reader does.
   [ext_to_core s] / [to_core s] is the C08 value with Meta's type word and the id;
   the type words are the SWHID_TYPES / EXTENDED_SWHID_TYPES tables. *)
From SWH.lib Require Utf8.
From SWH.model Require Swhid.
From SWH.proofs Require Import CrossModelMetaSwhid.

Theorem C15_swhid_printer_is_C08s :
  (forall w id, print_swhid w id = Swhid.print_core (Swhid.mkCore w id)) /\
  (forall s : eswhid,
     print_ext s = Swhid.print_core (ext_to_core s) /\
     In (Swhid.c_ty (ext_to_core s)) EXTENDED_SWHID_TYPES /\
     (wf_bytes (es_id s) = true ->
        forallb Utf8.is_ascii (print_ext s) = true /\
        Utf8.utf8_encode (Swhid.print_core (ext_to_core s)) = Some (print_ext s) /\
        Utf8.utf8_decode_replace (print_ext s) = Swhid.print_core (ext_to_core s)) /\
     (wf_bytes (es_id s) = true -> length (es_id s) = 20%nat ->
        Swhid.parse_ext (print_ext s) = Swhid.Ok (ext_to_core s) /\
        Swhid.parse_core (print_ext s)
          = (if tgt_is_core (es_ty s) then Swhid.Ok (ext_to_core s) else Swhid.Err Swhid.EValidation) /\
        parse_ext (print_ext s) = Some s)) /\
  (forall s : cswhid,
     print_core s = Swhid.print_core (to_core s) /\
     In (Swhid.c_ty (to_core s)) SWHID_TYPES /\
     (wf_bytes (cs_id s) = true ->
        forallb Utf8.is_ascii (print_core s) = true /\
        Utf8.utf8_encode (Swhid.print_core (to_core s)) = Some (print_core s) /\
        Utf8.utf8_decode_replace (print_core s) = Swhid.print_core (to_core s)) /\
     (wf_bytes (cs_id s) = true -> length (cs_id s) = 20%nat ->
        Swhid.parse_core (print_core s) = Swhid.Ok (to_core s) /\
        Swhid.parse_ext (print_core s) = Swhid.Ok (to_core s) /\
        parse_core (print_core s) = Some s)).
Proof. exact swhid_printer_is_C08s. Qed.
Print Assumptions C15_swhid_printer_is_C08s.
