(* C13 - Filtering and exporting an on-disk tree is consistent and closed.
   Model: model/FromDisk.v (name / emptiness filters, export) and
   model/FromDiskPat.v (glob exclusion patterns, at the end of this file).
   Property theorems only: each is closed by `exact` of a lemma proved in
   proofs/FromDiskProofs.v / FromDiskExport.v / FromDiskMain.v /
   FromDiskPatProofs.v, with Print Assumptions beneath. *)
From Coq Require Import List NArith Bool Permutation.
From SWH.lib Require Import Bytes Hex GitHeader Sha1.
From SWH.model Require Import Dir FromDisk.
From SWH.proofs Require Import FromDiskProofs FromDiskExport FromDiskMain.
From SWH Require Import Generated.
Import ListNotations.
Open Scope N_scope.

(* Reading with ignore_empty_directories (two passes: not descending into a
   directory whose listing is empty, then deleting bottom-up what has become
   empty) gives the same root id - and the same id at the same paths - as
   reading, unfiltered, the copy [prune_empty t] from which the recursively
   empty directories were physically removed.  For every pair of listing
   oracles and size limits, every hash function. *)
Theorem C13_empty_equiv : forall (H : bytes -> bytes) ord ord' limit limit' t m m',
  (forall p ks, Permutation (ord p ks) ks) -> (forall p ks, Permutation (ord' p ks) ks) -> wf_fs t = true ->
  from_disk ord FEmpty limit t = FdOk m -> from_disk ord' FAll limit' (prune_empty t) = FdOk m' ->
  mt_id H m = mt_id H m' /\
  forall path, option_map (mt_id H) (mt_get path m) = option_map (mt_id H) (mt_get path m').
Proof. exact empty_equiv. Qed.
Print Assumptions C13_empty_equiv.

(* Same for ignore_named_directories(names, case_sensitive) and the copy
   [prune_named names case_sensitive t] from which the directories so named
   were removed with everything below them. *)
Theorem C13_named_equiv : forall (H : bytes -> bytes) ns cs0 ord ord' limit limit' t m m',
  (forall p ks, Permutation (ord p ks) ks) -> (forall p ks, Permutation (ord' p ks) ks) -> wf_fs t = true ->
  from_disk ord (FNamed ns cs0) limit t = FdOk m -> from_disk ord' FAll limit' (prune_named ns cs0 t) = FdOk m' ->
  mt_id H m = mt_id H m' /\
  forall path, option_map (mt_id H) (mt_get path m) = option_map (mt_id H) (mt_get path m').
Proof. exact named_equiv. Qed.
Print Assumptions C13_named_equiv.

(* ... and directly: the id at every path is the git tree / blob id of the
   node at that path of the pruned copy. *)
Theorem C13_filtered_ids : forall (H : bytes -> bytes) ord limit t m path,
  (forall p ks, Permutation (ord p ks) ks) -> wf_fs t = true ->
  (forall ns cs0, from_disk ord (FNamed ns cs0) limit t = FdOk m ->
     option_map (mt_id H) (mt_get path m) = option_map (git_node_id H) (fs_get path (prune_named ns cs0 t))) /\
  (from_disk ord FEmpty limit t = FdOk m ->
     option_map (mt_id H) (mt_get path m) = option_map (git_node_id H) (fs_get path (prune_empty t))).
Proof. exact filtered_ids. Qed.
Print Assumptions C13_filtered_ids.

(* What the physical prunings are.  Empty: every file (regular, link, special)
   of the tree is still there and none appeared; no empty directory is left
   below the root (recursively: a directory emptied by the pruning is removed
   too); the result is a tree a file system can hold. *)
Theorem C13_prune_empty_spec : forall t,
  (forall t', is_fdir t' = false -> (FsSub t' (prune_empty t) <-> FsSub t' t)) /\
  (forall cs n, FsSub (FDir cs) (prune_empty t) -> ~ In (n, FDir []) cs) /\
  (wf_fs t = true -> wf_fs (prune_empty t) = true).
Proof. exact prune_empty_spec. Qed.
Print Assumptions C13_prune_empty_spec.

(* Named: no directory with an ignored name is left below the root; no file
   appears; names are compared exactly, or after folding ASCII A-Z only
   (bytes.lower(): bytes >= 128, e.g. UTF-8 upper-case letters, do not fold). *)
Theorem C13_prune_named_spec : forall ns cs0 t,
  (forall cs n c, FsSub (FDir cs) (prune_named ns cs0 t) -> In (n, FDir c) cs -> filt_dir (FNamed ns cs0) n [] = true) /\
  (forall t', is_fdir t' = false -> FsSub t' (prune_named ns cs0 t) -> FsSub t' t) /\
  (wf_fs t = true -> wf_fs (prune_named ns cs0 t) = true) /\
  (forall n, (filt_dir (FNamed ns true) n [] = false <-> In n ns) /\
             (filt_dir (FNamed ns false) n [] = false <-> exists n', In n' ns /\ lower n' = lower n)) /\
  (forall c, 128 <= c -> lower_byte c = c).
Proof. exact prune_named_spec. Qed.
Print Assumptions C13_prune_named_spec.

(* The root itself is never filtered out, whatever its name or content. *)
Theorem C13_root_kept : forall ord f limit cs m,
  from_disk ord f limit (FDir cs) = FdOk m -> exists ks, m = MNode ks.
Proof. exact root_kept. Qed.
Print Assumptions C13_root_kept.

(* Export (iter_tree with dedup + to_model), for EVERY Merkle tree and every
   hash function - no collision-freeness assumed: *)
(* each id appears once *)
Theorem C13_export_once : forall (H : bytes -> bytes) m, NoDup (map x_id (export H m)).
Proof. exact export_once. Qed.
Print Assumptions C13_export_once.

(* closed under reference: every entry of every exported directory points to
   an exported object *)
Theorem C13_export_closed : forall (H : bytes -> bytes) m i es e,
  In (XDir i es) (export H m) -> In e es -> In (e_target e) (map x_id (export H m)).
Proof. exact export_closed. Qed.
Print Assumptions C13_export_closed.

(* integrity: a directory's id is the hash of the manifest of its entries, a
   content's id is the git blob id of its data, a skipped content carries the
   blob id and the length of some data *)
Theorem C13_export_ids : forall (H : bytes -> bytes) m x, In x (export H m) ->
  match x with
  | XDir i es => i = H (dir_manifest es)
  | XContent i d => i = blob_id H d
  | XSkipped i l => exists d, i = blob_id H d /\ l = lenN d
  end.
Proof. exact export_ids. Qed.
Print Assumptions C13_export_ids.

(* the root is exported, first *)
Theorem C13_export_complete : forall (H : bytes -> bytes) m, exists xs, export H m = x_of H m :: xs.
Proof. exact export_root_first. Qed.
Print Assumptions C13_export_complete.

(* Exported directories of a tree read from disk: the entries are (a
   permutation of) those of a directory of the pruned tree, they pass the
   validators of model.Directory (names distinct and slash-free), the id is
   that directory's git tree id. *)
Theorem C13_export_dirs : forall (H : bytes -> bytes) ord f limit t m i es,
  (forall p ks, Permutation (ord p ks) ks) -> wf_fs t = true ->
  from_disk ord f limit t = FdOk m -> In (XDir i es) (export H m) ->
  i = H (dir_manifest es) /\ valid_dir es = true /\
  exists cs, FsSub (FDir cs) (prune_gen f t) /\ Permutation es (map (fs_entry H) cs) /\ i = node_id H (FDir cs).
Proof. exact export_dirs. Qed.
Print Assumptions C13_export_dirs.

(* [prune_gen f] in the statement above is the physical pruning of the filter f. *)
Theorem C13_prune_gen_instances : forall t,
  prune_gen FAll t = t /\ prune_gen FEmpty t = prune_empty t /\
  forall ns cs0, prune_gen (FNamed ns cs0) t = prune_named ns cs0 t.
Proof. exact prune_gen_instances. Qed.
Print Assumptions C13_prune_gen_instances.

(* Exported contents: the data is the bytes of a file of the tree (the text of
   a link; nothing for a special file), not above the limit, and hashes to the
   content's id. *)
Theorem C13_export_contents : forall (H : bytes -> bytes) ord f limit t m i d,
  (forall p ks, Permutation (ord p ks) ks) ->
  from_disk ord f limit t = FdOk m -> In (XContent i d) (export H m) ->
  i = blob_id H d /\
  exists t', FsSub t' t /\ is_fdir t' = false /\ d = fs_data t' /\ too_large limit (lenN d) = false.
Proof. exact export_contents. Qed.
Print Assumptions C13_export_contents.

(* Skipped contents: a regular file above the limit, with the blob id and the
   length of its bytes. *)
Theorem C13_export_skipped : forall (H : bytes -> bytes) ord f limit t m i l,
  (forall p ks, Permutation (ord p ks) ks) ->
  from_disk ord f limit t = FdOk m -> In (XSkipped i l) (export H m) ->
  exists d mo, FsSub (Reg d mo) t /\ i = blob_id H d /\ l = lenN d /\ too_large limit l = true.
Proof. exact export_skipped. Qed.
Print Assumptions C13_export_skipped.

(* A regular file is skipped iff it is longer than the limit; its leaf keeps
   the bytes (hence the id). *)
Theorem C13_skipped_iff : forall limit d mo ci, from_file limit (Reg d mo) = FdOk ci ->
  ci_data ci = d /\ (ci_skipped ci = true <-> exists l, limit = Some l /\ l < lenN d).
Proof. exact skipped_iff. Qed.
Print Assumptions C13_skipped_iff.

(* The size limit changes no id: two reads with the same filter under any two
   limits (and listing orders) that do not raise agree at the root and at
   every path. *)
Theorem C13_skip_same_ids : forall (H : bytes -> bytes) ord1 ord2 f l1 l2 t m1 m2,
  (forall p ks, Permutation (ord1 p ks) ks) -> (forall p ks, Permutation (ord2 p ks) ks) -> wf_fs t = true ->
  from_disk ord1 f l1 t = FdOk m1 -> from_disk ord2 f l2 t = FdOk m2 ->
  mt_id H m1 = mt_id H m2 /\
  forall path, option_map (mt_id H) (mt_get path m1) = option_map (mt_id H) (mt_get path m2).
Proof. exact skip_same_ids. Qed.
Print Assumptions C13_skip_same_ids.

(* The read raises exactly when a symbolic link that pass 1 reaches (one not
   below a directory the filter rejects on its listing) is longer than the
   limit; reached links are links of the tree, and without filter all of them. *)
Theorem C13_symlink_limit : forall ord f limit t,
  (from_disk ord f limit t = FdSymlinkTooLarge <->
   exists x, In x (reach_links f t) /\ exists l, limit = Some l /\ l < lenN x) /\
  (forall x, In x (reach_links f t) -> FsSub (Lnk x) t) /\
  (forall x, In x (reach_links FAll t) <-> FsSub (Lnk x) t) /\
  (forall x, from_file limit (Lnk x) = FdSymlinkTooLarge <-> exists l, limit = Some l /\ l < lenN x).
Proof. exact symlink_limit. Qed.
Print Assumptions C13_symlink_limit.

(* Non-vacuity: a tree with a chain of directories empty only recursively, a
   directory named like an ignored name up to case, three identical files, two
   identical sub-trees, a symlink and a file above the limit: the export
   (real SHA-1) has 8 objects for 11 nodes, the last one skipped; the filtered
   paths are gone, the others are there; case-sensitive matching keeps .git;
   a limit below the link length raises. *)
Theorem C13_satisfiable :
  wf_fs ex_tree2 = true /\
  (exists m, from_disk rev_ord FEmpty (Some 4) ex_tree2 = FdOk m /\
             map x_kind (export sha1 m) = [0; 0; 1; 1; 0; 1; 1; 2] /\
             mt_get [bs "e"] m = None /\ mt_get [bs "a.b"; bs "copy"] m <> None) /\
  (exists m, from_disk id_ord (FNamed [bs ".GIT"; bs "E"] false) None ex_tree2 = FdOk m /\
             mt_get [bs ".git"] m = None /\ mt_get [bs "e"] m = None /\ mt_get [bs "a.b"; bs "copy"] m <> None) /\
  (exists m, from_disk id_ord (FNamed [bs ".GIT"; bs "E"] true) None ex_tree2 = FdOk m /\ mt_get [bs ".git"] m <> None) /\
  from_disk id_ord FAll (Some 3) ex_tree2 = FdSymlinkTooLarge.
Proof. exact ex_tree2_ok. Qed.
Print Assumptions C13_satisfiable.

(* ---- cross-model consistency C13 x C07 x C02 x C01 (proofs/CrossModelExport.v).
   What export emits for a tree read from disk are VALID, CHECKED model objects:
   an exported directory XDir i es, viewed as the hashable object
   [hobj_of_dir i es] = (kind Directory, attrs manifest = dir_manifest es, no
   raw manifest, id i), passes the generic integrity check of C07
   (model/Ident.v: check() = Ok), recomputing its hash gives i, and it is the
   object Directory(entries=es) builds without id; es passes the validators
   of C02 (model/Dir.v), so that constructor call does not raise; contents
   carry the hash of C01's blob manifest "blob <len>\0<data>"
   (model/Hashutil.v), skipped contents that of some data of the given
   length.  Every hash function, filter, limit and listing order. *)
From SWH.model Require Ident Hashutil.
From SWH.proofs Require Import CrossModelExport.

Theorem C13_export_checked : forall (H : bytes -> bytes) ord f limit t m x,
  (forall p ks, Permutation (ord p ks) ks) -> wf_fs t = true ->
  from_disk ord f limit t = FdOk m -> In x (export H m) ->
  match x with
  | XDir i es =>
      valid_dir es = true
      /\ mk_dir_manifest es = DirOk (dir_manifest es)
      /\ Ident.check H (hobj_of_dir i es) = Ident.Ok tt
      /\ Ident.compute_hash H (hobj_of_dir i es) = Ident.Ok i
      /\ Ident.construct H Ident.KDirectory (Some (dir_manifest es)) (Some None) [] = Ident.Ok (hobj_of_dir i es)
      /\ i = dir_id H es
  | XContent i d => i = H (Hashutil.blob_manifest d)
  | XSkipped i l => exists d, i = H (Hashutil.blob_manifest d) /\ l = lenN d
  end.
Proof. exact export_checked. Qed.
Print Assumptions C13_export_checked.

(* the check / recomputation / id clauses hold for the export of EVERY Merkle
   tree, read from disk or not (no validity of the entries is claimed then) *)
Theorem C13_export_objects_checked : forall (H : bytes -> bytes) m x, In x (export H m) ->
  match x with
  | XDir i es =>
      Ident.check H (hobj_of_dir i es) = Ident.Ok tt
      /\ Ident.compute_hash H (hobj_of_dir i es) = Ident.Ok i
      /\ Ident.construct H Ident.KDirectory (Some (dir_manifest es)) (Some None) [] = Ident.Ok (hobj_of_dir i es)
      /\ i = dir_id H es
  | XContent i d => i = H (Hashutil.blob_manifest d)
  | XSkipped i l => exists d, i = H (Hashutil.blob_manifest d) /\ l = lenN d
  end.
Proof. exact export_objects_checked. Qed.
Print Assumptions C13_export_objects_checked.

(* ------------------------------------------------------------------ glob exclusion patterns
   from_disk.ignore_directories_patterns / extract_regex_objs.  Model:
   model/FromDiskPat.v - the glob language of fnmatch.translate (validated
   against re.compile(fnmatch.translate(p)) at run time, not modelled) and the
   two passes of from_disk parameterised by what the path filter answers in
   pass 1 (directories AND files) and in pass 2 (directories); proofs in
   proofs/FromDiskPatProofs.v. *)
From SWH.model Require Import FromDiskPat.
From SWH.proofs Require Import FromDiskPatProofs.

(* The two-predicate model is a conservative extension: instantiated with a
   name / emptiness filter (files accepted, directories judged on their name
   and entries) it IS FromDisk.from_disk - every theorem above is about it. *)
Theorem C13_pattern_conservative : forall ord f limit t,
  from_disk_pat ord (pf_of f) (pf_of f) limit t = from_disk ord f limit t.
Proof. exact from_disk_pat_conservative. Qed.
Print Assumptions C13_pattern_conservative.

(* Reading with exclusion patterns IS reading, unfiltered, the copy
   [prune_pat pats t] from which every entry - file or directory - whose
   root-relative path matches a pattern was removed with everything below it:
   the same Merkle tree for the same listing oracle, the same
   Symlink-too-large error.  Hence every export theorem above applies to it
   (with t := prune_pat pats t and the filter FAll). *)
Theorem C13_pattern_exact : forall ord pats limit t, (forall p ks, Permutation (ord p ks) ks) ->
  from_disk_pat ord (pat_filter pats) (pat_filter pats) limit t = from_disk ord FAll limit (prune_pat pats t).
Proof. exact pat_exact. Qed.
Print Assumptions C13_pattern_exact.

(* In the style of C13_named_equiv: any two listing oracles and limits. *)
Theorem C13_pattern_equiv : forall (H : bytes -> bytes) pats ord ord' limit limit' t m m',
  (forall p ks, Permutation (ord p ks) ks) -> (forall p ks, Permutation (ord' p ks) ks) -> wf_fs t = true ->
  from_disk_pat ord (pat_filter pats) (pat_filter pats) limit t = FdOk m ->
  from_disk ord' FAll limit' (prune_pat pats t) = FdOk m' ->
  mt_id H m = mt_id H m' /\
  forall path, option_map (mt_id H) (mt_get path m) = option_map (mt_id H) (mt_get path m').
Proof. exact pat_equiv. Qed.
Print Assumptions C13_pattern_equiv.

(* ... and the ids are the git ids of the pruned tree, at the root and at every path. *)
Theorem C13_pattern_ids : forall (H : bytes -> bytes) pats ord limit t m path,
  (forall p ks, Permutation (ord p ks) ks) -> wf_fs t = true ->
  from_disk_pat ord (pat_filter pats) (pat_filter pats) limit t = FdOk m ->
  mt_id H m = git_node_id H (prune_pat pats t) /\
  option_map (mt_id H) (mt_get path m) = option_map (git_node_id H) (fs_get path (prune_pat pats t)).
Proof. exact pat_ids. Qed.
Print Assumptions C13_pattern_ids.

(* The read raises exactly when a symbolic link OF THE PRUNED TREE is longer
   than the limit: an excluded link, or one below an excluded directory, is
   never read. *)
Theorem C13_pattern_symlink_limit : forall pats ord limit t, (forall p ks, Permutation (ord p ks) ks) ->
  (from_disk_pat ord (pat_filter pats) (pat_filter pats) limit t = FdSymlinkTooLarge <->
   exists x, FsSub (Lnk x) (prune_pat pats t) /\ exists l, limit = Some l /\ l < lenN x).
Proof. exact pat_symlink_limit. Qed.
Print Assumptions C13_pattern_symlink_limit.

(* What the pruned copy is: a path survives iff none of its non-empty prefixes
   is excluded, and then holds the pruned sub-tree; files are untouched; the
   result is a tree a file system can hold. *)
Theorem C13_prune_pat_spec : forall pats t,
  (forall q, fs_get q (prune_pat pats t) =
             if kept (fun p => negb (excluded pats p)) [] q
             then option_map (prune_path (fun p => negb (excluded pats p)) q) (fs_get q t) else None) /\
  (forall t', is_fdir t' = false -> forall q, fs_get q (prune_pat pats t) = Some t' -> fs_get q t = Some t') /\
  (wf_fs t = true -> wf_fs (prune_pat pats t) = true).
Proof. exact prune_pat_spec. Qed.
Print Assumptions C13_prune_pat_spec.

(* The exact condition for "two passes = one physical pruning", for ANY pair
   of answers (pf1 in pass 1, pf2 in pass 2): pf1 looks at the path only, and
   pf2 accepts every directory whose path pf1 accepts.  In particular the
   second pass is then the identity (C13_pattern_pass2_noop). *)
Theorem C13_pattern_two_pass : forall ord pf1 pf2 (keep : list bytes -> bool) limit t,
  (forall p ks, Permutation (ord p ks) ks) ->
  (forall p e, pf1 p e = keep p) -> (forall p e, keep p = true -> pf2 p (Some e) = true) ->
  from_disk_pat ord pf1 pf2 limit t = from_disk ord FAll limit (prune_path keep [] t).
Proof. exact two_pass_is_prune. Qed.
Print Assumptions C13_pattern_two_pass.

Theorem C13_pattern_pass2_noop : forall ord pf1 pf2 limit,
  (forall p ks, Permutation (ord p ks) ks) ->
  (forall p e e', pf1 p (Some e) = true -> pf2 p (Some e') = true) ->
  forall t path m, buildp ord pf1 limit path t = FdOk m -> prune2p pf2 path m = m.
Proof. exact pass2_noop. Qed.
Print Assumptions C13_pattern_pass2_noop.

(* REFUTED for the code before commit 270736c: pass 2 showed the filter the
   path relative to the top directory with a leading '/', which
   pattern_filter read as absolute: relative to a root k >= 1 components deep
   that is "../" k times + path, and the pattern ".*" rejects EVERY directory
   (old_pass2_removes_every_directory).  Witness root/{.git/x, src/{a,
   .hidden}, README}: src/ disappears, the read differs from the pruned copy. *)
Theorem C13_pattern_pass2_refuted_old : forall k, (1 <= k)%nat ->
  from_disk_pat id_ord (pat_filter [bs ".*"]) (old_pass2 k [bs ".*"]) None ex_pat_tree
  <> from_disk id_ord FAll None (prune_pat [bs ".*"] ex_pat_tree) /\
  (exists m, from_disk_pat id_ord (pat_filter [bs ".*"]) (old_pass2 k [bs ".*"]) None ex_pat_tree = FdOk m /\
             mt_get [bs "src"] m = None) /\
  (exists m, from_disk id_ord FAll None (prune_pat [bs ".*"] ex_pat_tree) = FdOk m /\
             mt_get [bs "src"; bs "a"] m <> None /\ mt_get [bs "src"; bs ".hidden"] m <> None /\ mt_get [bs ".git"] m = None).
Proof. exact pattern_pass2_refuted_old. Qed.
Print Assumptions C13_pattern_pass2_refuted_old.

Theorem C13_pattern_old_pass2_removes_every_directory : forall k path ks, (1 <= k)%nat ->
  prune2p (old_pass2 k [bs ".*"]) path (MNode ks) = MNode (filter is_leaf_kid ks).
Proof. exact old_pass2_removes_every_directory. Qed.
Print Assumptions C13_pattern_old_pass2_removes_every_directory.

(* The glob matcher (total by construction: a structural boolean function):
   '*' matches every text, '/' included; a pattern without '*', '?', '['
   matches exactly itself; "name*" = the texts starting with name; "*name" =
   the texts ending with name; ".*" = the texts starting with a dot. *)
Theorem C13_glob_facts :
  (forall s, glob_match [STAR] s = true) /\
  (forall p s, Forall literal_byte p -> (glob_match p s = true <-> s = p)) /\
  (forall p s, Forall literal_byte p -> (glob_match (p ++ [STAR]) s = true <-> exists s', s = p ++ s')) /\
  (forall p s, Forall literal_byte p -> (glob_match (STAR :: p) s = true <-> exists s', s = s' ++ p)) /\
  (forall s, glob_match (bs ".*") s = true <-> exists s', s = 46 :: s').
Proof. exact glob_facts. Qed.
Print Assumptions C13_glob_facts.

(* Non-vacuity: bracket expressions, '?', '*' across '/', patterns hitting
   files only, everything, nothing; a filtered read under a non-identity
   listing oracle and a limit. *)
Theorem C13_pattern_satisfiable :
  wf_fs ex_pat_tree = true /\
  prune_pat [bs ".*"] ex_pat_tree = FDir [ (bs "src", FDir [ (bs "a", Reg (bs "int main;") 420); (bs ".hidden", Reg (bs "h") 420) ]);
                                          (bs "README", Reg (bs "hello") 420) ] /\
  prune_pat [bs "src/a"; bs "READ??"] ex_pat_tree
    = FDir [ (bs ".git", FDir [ (bs "x", Reg (bs "ref") 420) ]); (bs "src", FDir [ (bs ".hidden", Reg (bs "h") 420) ]) ] /\
  prune_pat [bs "*"] ex_pat_tree = FDir [] /\
  (exists m, from_disk_pat rev_ord (pat_filter [bs "*/a"; bs "[!.]*E"]) (pat_filter [bs "*/a"; bs "[!.]*E"]) (Some 3) ex_pat_tree = FdOk m /\
             mt_id sha1 m = node_id sha1 (prune_pat [bs "*/a"; bs "[!.]*E"] ex_pat_tree) /\
             mt_get [bs "src"; bs ".hidden"] m <> None /\ mt_get [bs "src"; bs "a"] m = None /\ mt_get [bs "README"] m = None).
Proof. exact ex_pat_ok. Qed.
Print Assumptions C13_pattern_satisfiable.

(* Degenerate filter arguments: an EMPTY pattern list excludes nothing - the
   read is the plain read; the pattern list is a set (order and duplicates are
   irrelevant: the code keeps a set of compiled patterns); the empty pattern
   matches the empty relative path only, i.e. nothing below the root. *)
Theorem C13_pattern_empty_list : forall t,
  prune_pat [] t = t /\
  (forall ord limit, (forall p ks, Permutation (ord p ks) ks) ->
     from_disk_pat ord (pat_filter []) (pat_filter []) limit t = from_disk ord FAll limit t) /\
  (forall pats pats', (forall p, In p pats <-> In p pats') -> prune_pat pats t = prune_pat pats' t) /\
  (forall s, glob_match [] s = true <-> s = []).
Proof. exact pattern_empty_list. Qed.
Print Assumptions C13_pattern_empty_list.
