(* C16 - Timestamps and UTC offsets convert exactly in every direction.
   Property theorems only: each is closed by `exact` of a lemma proved in
   proofs/TimeProofs.v, with Print Assumptions beneath it.

   Model: model/Time.v.  An aware datetime is (epoch_us, off_s): the instant
   in microseconds since the epoch and utcoffset() in seconds; [dt_valid] says
   |off_s| < 24h and the local wall clock lies in datetime.min..datetime.max.
   TS_MIN_SECONDS .. TS_MAX_MICROSECONDS come from Generated.v (read from the
   source on every run). *)
From Coq Require Import List NArith ZArith Bool.
From SWH.lib Require Import Bytes Dec DecPad.
From SWH Require Import Generated.
From SWH.model Require Import Time.
From SWH.proofs Require Import TimeProofs.
From SWH.proofs Require TimeExamples.
Import ListNotations.
Open Scope Z_scope.

(* Side conditions on the bounds read from the source, under which the
   theorems below are proved: accepted seconds fit in datetime's range, the
   microsecond bounds are [0, 999999].  Re-checked on the generated values. *)
Theorem C16_table_side_conditions : ts_tables_ok = true.
Proof. exact table_side_conditions. Qed.
Print Assumptions C16_table_side_conditions.

(* Every valid aware datetime with a whole-minute offset m (|m| < 1440 follows
   from validity) whose instant has its seconds in the accepted range:
   from_datetime succeeds; seconds are the FLOOR of the epoch time (also below
   the epoch: MILLION*s <= e < MILLION*(s+1)), microseconds are kept
   (e = MILLION*s + us); the recorded offset reads back as m; "-0000" is never
   produced; and to_datetime gives back the same instant with the same offset. *)
Theorem C16_datetime_roundtrip : forall e m,
  let d := mkDt e (m * 60) in
  dt_valid d = true -> secs_in_range (e / MILLION) ->
  exists x, from_datetime d = Ok x /\
    seconds (ts x) = e / MILLION /\ microseconds (ts x) = e mod MILLION /\
    MILLION * seconds (ts x) <= e < MILLION * (seconds (ts x) + 1) /\
    0 <= microseconds (ts x) < MILLION /\
    e = MILLION * seconds (ts x) + microseconds (ts x) /\
    offset_minutes x = Ok m /\
    offset_bytes x <> OB_MINUS0000 /\
    to_datetime x = Ok d.
Proof. exact datetime_roundtrip. Qed.
Print Assumptions C16_datetime_roundtrip.

(* Offsets that are not whole minutes (named zones before standard time): the
   instant is still kept exactly; the offset is floored to minutes. *)
Theorem C16_datetime_instant_kept : forall e o,
  let d := mkDt e o in
  dt_valid d = true -> secs_in_range (e / MILLION) ->
  exists x, from_datetime d = Ok x /\
    seconds (ts x) = e / MILLION /\ microseconds (ts x) = e mod MILLION /\
    offset_minutes x = Ok (o / 60) /\
    forall d', to_datetime x = Ok d' -> epoch_us d' = e /\ (-1440 < o / 60 -> off_s d' = o / 60 * 60).
Proof. exact datetime_instant_kept. Qed.
Print Assumptions C16_datetime_instant_kept.

(* Every offset in the 16-bit range, every flag with  flag -> offset <= 0 :
   from_numeric_offset succeeds, keeps the timestamp, the recorded bytes are
   [+-] followed by at least four digits, read back (offset_minutes) as the
   same number, and are "-0000" iff offset = 0 and the flag is set.
   General proof by arithmetic on div/mod and the decimal lemmas. *)
Theorem C16_offset_roundtrip : forall t off neg, -32768 <= off <= 32767 -> (neg = true -> off <= 0) ->
  exists x, from_numeric_offset t off neg = Ok x /\ ts x = t /\
    offset_minutes x = Ok off /\
    (exists sgn digits, offset_bytes x = sgn :: digits /\ (sgn = PLUS \/ sgn = MINUS) /\
        forallb is_digit digits = true /\ (4 <= length digits)%nat) /\
    (offset_bytes x = OB_MINUS0000 <-> off = 0 /\ neg = true).
Proof. exact offset_roundtrip. Qed.
Print Assumptions C16_offset_roundtrip.

(* The same facts, and the assert branch, re-checked by the kernel on all
   2 x 65536 points (forallb ... = true by vm_compute, lifted with
   forallb_forall); the bound is in the statement. *)
Theorem C16_offset_roundtrip_sweep : forall t off neg, -32768 <= off <= 32767 ->
  (neg = true /\ 0 < off -> from_numeric_offset t off neg = Err EAssertion) /\
  (~ (neg = true /\ 0 < off) ->
     exists x, from_numeric_offset t off neg = Ok x /\ ts x = t /\ offset_minutes x = Ok off /\
       (offset_bytes x = OB_MINUS0000 <-> off = 0 /\ neg = true) /\
       offset_modelled (offset_bytes x) = true /\ (5 <= length (offset_bytes x))%nat).
Proof. exact offset_roundtrip_sweep. Qed.
Print Assumptions C16_offset_roundtrip_sweep.

(* negative_utc=True with a positive offset: the code's assert fires. *)
Theorem C16_neg_flag_rejected : forall t off, 0 < off <= 32767 ->
  from_numeric_offset t off true = Err EAssertion.
Proof. exact neg_flag_rejected. Qed.
Print Assumptions C16_neg_flag_rejected.

(* "-0000" is produced only for negative UTC - for every integer offset for
   which from_numeric_offset succeeds at all. *)
Theorem C16_minus_zero_iff : forall t off neg x, from_numeric_offset t off neg = Ok x ->
  (offset_bytes x = OB_MINUS0000 <-> off = 0 /\ neg = true).
Proof. exact minus_zero_iff. Qed.
Print Assumptions C16_minus_zero_iff.

(* Recorded offset bytes are kept verbatim, whatever they are and whatever
   else the dict carries (legacy "offset" / "negative_utc" included), in the
   object and in the date part of commit/tag manifests (format_author_data). *)
Theorem C16_offset_verbatim : forall t ob offset neg x,
  from_dict (TRDict t (Some (Some ob)) offset neg) = Ok x ->
  offset_bytes x = ob /\ timestamp_of_repr t = Ok (ts x) /\
  author_date_part x = [SP] ++ format_date (ts x) ++ [SP] ++ ob.
Proof. exact offset_verbatim. Qed.
Print Assumptions C16_offset_verbatim.

(* Dicts of the transitional serialisation carry BOTH forms.  The recorded
   bytes win: the outcome is the same as without the legacy keys; it succeeds
   whenever the timestamp is acceptable (no assert on a disagreeing number);
   the bytes are kept even when they are not the +HHMM spelling the number
   would get (ob versus offset_to_bytes off neg); the numeric form goes
   through the +HHMM/-HHMM rule only when no bytes are recorded. *)
Theorem C16_recorded_bytes_win :
  (forall t ob offset neg,
     from_dict (TRDict t (Some (Some ob)) offset neg) = from_dict (TRDict t (Some (Some ob)) None None)) /\
  (forall t ob offset neg t', timestamp_of_repr t = Ok t' ->
     from_dict (TRDict t (Some (Some ob)) offset neg) = Ok (mkTstz t' ob)) /\
  (forall t ob off neg x y,
     from_dict (TRDict t (Some (Some ob)) (Some (Some off)) neg) = Ok x ->
     from_dict (TRDict t None (Some (Some off)) neg) = Ok y ->
     offset_bytes x = ob /\ offset_bytes y = offset_to_bytes off (match neg with Some b => b | None => false end) /\
     ts x = ts y) /\
  (forall t off neg,
     from_dict (TRDict t None (Some (Some off)) neg) =
     bind (timestamp_of_repr t) (fun t' => from_numeric_offset t' off (match neg with Some b => b | None => false end))).
Proof. exact recorded_bytes_win. Qed.
Print Assumptions C16_recorded_bytes_win.

(* The date text: for every seconds value and 0 <= us < 10^6 an independent
   decoder reads (s, us) back; the text is the decimal of s when us = 0, else
   the decimal of s, ".", and the 6-digit zero-padded us with trailing zeros -
   and only zeros - removed (frac ++ zeros = the six digits, frac does not end
   in 0, is not empty); the text never ends with ".". *)
Theorem C16_format_date_exact : forall s us, 0 <= us < 1000000 ->
  let txt := format_date (mkTs s us) in
  parse_date txt = Some (s, us) /\
  (us = 0 -> txt = dec_Z s) /\
  (us <> 0 -> exists frac,
      txt = dec_Z s ++ [DOT] ++ frac /\ frac <> [] /\ forallb is_digit frac = true /\
      last frac 0%N <> ZERO /\
      length (dec_pad 6 (Z.to_N us)) = 6%nat /\
      exists k, frac ++ repeat ZERO k = dec_pad 6 (Z.to_N us)) /\
  last txt 0%N <> DOT.
Proof. exact format_date_exact. Qed.
Print Assumptions C16_format_date_exact.

(* Seconds / microseconds outside the accepted interval, and values that are
   not ints (bool included), are rejected with the documented classes; in-range
   ints are accepted unchanged; no entry point of from_dict yields an
   out-of-range timestamp. *)
Theorem C16_range_rejected :
  (forall s us, secs_in_range s -> us_in_range us -> mk_timestamp (VInt s) (VInt us) = Ok (mkTs s us)) /\
  (forall s us, ~ secs_in_range s -> mk_timestamp (VInt s) us = Err ETimestampOverflow) /\
  (forall s us, secs_in_range s -> ~ us_in_range us -> mk_timestamp (VInt s) (VInt us) = Err EValue) /\
  (forall s us, (forall z, s <> VInt z) -> mk_timestamp s us = Err EAttributeType) /\
  (forall s us, secs_in_range s -> (forall z, us <> VInt z) -> mk_timestamp (VInt s) us = Err EAttributeType) /\
  (forall s us t, mk_timestamp s us = Ok t ->
     exists zs zu, s = VInt zs /\ us = VInt zu /\ secs_in_range zs /\ us_in_range zu /\ t = mkTs zs zu) /\
  (forall r x, from_dict r = Ok x -> secs_in_range (seconds (ts x)) /\ us_in_range (microseconds (ts x))) /\
  (forall z, us_in_range z <-> 0 <= z < 1000000).
Proof. exact range_rejected. Qed.
Print Assumptions C16_range_rejected.

(* ISO-8601 strings: after the parser (an oracle), a UTC datetime whose zone
   is named "-00:00" is recorded as "-0000", any other UTC one as "+0000";
   seconds and microseconds as in the datetime theorem. *)
Theorem C16_iso8601_minus_zero : forall e flag,
  let d := mkDt e 0 in
  dt_valid d = true -> secs_in_range (e / MILLION) ->
  exists x, from_iso8601_parsed d flag = Ok x /\
    seconds (ts x) = e / MILLION /\ microseconds (ts x) = e mod MILLION /\
    offset_minutes x = Ok 0 /\
    (offset_bytes x = OB_MINUS0000 <-> flag = true) /\
    (flag = false -> offset_bytes x = OB_PLUS0000).
Proof. exact iso8601_minus_zero. Qed.
Print Assumptions C16_iso8601_minus_zero.

(* Non-vacuity: concrete non-trivial inputs meet the hypotheses. *)
Theorem C16_satisfiable :
  (let e := -1500000 in let m := 330 in
   dt_valid (mkDt e (m * 60)) = true /\ secs_in_range (e / MILLION) /\
   from_datetime (mkDt e (m * 60)) = Ok (mkTstz (mkTs (-2) 500000) [43; 48; 53; 51; 48]%N)) /\
  (-32768 <= -32768 <= 32767 /\ from_numeric_offset (mkTs 0 0) (-32768) true = Ok (mkTstz (mkTs 0 0) [45; 53; 52; 54; 48; 56]%N)) /\
  from_numeric_offset (mkTs 0 0) 0 true = Ok (mkTstz (mkTs 0 0) OB_MINUS0000) /\
  format_date (mkTs (-5) 120000) = [45; 53; 46; 49; 50]%N /\
  secs_in_range TS_MIN_SECONDS /\ secs_in_range TS_MAX_SECONDS /\
  ~ secs_in_range (TS_MIN_SECONDS - 1) /\ ~ secs_in_range (TS_MAX_SECONDS + 1).
Proof. exact satisfiable. Qed.
Print Assumptions C16_satisfiable.
