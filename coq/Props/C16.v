(* placeholder, replaced below *)
From SWH.model Require Import Time.
