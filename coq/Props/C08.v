(* C08 - SWHID text round trip.  Property theorems only: each is closed by
   `exact` of a lemma of proofs/SwhidProofs.v / SwhidLangProofs.v, with
   Print Assumptions beneath it.

   Model: coq/model/Swhid.v (print_core / print_q = __str__, parse_* =
   from_string, over lib/Utf8.v and lib/Percent.v).  [lim] is the
   interpreter's int<->str digit limit (sys.get_int_max_str_digits(); 0 = no
   limit); every theorem holds for every value of it. *)
From Coq Require Import List NArith ZArith.
From SWH.lib Require Import Bytes Dec Hex Utf8 Percent.
From SWH Require Import Generated.
From SWH.model Require Import Swhid.
From SWH.proofs Require Import SwhidTables SwhidLib PercentProofs SwhidProofs SwhidLangProofs SwhidShapeProofs SwhidProps.
From SWH.proofs Require SwhidExamples.
Import ListNotations.
Open Scope N_scope.

(* Every core SWHID value (type among SWHID_TYPES, 20 bytes) is returned by
   parsing its text. *)
Theorem C08_core_roundtrip : forall c : core,
  In (c_ty c) SWHID_TYPES -> length (c_oid c) = 20%nat -> wf_bytes (c_oid c) = true ->
  parse_core (print_core c) = Ok c.
Proof. exact P_C08_core_roundtrip. Qed.
Print Assumptions C08_core_roundtrip.

(* The same for extended SWHIDs (types incl. ori, emd). *)
Theorem C08_ext_roundtrip : forall c : core,
  In (c_ty c) EXTENDED_SWHID_TYPES -> length (c_oid c) = 20%nat -> wf_bytes (c_oid c) = true ->
  parse_ext (print_core c) = Ok c.
Proof. exact P_C08_ext_roundtrip. Qed.
Print Assumptions C08_ext_roundtrip.

(* Every qualified SWHID value - any subset of the five qualifiers, ARBITRARY
   origin text (';', '%', '%3B', '=', non-ASCII, lone surrogates and, since
   the printer escapes it, whitespace too), ARBITRARY path bytes, visit a
   snapshot, anchor a dir/rev/rel/snp, line numbers non-negative with at most
   lim digits - can be printed (no exception, the assertion in qualifiers()
   holds) and parsing the text returns the value.  [wf_q] is exactly that
   list of conditions (proofs/SwhidProofs.v). *)
Theorem C08_qualified_roundtrip : forall (lim : N) (v : qualified), wf_q lim v ->
  exists s, print_q lim v = Ok s /\ parse_q lim s = Ok v.
Proof. exact qualified_roundtrip. Qed.
Print Assumptions C08_qualified_roundtrip.

(* The printed text belongs to the documented language (the recogniser lang_q
   written from the BNF, the one C09 is stated against). *)
Theorem C08_grammar : forall (lim : N) (v : qualified), wf_q lim v ->
  exists s, print_q lim v = Ok s /\ lang_q s = true.
Proof. exact printed_in_language. Qed.
Print Assumptions C08_grammar.

(* Shape of the printed text: the core identifier with lower-case hex id, then
   the present qualifiers in the fixed order origin, visit, anchor, path,
   lines; the origin and path texts contain no ';' and no whitespace, and
   every '%' in them starts a two-hex-digit escape. *)
Theorem C08_grammar_shape : forall (lim : N) (v : qualified) (s : text), wf_q lim v -> print_q lim v = Ok s ->
  exists eo ep el,
    s = print_core (core_of v)
        ++ opt_item K_origin eo ++ opt_item K_visit (option_map print_core (q_visit v))
        ++ opt_item K_anchor (option_map print_core (q_anchor v)) ++ opt_item K_path ep ++ opt_item K_lines el /\
    print_core (core_of v) = S_swh1 ++ q_ty v ++ [58] ++ hexlify (q_oid v) /\
    forallb is_lower_hex (hexlify (q_oid v)) = true /\
    (forall t, eo = Some t -> well_escaped t = true /\ exists o, q_origin v = Some o /\ unquote t = o) /\
    (forall t, ep = Some t -> well_escaped t = true /\ exists p, q_path v = Some p /\ unquote_to_bytes t = Some p) /\
    (eo = None <-> q_origin v = None) /\ (ep = None <-> q_path v = None) /\ (el = None <-> q_lines v = None).
Proof. exact printed_shape. Qed.
Print Assumptions C08_grammar_shape.

(* Converting a core SWHID to its extended or qualified form changes neither
   the text nor the id. *)
Theorem C08_conversions : forall c : core, wf_core c ->
  to_extended c = Ok c /\
  exists q, to_qualified c = Ok q /\ q_oid q = c_oid c /\ q_ty q = c_ty c /\
            forall lim, print_q lim q = Ok (print_core c).
Proof. exact conversions. Qed.
Print Assumptions C08_conversions.

(* namespace= / scheme_version= given explicitly to a constructor (None = left
   at the default): the defaults spelled out build exactly what the plain
   constructors build; any other namespace or version never yields a value
   (ValueError of the type converter or ValidationError) - hence every value
   prints with the constants "swh" and 1 that print_core uses. *)
Theorem C08_explicit_namespace_version :
  forall (ns : option text) (ver : option Z) (ty : text) (oid : bytes),
  ((ns = None \/ ns = Some SWHID_NAMESPACE) -> (ver = None \/ ver = Some SWHID_VERSION) ->
     mk_core_nv ns ver ty oid = mk_core ty oid /\ mk_ext_nv ns ver ty oid = mk_ext ty oid /\
     forall origin visit anchor path lines,
       mk_q_nv ns ver ty oid origin visit anchor path lines = mk_q ty oid origin visit anchor path lines) /\
  (forall c, mk_core_nv ns ver ty oid = Ok c \/ mk_ext_nv ns ver ty oid = Ok c ->
     (ns = None \/ ns = Some SWHID_NAMESPACE) /\ (ver = None \/ ver = Some SWHID_VERSION)) /\
  (forall origin visit anchor path lines v, mk_q_nv ns ver ty oid origin visit anchor path lines = Ok v ->
     (ns = None \/ ns = Some SWHID_NAMESPACE) /\ (ver = None \/ ver = Some SWHID_VERSION)) /\
  (nv_bad ns ver = true ->
     (mk_core_nv ns ver ty oid = Err EValue \/ mk_core_nv ns ver ty oid = Err EValidation) /\
     (mk_ext_nv ns ver ty oid = Err EValue \/ mk_ext_nv ns ver ty oid = Err EValidation) /\
     forall origin visit anchor path lines,
       mk_q_nv ns ver ty oid origin visit anchor path lines = Err EValue \/
       mk_q_nv ns ver ty oid origin visit anchor path lines = Err EValidation).
Proof. exact P_C08_explicit_namespace_version. Qed.
Print Assumptions C08_explicit_namespace_version.

(* FIXED in /repo by commit 8fc7b57.  The validators take a bool where an int
   is declared; the printer used str(), so the value with line number 1 held by
   True - a value of the domain (wf_q) - printed ';lines=True', a text outside
   the language that from_string rejects.  The printer of today ("%d": the
   decimal of the value, print_q) writes ';lines=1', which parses back; on
   numbers that are not bools the old printer and today's agree. *)
Theorem C08_bool_print_refuted_old :
  wf_q 4300 bool_line_witness /\
  print_q_str_old 4300 true false bool_line_witness = Ok (zero_id ++ bs ";lines=True") /\
  lang_q (zero_id ++ bs ";lines=True") = false /\
  parse_q 4300 (zero_id ++ bs ";lines=True") = Err EValidation /\
  print_q 4300 bool_line_witness = Ok (zero_id ++ bs ";lines=1") /\
  parse_q 4300 (zero_id ++ bs ";lines=1") = Ok bool_line_witness /\
  print_q_str_old 4300 false false bool_line_witness = print_q 4300 bool_line_witness /\
  print_q_str_old 4300 false false ex_q = print_q 4300 ex_q.
Proof. exact P_C08_bool_print_refuted_old. Qed.
Print Assumptions C08_bool_print_refuted_old.

(* KNOWN FINDING int-max-str-digits: without the digit hypothesis the round
   trip fails - with the limit at 3 digits the value with line number 1000
   cannot be printed (ValueError), with the limit at 4 it round-trips.  On
   the real interpreter: limit 4300, line number 10^4300. *)
Theorem C08_huge_line_refuted :
  In (q_ty huge_line_witness) SWHID_TYPES /\ length (q_oid huge_line_witness) = 20%nat /\
  print_q 3 huge_line_witness = Err EValue /\
  exists s, print_q 4 huge_line_witness = Ok s /\ parse_q 4 s = Ok huge_line_witness.
Proof. exact huge_line_refuted. Qed.
Print Assumptions C08_huge_line_refuted.

(* Side conditions on the tables read from /repo that the proofs use. *)
Theorem C08_tables :
  re_head = S_swh1 /\ EXTENDED_SWHID_TYPES = DOC_EXT_TYPES /\ SWHID_TYPES = DOC_CORE_TYPES /\
  same_set_b (enum_values OBJECT_TYPES) DOC_CORE_TYPES = true /\
  same_set_b (enum_values EXTENDED_OBJECT_TYPES) DOC_EXT_TYPES = true /\
  TY_SNAPSHOT = S_snp /\ ANCHOR_TYPES = DOC_ANCHOR_TYPES /\
  same_set_b SWHID_QUALIFIERS DOC_KEYS = true /\ QUALIFIER_PRINT_ORDER = FIELD_KEYS /\
  SWHID_SEP = [58] /\ SWHID_CTXT_SEP = [59].
Proof. exact P_C08_tables. Qed.
Print Assumptions C08_tables.

(* Non-vacuity: a value with all five qualifiers, an origin with ';' '%' and a
   space, a path with NUL, 0xFF and ';' meets wf_q; Swhid.v's Examples
   print_ex / parse_ex show its text. *)
Theorem C08_satisfiable : wf_q 4300 ex_q /\ wf_core (mkCore S_dir ex_oid) /\ wf_ext (mkCore S_ori ex_oid).
Proof. exact wf_q_satisfiable. Qed.
Print Assumptions C08_satisfiable.
