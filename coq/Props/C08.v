(* C08 - placeholder while the proofs are in progress *)
From SWH.model Require Import Swhid.
