(* C18 - The identify command prints what the library computes, for every
   option mix.  Property theorems only: each is closed by `exact` of a lemma
   proved in proofs/CliProofs.v, with Print Assumptions beneath it.

   The domain is the finite configuration space of model/Cli.v: argument kind
   (11: the seven of the statement plus four kinds of argument that cannot be
   identified (as such) - no scheme and no such path; urlparse raises; a URL the library
   refuses; a git repository whose references cannot be read -) x --type (5) x dereference x filename x recursive x verify (none /
   matching / non-matching) x exclude = 2640 configurations.  [identify_model]
   transcribes the control flow of identify + identify_object over the tabulated
   answers of the operating system; [spec] is the property. *)
From Coq Require Import List Bool.
From SWH.model Require Import Cli.
From SWH.proofs Require Import CliProofs.
Import ListNotations.

(* Every configuration is in the enumerated list the sweeps run over. *)
Theorem C18_all_cfgs_complete : forall c : cfg, In c all_cfgs.
Proof. exact all_cfgs_complete. Qed.
Print Assumptions C18_all_cfgs_complete.

(* ... which has exactly 2640 pairwise distinct elements. *)
Theorem C18_all_cfgs_count : length all_cfgs = 2640 /\ NoDup all_cfgs.
Proof. exact all_cfgs_count. Qed.
Print Assumptions C18_all_cfgs_count.

(* For every in-scope configuration the command does what the property says:
   it prints the SWHID the library computes for the designated object (the
   link itself or its target as requested; the exclusion applied to
   directories; the name shown or not; one line per node in recursive mode),
   or a usage error for a documented unsupported combination (verification of
   a recursive listing; recursive listing with a non-directory type;
   verification against an identifier that is not a core SWHID), or the
   verification exit code.  In scope = --type auto or the type of the
   designated object (model/Cli.v, [in_scope]): 1056 configurations. *)
Theorem C18_agree : forall c, in_scope c = true -> identify_model c = spec c.
Proof. exact agree. Qed.
Print Assumptions C18_agree.

(* The scope contains every configuration of the literal quantifier ("type
   automatic or matching the argument") except -t directory --no-dereference
   on a link to a directory, where the type contradicts the designated object. *)
Theorem C18_scope_covers_literal : forall c, in_scope_literal c = true ->
  in_scope c = true \/ (arg c = ALinkDir /\ ty c = TDirectory /\ deref c = false).
Proof. exact scope_covers_literal. Qed.
Print Assumptions C18_scope_covers_literal.

(* It never ends in an unhandled exception. *)
Theorem C18_no_crash : forall c, in_scope c = true -> forall cr, identify_model c <> Crash cr.
Proof. exact no_crash. Qed.
Print Assumptions C18_no_crash.

(* Verification exits 0 exactly when the given SWHID is the one of the
   designated object, 1 when it is another one, and is a usage error exactly
   for the documented unsupported combinations (recursive listing; an origin
   identifier, which is not a core SWHID). *)
Theorem C18_verify_exit : forall c, in_scope c = true ->
  (identify_model c = Exit0 -> ver c = VMatch) /\
  (identify_model c = Exit1 -> ver c = VNonMatch) /\
  (ver c = VMatch -> verify_supported c = true -> identify_model c = Exit0) /\
  (ver c = VNonMatch -> verify_supported c = true -> identify_model c = Exit1) /\
  (ver c <> VNone -> verify_supported c = false -> identify_model c = Usage).
Proof. exact verify_exit. Qed.
Print Assumptions C18_verify_exit.

(* What a successful run prints: the designated object, the exclusion applied
   only to directories and only when asked, the name shown as asked, a listing
   exactly when recursion is effective (and then of a directory). *)
Theorem C18_print_designated : forall c o ex sh ls, in_scope c = true ->
  identify_model c = Print o ex sh ls ->
  (o, ex) = designated c /\ sh = fname c /\ ls = rec_effective c /\
  (ls = true -> is_dir_obj o = true) /\ (ex = true -> is_dir_obj o = true /\ excl c = true).
Proof. exact print_designated. Qed.
Print Assumptions C18_print_designated.

(* The six behaviours repaired in /repo, as refutations of the old code
   (the old code is the model with one switch of [variant] turned on).
   (1) `swh identify <link->dir>`: realpath(obj) is a str -> TypeError. *)
Theorem C18_agree_refuted_old_realpath : exists c, in_scope c = true /\
  nondefault c = 0 /\ identify_old_realpath c = Crash CrTypeError /\
  spec c = Print ODirAtLinkTarget false true false /\ identify_model c = spec c.
Proof. exact agree_refuted_old_realpath. Qed.
Print Assumptions C18_agree_refuted_old_realpath.

(* (2) `swh identify -r -t directory <dir>`: ("auto" or "directory") is "auto" -> usage error. *)
Theorem C18_agree_refuted_old_rectype : exists c, in_scope c = true /\
  identify_old_rectype c = Usage /\
  spec c = Print ODirAtPath false true true /\ identify_model c = spec c.
Proof. exact agree_refuted_old_rectype. Qed.
Print Assumptions C18_agree_refuted_old_rectype.

(* (3) `swh identify --no-dereference <link->dir>`: auto-detection follows the link. *)
Theorem C18_agree_refuted_old_autolink : exists c, in_scope c = true /\
  identify_old_autolink c = Print ODirAtLinkTarget false true false /\
  spec c = Print OLinkText false true false /\ identify_model c = spec c.
Proof. exact agree_refuted_old_autolink. Qed.
Print Assumptions C18_agree_refuted_old_autolink.

(* (4) `swh identify -r --no-dereference <link->dir>`: the test that disables
   -r followed the link, the directory behind it was listed. *)
Theorem C18_agree_refuted_old_recursive_follows : exists c, in_scope c = true /\ in_scope_literal c = true /\
  identify_old_recfollows c = Print ODirAtLinkTarget false true true /\
  spec c = Print OLinkText false true false /\ identify_model c = spec c.
Proof. exact agree_refuted_old_recfollows. Qed.
Print Assumptions C18_agree_refuted_old_recursive_follows.

(* (5) `swh identify [-t origin] <URL of 2048 bytes or more, or not valid
   UTF-8>`: the ValueError of model.Origin was not caught -> traceback. *)
Theorem C18_agree_refuted_old_origin_uncaught : exists c, in_scope c = true /\ in_scope_literal c = true /\
  nondefault c = 0 /\ identify_old_originuncaught c = Crash CrValueError /\
  spec c = Usage /\ identify_model c = spec c.
Proof. exact agree_refuted_old_originuncaught. Qed.
Print Assumptions C18_agree_refuted_old_origin_uncaught.

(* (6) `swh identify -t snapshot <repository whose packed-refs file is empty>`:
   dulwich raises StopIteration while reading the references; zip/map took it
   for the end of the results: nothing printed, exit code 0. *)
Theorem C18_agree_refuted_old_stop_swallowed : exists c, in_scope c = true /\ in_scope_literal c = true /\
  identify_old_stopswallowed c = Silent /\ spec c = Usage /\ identify_model c = spec c.
Proof. exact agree_refuted_old_stopswallowed. Qed.
Print Assumptions C18_agree_refuted_old_stop_swallowed.

(* ... and with several arguments the run stopped WITHOUT an error, dropping
   that argument and every following one (one line, exit 0); the code of today
   ends with the usage error after the line already printed. *)
Theorem C18_many_refuted_old_stop_swallowed :
  let c := mkCfg AFile TSnapshot true true false VNone false in
  let ks := [AGitRepo; ABadRefsRepo; AGitRepo] in
  in_scope_many c ks = true /\
  identify_many_gen old_stopswallowed c ks = MOut [(OSnapshot, false, true, false)] MDone /\
  identify_many c ks = MOut [(OSnapshot, false, true, false)] MUsageEnd /\
  spec_many c ks = identify_many c ks.
Proof. exact many_refuted_old_stopswallowed. Qed.
Print Assumptions C18_many_refuted_old_stop_swallowed.

(* Each old behaviour broke exactly its class of in-scope configurations
   (24, 28, 16, 24, 96 and 24 of the 1056). *)
Theorem C18_old_deviations_exact : forall c, in_scope c = true ->
  (identify_old_realpath c <> spec c <-> old_realpath_class c = true) /\
  (identify_old_rectype c <> spec c <-> old_rectype_class c = true) /\
  (identify_old_autolink c <> spec c <-> old_autolink_class c = true) /\
  (identify_old_recfollows c <> spec c <-> old_recfollows_class c = true) /\
  (identify_old_originuncaught c <> spec c <-> old_originuncaught_class c = true) /\
  (identify_old_stopswallowed c <> spec c <-> old_stopswallowed_class c = true).
Proof. exact old_deviations_exact. Qed.
Print Assumptions C18_old_deviations_exact.

(* The stricter reading (-r refused with --verify or a non-directory type
   whatever the argument; origin identifiers verifiable) differs from the
   adopted one exactly on [strict_class]; the code follows the adopted one. *)
Theorem C18_strict_reading_differs : forall c, in_scope c = true ->
  (spec_strict c <> spec c <-> strict_class c = true).
Proof. exact strict_reading_differs. Qed.
Print Assumptions C18_strict_reading_differs.

(* Non-vacuity: in-scope configurations with >= 3 non-default
   options exist for the listing and the verification case; sizes of the scopes. *)
Theorem C18_in_scope_satisfiable :
  (exists c, in_scope c = true /\ nondefault c >= 3 /\
             identify_model c = Print ODirAtLinkTarget true false true /\ spec c = identify_model c) /\
  (exists c, in_scope c = true /\ nondefault c >= 3 /\
             identify_model c = Exit0 /\ spec c = Exit0) /\
  length (filter in_scope all_cfgs) = 1056 /\
  length (filter in_scope_literal all_cfgs) = 960.
Proof. exact in_scope_satisfiable. Qed.
Print Assumptions C18_in_scope_satisfiable.

(* ---- several OBJECTS in one invocation (any number of arguments) ---- *)

(* With one argument, the run of the several-arguments model is the outcome of
   the one-argument table - for every configuration, in scope or not. *)
Theorem C18_many_single : forall c k, identify_many c [k] = embed (identify_model (with_arg c k)).
Proof. exact many_single. Qed.
Print Assumptions C18_many_single.

(* For every list of arguments, of any length and any mix of kinds, each in
   scope under the shared options: one invocation prints, in the order of the
   arguments, exactly the line each argument gets when it is given alone (the
   type, dereference, filename and exclusion options reach every argument
   alike); --verify with several arguments is the documented usage error. *)
Theorem C18_many_agree : forall c ks, in_scope_many c ks = true -> identify_many c ks = spec_many c ks.
Proof. exact many_agree. Qed.
Print Assumptions C18_many_agree.

(* Out of scope, recorded: --recursive with several arguments lists the first
   one only and ignores the others without a word. *)
Theorem C18_many_recursive_first_only :
  let c := mkCfg ADir TAuto true true true VNone false in
  identify_many c [ADir; ADir] = MOut [(ODirAtPath, false, true, true)] MDone /\
  spec_many c [ADir; ADir] = MOut [(ODirAtPath, false, true, true); (ODirAtPath, false, true, true)] MDone /\
  in_scope_many c [ADir; ADir] = false.
Proof. exact many_recursive_first_only. Qed.
Print Assumptions C18_many_recursive_first_only.

(* An argument that cannot be identified (no such path and no scheme, or a
   malformed URL on which urlparse raises) ends the run with a usage error,
   after the lines of the arguments before it. *)
Theorem C18_many_usage_after_lines :
  let c := mkCfg AFile TAuto true true false VNone false in
  in_scope_many c [AFile; ABadUrl; ADir] = true /\
  identify_many c [AFile; ABadUrl; ADir] = MOut [(OPathContent, false, true, false)] MUsageEnd /\
  identify_many c [AMissing; AFile] = MOut [] MUsageEnd.
Proof. exact many_usage_after_lines. Qed.
Print Assumptions C18_many_usage_after_lines.

(* Non-vacuity of C18_many_agree: seven arguments of mixed kinds with --exclude. *)
Theorem C18_many_satisfiable :
  let c := mkCfg AFile TAuto false true false VNone true in
  let ks := [ADir; ADir; ALinkDir; AFile; AStdin; AUrl; AGitRepo] in
  in_scope_many c ks = true /\
  identify_many c ks = MOut [(ODirAtPath, true, true, false); (ODirAtPath, true, true, false);
                             (OLinkText, false, true, false); (OPathContent, false, true, false);
                             (OStdin, false, true, false); (OOrigin, false, true, false);
                             (ODirAtPath, true, true, false)] MDone.
Proof. exact many_satisfiable. Qed.
Print Assumptions C18_many_satisfiable.
