(* C19 - Repairing duplicated directory entries always succeeds and keeps the id
   (model.Directory.from_possibly_duplicated_entries).  Property theorems only:
   each is closed by `exact` of a lemma of proofs/DedupProofs.v.

   Vocabulary (model/Dedup.v, proofs/DedupProofs.v):
     repair H es id raw   the model of from_possibly_duplicated_entries(entries=es, id=id, raw_manifest=raw)
                          for the hash function H; RepOk flag d | RepValueError | RepOutOfFuel
     no_slash es          the input domain: no entry name contains '/' (DirectoryEntry rejects such names)
     Repeated es          two entries at different positions carry the same name
     renamed e e'         e' has e's type, target and permissions, and e's name or
                          <name>_<first 10 hex digits of the target>[_<attempt>]   (candidate (base_name e) k)
     precedence / rank    the order ("rev","dir","file") regenerated from the source; rank = position in it
     check H d            d.check() does not raise
   All theorems hold for EVERY hash function H (SHA-1 is not interpreted). *)
From Coq Require Import List NArith Permutation.
From SWH.lib Require Import Bytes Hex.
From SWH.model Require Import Dir Dedup.
From SWH.proofs Require Import DirProofs DedupProofs.
From SWH.proofs Require DedupExamples.
Import ListNotations.

(* Side condition on the table read from the source: the precedence order lists
   each of the three entry types exactly once (the code asserts the set
   equality; a type listed twice would emit its entries twice). *)
Theorem C19_precedence_table : NoDup precedence /\ forall t, In t precedence.
Proof. exact precedence_table. Qed.
Print Assumptions C19_precedence_table.

(* ... and it is the documented order: "rev" first (renaming one breaks git
   submodules), then "dir", then "file".  Everything below is proved from
   C19_precedence_table alone; this theorem pins "most important kind" to the
   documented meaning (only C19_satisfiable's expected output depends on it). *)
Theorem C19_precedence_order : precedence = [ERev; EDir; EFile].
Proof. exact precedence_order. Qed.
Print Assumptions C19_precedence_order.

(* The flag is true exactly when some name occurs twice. *)
Theorem C19_flag : forall (H : bytes -> bytes) es id raw f d,
  no_slash es -> repair H es id raw = RepOk f d -> (f = true <-> Repeated es).
Proof. exact repair_flag. Qed.
Print Assumptions C19_flag.

(* Without a repeated name the result is the ordinary directory: same entries in
   the same order, the given id (or the ordinary computed one), and NO raw
   manifest added. *)
Theorem C19_unchanged : forall (H : bytes -> bytes) es id raw,
  no_slash es -> ~ Repeated es ->
  repair H es id raw =
  RepOk false {| o_entries := es;
                 o_id := match id with [] => compute_hash H es raw | _ => id end;
                 o_raw := raw |}.
Proof. exact repair_unchanged. Qed.
Print Assumptions C19_unchanged.

(* For ALL entry sequences (any multiplicities, equal triples, names equal to
   another entry's would-be replacement name), any id and any raw manifest: the
   repair returns a directory - the final constructor never raises ValueError
   and the search for a free name never runs out of fuel. *)
Theorem C19_succeeds : forall (H : bytes -> bytes) es id raw,
  no_slash es -> exists f d, repair H es id raw = RepOk f d.
Proof. exact repair_succeeds. Qed.
Print Assumptions C19_succeeds.

(* Entry names are pairwise distinct afterwards (and still free of '/'). *)
Theorem C19_unique : forall (H : bytes -> bytes) es id raw f d,
  repair H es id raw = RepOk f d ->
  NoDup (map e_name (o_entries d)) /\ no_slash (o_entries d).
Proof. exact repair_unique. Qed.
Print Assumptions C19_unique.

(* Every original entry is still present with its type, target and permissions,
   at most renamed by appending a suffix: the result is, entry by entry, a
   renaming of a permutation of the input; in particular the multiset of
   (type, target, perms) is unchanged. *)
Theorem C19_preserved : forall (H : bytes -> bytes) es id raw f d,
  no_slash es -> repair H es id raw = RepOk f d ->
  (exists es0, Permutation es0 es /\ Forall2 renamed es0 (o_entries d)) /\
  Permutation (map payload (o_entries d)) (map payload es).
Proof. exact repair_preserved. Qed.
Print Assumptions C19_preserved.

(* For each name of the input, an ORIGINAL entry of that name is in the result
   unchanged, and its type is the most important one present under that name. *)
Theorem C19_winner : forall (H : bytes -> bytes) es id raw f d,
  no_slash es -> repair H es id raw = RepOk f d ->
  forall n, In n (map e_name es) ->
  exists w, In w es /\ e_name w = n /\ In w (o_entries d) /\
            forall e2, In e2 es -> e_name e2 = n -> (rank (e_type w) <= rank (e_type e2))%nat.
Proof. exact repair_winner. Qed.
Print Assumptions C19_winner.

(* With no id and no raw manifest given and a repeated name: the raw manifest is
   the manifest of the ORIGINAL, unrepaired list byte for byte (C02's
   dir_manifest: stable sort, equal keys keep the input order) and the id is its
   hash. *)
Theorem C19_id : forall (H : bytes -> bytes) es f d,
  no_slash es -> Repeated es -> repair H es [] None = RepOk f d ->
  f = true /\ o_raw d = Some (dir_manifest es) /\ o_id d = H (dir_manifest es).
Proof. exact repair_id. Qed.
Print Assumptions C19_id.

(* The repaired entries have ANOTHER manifest than the original ones (names
   NUL-free, targets 20 bytes: the domain of C02's decoder): the original
   manifest lists a name twice, the repaired one lists every name once. *)
Theorem C19_manifests_differ : forall (H : bytes -> bytes) es id raw f d,
  no_slash es -> Decodable es -> Repeated es ->
  repair H es id raw = RepOk f d -> dir_manifest (o_entries d) <> dir_manifest es.
Proof. exact repair_manifests_differ. Qed.
Print Assumptions C19_manifests_differ.

(* The integrity check of the repaired directory passes.  check = validators
   and id = recomputed hash and NOT (raw manifest present and id = hash of the
   manifest of the repaired entries).  The last part needs one fact about the
   hash function, stated as an explicit hypothesis: H does not collide ON THESE
   TWO manifests (which differ, by C19_manifests_differ).  Nothing else is
   assumed about H. *)
Theorem C19_check : forall (H : bytes -> bytes) es f d,
  no_slash es -> Decodable es -> Repeated es ->
  repair H es [] None = RepOk f d ->
  (H (dir_manifest (o_entries d)) = H (dir_manifest es) -> dir_manifest (o_entries d) = dir_manifest es) ->
  check H d = true.
Proof. exact repair_check. Qed.
Print Assumptions C19_check.

(* A given id is kept; a given raw manifest is preserved verbatim; with a raw
   manifest and no id the id is the hash of that raw manifest. *)
Theorem C19_id_kept : forall (H : bytes -> bytes) es id raw f d,
  no_slash es -> repair H es id raw = RepOk f d ->
  (id <> [] -> o_id d = id) /\ (forall m, raw = Some m -> o_raw d = Some m) /\
  (id = [] -> forall m, raw = Some m -> o_id d = H m).
Proof. exact repair_id_kept. Qed.
Print Assumptions C19_id_kept.

(* The code BEFORE the fix (renamed entries get <name>_<10 hex> unconditionally,
   model repair_old) does not satisfy C19_succeeds.  Two 3-entry witnesses:
   three entries named a, two of them with the same target; and an entry whose
   name is the would-be new name of another one. *)
Theorem C19_succeeds_refuted_old : forall (H : bytes -> bytes),
  (no_slash old_witness1 /\ repair_old H old_witness1 [] None = RepValueError) /\
  (no_slash old_witness2 /\ repair_old H old_witness2 [] None = RepValueError) /\
  ~ (forall es id raw, no_slash es -> exists f d, repair_old H es id raw = RepOk f d).
Proof. exact repair_old_refuted. Qed.
Print Assumptions C19_succeeds_refuted_old.

(* ... and what the present code does on them: a, a_0202020202, a_0202020202_1. *)
Theorem C19_new_fixes_old_witnesses : forall (H : bytes -> bytes),
  match repair H old_witness1 [] None with
  | RepOk f d => (f, map e_name (o_entries d)) | _ => (false, [])
  end = (true, [bs "a"; bs "a_0202020202"; bs "a_0202020202_1"]) /\
  match repair H old_witness2 [] None with
  | RepOk f d => (f, map e_name (o_entries d)) | _ => (false, [])
  end = (true, [bs "a"; bs "a_0202020202_1"; bs "a_0202020202"]).
Proof. exact repair_fixes_old_witnesses. Qed.
Print Assumptions C19_new_fixes_old_witnesses.

(* Non-vacuity: file a, dir a, file a (equal triple), file b, rev b meets every
   hypothesis above; dir a and rev b keep their names, the two equal files get
   a_0101010101 and a_0101010101_1, the raw manifest is the original one. *)
Theorem C19_satisfiable : forall (H : bytes -> bytes),
  no_slash ex_dups /\ Decodable ex_dups /\ Repeated ex_dups /\
  match repair H ex_dups [] None with
  | RepOk f d => (f, map e_name (o_entries d), map e_type (o_entries d), o_raw d)
  | _ => (false, [], [], None)
  end = (true, [bs "a"; bs "a_0101010101"; bs "a_0101010101_1"; bs "b"; bs "b_0303030303"],
               [EDir; EFile; EFile; ERev; EFile], Some (dir_manifest ex_dups)).
Proof. exact repair_satisfiable. Qed.
Print Assumptions C19_satisfiable.

(* ---- cross-model consistency C19 x C07 (proofs/CrossModelDedup.v).  [check]
   above is this model's own transcription of Directory.check(); C07
   (model/Ident.v) has the generic one.  A directory object d is viewed as
   the hashable object [hobj_of d] = (kind Directory, attrs manifest =
   dir_manifest of d's entries, raw manifest = d's, id = d's).  The two
   definitions coincide: this model's check is the validators of C02 plus the
   generic check (which, in the code, runs on objects whose validators have
   already passed). *)
From SWH.model Require Ident.
From SWH.proofs Require Import CrossModelDedup.

Theorem C19_check_is_C07_check : forall (H : bytes -> bytes) (d : dirobj),
  check H d = true <-> (valid_dir (o_entries d) = true /\ Ident.check H (hobj_of d) = Ident.Ok tt).
Proof. exact check_is_C07_check. Qed.
Print Assumptions C19_check_is_C07_check.

(* Hence, under exactly the hypotheses of C19_check (H separates the repaired
   manifest from the original one), the repaired directory passes the GENERIC
   integrity check with the preserved raw manifest, and recomputing its hash
   gives the hash of the original manifest. *)
Theorem C19_repaired_passes_C07_check : forall (H : bytes -> bytes) es f d,
  no_slash es -> Decodable es -> Repeated es ->
  repair H es [] None = RepOk f d ->
  (H (dir_manifest (o_entries d)) = H (dir_manifest es) -> dir_manifest (o_entries d) = dir_manifest es) ->
  valid_dir (o_entries d) = true
  /\ Ident.check H (hobj_of d) = Ident.Ok tt
  /\ Ident.h_raw (hobj_of d) = Some (dir_manifest es)
  /\ Ident.h_id (hobj_of d) = H (dir_manifest es)
  /\ Ident.compute_hash H (hobj_of d) = Ident.Ok (H (dir_manifest es)).
Proof. exact repaired_passes_C07_check. Qed.
Print Assumptions C19_repaired_passes_C07_check.

(* The constructor of this model is C07's generic constructor on these objects. *)
Theorem C19_constructor_is_C07s : forall (H : bytes -> bytes) es id raw,
  match mk_directory H es id raw with
  | Some d => valid_dir es = true /\
              Ident.construct H Ident.KDirectory (Some (dir_manifest es)) (Some raw) id = Ident.Ok (hobj_of d)
  | None => valid_dir es = false
  end.
Proof. exact mk_directory_is_C07_construct. Qed.
Print Assumptions C19_constructor_is_C07s.
