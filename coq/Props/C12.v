(* placeholder while the proofs are in progress *)
From SWH.model Require Import Codec.
