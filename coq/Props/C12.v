(* C12 - Dictionary serialisation round-trips every model object without loss.
   Property theorems only: each is closed by `exact` of a lemma proved in
   proofs/Codec*.v, with Print Assumptions beneath it.

   Reading guide.  [pyval] is the universe of Python values, [VObj c fs] an
   object of model class c with attribute list fs.  [wf idf v] says that v is
   (built from) objects as they exist after construction: attribute names of
   the schema, a fixed point of its own constructor (converters applied,
   validators pass, __attrs_post_init__ changes nothing), declared types in
   depth, metadata values plain, get_data = None (DESIGN 7).
   [idf] (object ids), [swhid_str]/[swhid_parse] (SWHID text, property C08) and
   [dateparse] (dateutil) are universally quantified: nothing is assumed of
   idf and dateparse; of the SWHID pair only parse (print x) = x on valid
   SWHIDs and that the printed form is not empty (satisfied by the concrete
   pair, C12_swhid_contract_satisfiable). *)
From Coq Require Import List NArith ZArith Bool.
From SWH.lib Require Import Bytes.
From SWH Require Import Generated.
From SWH.model Require Import Codec.
From SWH.proofs Require Import CodecProofs CodecRoundtrip CodecLegacy CodecConstruct CodecTables.
From SWH.proofs Require CodecExamples.
Import ListNotations.

(* The schema-generic codec.  For EVERY schema with distinct field names in
   which each elided-when-None field defaults to None, every validator and
   post-init hook: decoding the dictionary of an attribute list with
   BaseModel.from_dict (cls( **d)) equals constructing from the attribute
   values themselves, provided each value survives dictify up to its field's
   converter.  On an object (fixed point of the constructor) this is
   from_dict (to_dict o) = o; the six classes without override are instances. *)
Theorem C12_generic_roundtrip : forall swhid_str s val post mk fs,
  wf_schema s -> map fst fs = map fname s ->
  Forall2 (fun f nv => apply_conv (fconv f) (dictify swhid_str (snd nv)) = apply_conv (fconv f) (snd nv)) s fs ->
  construct_g s val post mk (to_dict_g swhid_str s fs) = construct_g s val post mk (as_kwargs fs).
Proof. exact generic_roundtrip. Qed.
Print Assumptions C12_generic_roundtrip.

(* All 18 classes at once: from_dict (to_dict o) returns o itself, and the
   dictionary handed to from_dict is unchanged. *)
Theorem C12_roundtrip_all : forall idf swhid_str swhid_parse dateparse,
  swhid_contract swhid_str swhid_parse ->
  forall c fs, wf idf (VObj c fs) ->
  from_dict idf swhid_str swhid_parse dateparse c (to_dict swhid_str (VObj c fs)) =
  (Ok (VObj c fs), to_dict swhid_str (VObj c fs)).
Proof. exact roundtrip_all_c. Qed.
Print Assumptions C12_roundtrip_all.

(* The per-class statements (instances of the above, kept separate so that a
   change of one override breaks one theorem).  [roundtrip_of c] unfolds to:
   for all idf, SWHID pair under the contract, dateparse and fs,
   wf idf (VObj c fs) -> fst (from_dict c (to_dict (VObj c fs))) = Ok (VObj c fs). *)
Theorem C12_roundtrip_Person : roundtrip_of cPerson. Proof. exact (roundtrip_of_all cPerson). Qed.
Print Assumptions C12_roundtrip_Person.
Theorem C12_roundtrip_Timestamp : roundtrip_of cTimestamp. Proof. exact (roundtrip_of_all cTimestamp). Qed.
Print Assumptions C12_roundtrip_Timestamp.
Theorem C12_roundtrip_TimestampWithTimezone : roundtrip_of cTimestampWithTimezone.
Proof. exact (roundtrip_of_all cTimestampWithTimezone). Qed.
Print Assumptions C12_roundtrip_TimestampWithTimezone.
Theorem C12_roundtrip_Origin : roundtrip_of cOrigin. Proof. exact (roundtrip_of_all cOrigin). Qed.
Print Assumptions C12_roundtrip_Origin.
Theorem C12_roundtrip_OriginVisit : roundtrip_of cOriginVisit. Proof. exact (roundtrip_of_all cOriginVisit). Qed.
Print Assumptions C12_roundtrip_OriginVisit.
Theorem C12_roundtrip_OriginVisitStatus : roundtrip_of cOriginVisitStatus.
Proof. exact (roundtrip_of_all cOriginVisitStatus). Qed.
Print Assumptions C12_roundtrip_OriginVisitStatus.
Theorem C12_roundtrip_SnapshotBranch : roundtrip_of cSnapshotBranch. Proof. exact (roundtrip_of_all cSnapshotBranch). Qed.
Print Assumptions C12_roundtrip_SnapshotBranch.
Theorem C12_roundtrip_Snapshot : roundtrip_of cSnapshot. Proof. exact (roundtrip_of_all cSnapshot). Qed.
Print Assumptions C12_roundtrip_Snapshot.
Theorem C12_roundtrip_Release : roundtrip_of cRelease. Proof. exact (roundtrip_of_all cRelease). Qed.
Print Assumptions C12_roundtrip_Release.
Theorem C12_roundtrip_Revision : roundtrip_of cRevision. Proof. exact (roundtrip_of_all cRevision). Qed.
Print Assumptions C12_roundtrip_Revision.
Theorem C12_roundtrip_DirectoryEntry : roundtrip_of cDirectoryEntry. Proof. exact (roundtrip_of_all cDirectoryEntry). Qed.
Print Assumptions C12_roundtrip_DirectoryEntry.
Theorem C12_roundtrip_Directory : roundtrip_of cDirectory. Proof. exact (roundtrip_of_all cDirectory). Qed.
Print Assumptions C12_roundtrip_Directory.
Theorem C12_roundtrip_Content : roundtrip_of cContent. Proof. exact (roundtrip_of_all cContent). Qed.
Print Assumptions C12_roundtrip_Content.
Theorem C12_roundtrip_SkippedContent : roundtrip_of cSkippedContent. Proof. exact (roundtrip_of_all cSkippedContent). Qed.
Print Assumptions C12_roundtrip_SkippedContent.
Theorem C12_roundtrip_MetadataAuthority : roundtrip_of cMetadataAuthority.
Proof. exact (roundtrip_of_all cMetadataAuthority). Qed.
Print Assumptions C12_roundtrip_MetadataAuthority.
Theorem C12_roundtrip_MetadataFetcher : roundtrip_of cMetadataFetcher. Proof. exact (roundtrip_of_all cMetadataFetcher). Qed.
Print Assumptions C12_roundtrip_MetadataFetcher.
Theorem C12_roundtrip_RawExtrinsicMetadata : roundtrip_of cRawExtrinsicMetadata.
Proof. exact (roundtrip_of_all cRawExtrinsicMetadata). Qed.
Print Assumptions C12_roundtrip_RawExtrinsicMetadata.
Theorem C12_roundtrip_ExtID : roundtrip_of cExtID. Proof. exact (roundtrip_of_all cExtID). Qed.
Print Assumptions C12_roundtrip_ExtID.

(* Same id: the decoded object carries the same id attribute, the id oracle
   answers the same for it, and a content keeps its sha1_git. *)
Theorem C12_same_id : forall idf swhid_str swhid_parse dateparse,
  swhid_contract swhid_str swhid_parse ->
  forall c fs, wf idf (VObj c fs) ->
  exists fs', fst (from_dict idf swhid_str swhid_parse dateparse c (to_dict swhid_str (VObj c fs))) = Ok (VObj c fs')
              /\ fget k_id fs' = fget k_id fs /\ idf c (fdel k_id fs') = idf c (fdel k_id fs)
              /\ fget k_sha1_git fs' = fget k_sha1_git fs.
Proof. exact same_id_c. Qed.
Print Assumptions C12_same_id.

(* Converting again yields the same dictionary. *)
Theorem C12_to_dict_idempotent : forall idf swhid_str swhid_parse dateparse,
  swhid_contract swhid_str swhid_parse ->
  forall c fs, wf idf (VObj c fs) ->
  exists o2, fst (from_dict idf swhid_str swhid_parse dateparse c (to_dict swhid_str (VObj c fs))) = Ok o2
             /\ to_dict swhid_str o2 = to_dict swhid_str (VObj c fs).
Proof. exact to_dict_idempotent_c. Qed.
Print Assumptions C12_to_dict_idempotent.

(* The dictionary form contains only plain values (None, bool, int, bytes,
   str, datetime, tuple, list, dict): no enum member, SWHID object,
   ImmutableDict or model object, at any depth. *)
Theorem C12_plain : forall swhid_str idf v, wf idf v -> plain (to_dict swhid_str v) = true.
Proof. exact plain_dictify. Qed.
Print Assumptions C12_plain.

(* Decoding never modifies the value it is given: for every class and EVERY
   value (well formed or not, decodable or not), the caller's dictionary after
   from_dict is the dictionary before.  Proved on the dict-command model that
   tracks whether the code works on the caller's dict or on a copy. *)
Theorem C12_input_untouched : forall idf swhid_str swhid_parse dateparse c v,
  snd (from_dict idf swhid_str swhid_parse dateparse c v) = v.
Proof. exact input_untouched. Qed.
Print Assumptions C12_input_untouched.

(* Legacy date encoding: numeric offset + negative-UTC flag, for every 16-bit
   offset (the range is swept by the kernel), the flag only on non-positive
   offsets, any timestamp member and any other keys. *)
Theorem C12_legacy_offset : forall idf d off nu,
  dget k_offset_bytes d = None -> dget k_offset d = Some (VInt off) -> dget k_negative_utc d = nu ->
  (-32768 <= off < 32768)%Z ->
  let neg := match nu with Some x => truthy x | None => false end in
  (neg = true -> (off <= 0)%Z) ->
  fst (fd_TimestampWithTimezone idf (VDict d)) =
  fst (fd_TimestampWithTimezone idf (VDict (dset k_offset_bytes (VBytes (fmt_offset off ((off <? 0)%Z || neg))) d))).
Proof. exact legacy_offset. Qed.
Print Assumptions C12_legacy_offset.

(* Legacy revision encoding: extra headers inside a non-empty metadata are
   moved to extra_headers and leave the metadata; the result is stable under
   the migration (it is what the current encoding yields).  Stated on the
   attribute values where Revision.__attrs_post_init__ does it; the
   dictionary-level instance is the Example legacy_extra_headers_example. *)
Theorem C12_legacy_extra_headers : forall fs md eh eh',
  fget k_metadata fs = VIDict md -> md <> [] -> truthy (fget k_extra_headers fs) = false ->
  dget k_extra_headers md = Some eh -> tuplify_extra_headers eh = Ok eh' ->
  validate cRevision (fset k_extra_headers eh' fs) = true ->
  let fs' := fset k_metadata (VIDict (ddel k_extra_headers md)) (fset k_extra_headers eh' fs) in
  migrate_extra_headers fs = Ok fs' /\
  (fget k_metadata fs' = VIDict (ddel k_extra_headers md) -> migrate_extra_headers fs' = Ok fs').
Proof. exact legacy_extra_headers. Qed.
Print Assumptions C12_legacy_extra_headers.

(* Legacy metadata target: {"type": "origin", "target": url, ...} decodes to
   what {"target": str(Origin(url).swhid()), ...} decodes to (any other keys,
   decodable or not). *)
Theorem C12_legacy_metadata_target : forall idf swhid_str swhid_parse d url w,
  dget k_type d = Some (VStr s_origin) -> dget k_target d = Some url ->
  origin_swhid_str idf swhid_str url = Ok w ->
  fst (fd_RawExtrinsicMetadata idf swhid_str swhid_parse (VDict d)) =
  fst (fd_RawExtrinsicMetadata idf swhid_str swhid_parse (VDict (dset k_target w (ddel k_type d)))).
Proof. exact legacy_metadata_target. Qed.
Print Assumptions C12_legacy_metadata_target.

(* The code before the fix (RawExtrinsicMetadata.from_dict without d = dict(d))
   modifies its argument. *)
Theorem C12_input_untouched_refuted_old :
  exists v, snd (from_dict_old_c cRawExtrinsicMetadata v) <> v.
Proof. exact input_untouched_refuted_old. Qed.
Print Assumptions C12_input_untouched_refuted_old.

(* The code before the fix (ExtID.from_dict without id=d.get("id", b"")) loses an
   explicit id; the code as it is now does not. *)
Theorem C12_extid_roundtrip_refuted_old :
  exists fs, wf idf_c (VObj cExtID fs) /\
             fst (from_dict_old_c cExtID (to_dict_c (VObj cExtID fs))) <> Ok (VObj cExtID fs) /\
             fst (from_dict_c cExtID (to_dict_c (VObj cExtID fs))) = Ok (VObj cExtID fs).
Proof. exact extid_roundtrip_refuted_old. Qed.
Print Assumptions C12_extid_roundtrip_refuted_old.

(* Stricter reading, kept visible: raw_manifest has no validator; a Directory
   constructed with a model object as raw_manifest (outside its declared type
   Optional[bytes]) does not round-trip. *)
Theorem C12_roundtrip_refuted_untyped_raw_manifest :
  exists fs, construct idf_c cDirectory (as_kwargs fs) = Ok (VObj cDirectory fs) /\
             fst (from_dict_c cDirectory (to_dict_c (VObj cDirectory fs))) <> Ok (VObj cDirectory fs).
Proof. exact roundtrip_refuted_untyped_raw_manifest. Qed.
Print Assumptions C12_roundtrip_refuted_untyped_raw_manifest.

(* Table side condition: names, order, has-default and has-converter of every
   field of the 18 hard-coded schemas equal the attrs tables regenerated from
   /repo (Generated.FIELDS_<Class>). *)
Theorem C12_schema_matches_generated : forall c, schema_view c = gen_view (generated_fields c).
Proof. exact schema_matches_generated. Qed.
Print Assumptions C12_schema_matches_generated.

(* Non-vacuity: a release with an author and no date, metadata set, message
   and raw_manifest None is well formed, round-trips, and its dictionary has no
   raw_manifest key. *)
Theorem C12_valid_satisfiable : wf idf_c (VObj cRelease release1) /\
  from_dict_c cRelease (to_dict_c (VObj cRelease release1)) =
    (Ok (VObj cRelease release1), to_dict_c (VObj cRelease release1)) /\
  dget k_raw_manifest (match to_dict_c (VObj cRelease release1) with VDict d => d | _ => [] end) = None.
Proof. exact valid_satisfiable. Qed.
Print Assumptions C12_valid_satisfiable.

(* Non-vacuity of the SWHID contract: the concrete printer / parser used by the
   extracted model satisfies it. *)
Theorem C12_swhid_contract_satisfiable : swhid_contract swhid_str_c swhid_parse_c.
Proof. exact swhid_contract_c. Qed.
Print Assumptions C12_swhid_contract_satisfiable.

(* ---------------------------------------------------------------- second round *)
(* What is assumed of the id oracle where the legacy revision encoding is
   concerned: [idf_migration_invariant idf] says that the id of a revision does
   not change when extra headers found in the metadata are moved to
   extra_headers, i.e. idf reads the EFFECTIVE extra headers only (for the real
   manifest this is C03_legacy_extra_headers: revision_git_object falls back to
   metadata["extra_headers"] when extra_headers is empty and reads nothing else
   of the metadata).  Nothing else is assumed of idf. *)

(* Legacy revision encoding, at the level of DICTIONARIES: for every revision
   dictionary d whose metadata holds "extra_headers" -> eh, with no (or an
   empty) top-level extra_headers, and d' = d with eh as top-level
   extra_headers and the key removed from the metadata: from_dict d and
   from_dict d' give the same result - the same object with the same id
   (explicit: kept on both sides; absent: the oracle is asked about the same
   effective fields), or the same error.  eh is a sequence of pairs of byte
   strings (tuplify succeeds and the result has the declared type); any other
   key of d may hold anything. *)
Theorem C12_legacy_extra_headers_dict : forall idf, idf_migration_invariant idf ->
  forall d md eh eh',
  dget k_metadata d = Some (VDict md) ->
  (dget k_extra_headers d = None \/
   exists x, dget k_extra_headers d = Some x /\ tuplify_extra_headers x = Ok (VTuple [])) ->
  dget k_extra_headers md = Some eh -> tuplify_extra_headers eh = Ok eh' -> has_type hdr_ty eh' = true ->
  fst (fd_Revision idf (VDict d)) =
  fst (fd_Revision idf (VDict (dset k_extra_headers eh (dset k_metadata (VDict (ddel k_extra_headers md)) d)))).
Proof. exact legacy_extra_headers_dict. Qed.
Print Assumptions C12_legacy_extra_headers_dict.

(* For EVERY class and EVERY argument list: what the constructor returns has
   the attribute names of its schema and is a fixed point of the constructor
   (converters idempotent, validators still pass, post-init changes nothing). *)
Theorem C12_constructor_fixed : forall idf, idf_migration_invariant idf ->
  forall c kw fs, construct idf c kw = Ok (VObj c fs) ->
  map fst fs = names c /\ construct idf c (as_kwargs fs) = Ok (VObj c fs).
Proof. exact construct_fixed. Qed.
Print Assumptions C12_constructor_fixed.

(* Every object returned by the constructor is well formed, provided the
   arguments (once bound and converted) have their declared types IN DEPTH
   ([args_typed]: nested objects well formed, metadata values plain, the
   unvalidated raw_manifest a byte string or None, get_data None) - the one
   thing no validator checks. *)
Theorem C12_constructor_output_wf : forall idf, idf_migration_invariant idf ->
  forall c kw fs, args_typed idf c kw -> construct idf c kw = Ok (VObj c fs) -> wf idf (VObj c fs).
Proof. exact constructor_output_wf_args. Qed.
Print Assumptions C12_constructor_output_wf.

(* ... and that proviso cannot be dropped: a constructor output that is not
   well formed (the Directory with a Person as raw_manifest). *)
Theorem C12_constructor_output_wf_needs_typing :
  exists c kw fs, construct idf_c c kw = Ok (VObj c fs) /\ ~ wf idf_c (VObj c fs).
Proof. exact constructor_output_wf_needs_typing. Qed.
Print Assumptions C12_constructor_output_wf_needs_typing.

(* The round trip restated for constructor outputs, without wf. *)
Theorem C12_roundtrip_constructed : forall idf swhid_str swhid_parse dateparse,
  swhid_contract swhid_str swhid_parse -> idf_migration_invariant idf ->
  forall c kw fs, args_typed idf c kw -> construct idf c kw = Ok (VObj c fs) ->
  from_dict idf swhid_str swhid_parse dateparse c (to_dict swhid_str (VObj c fs)) =
  (Ok (VObj c fs), to_dict swhid_str (VObj c fs)).
Proof. exact roundtrip_constructed_args. Qed.
Print Assumptions C12_roundtrip_constructed.

(* Non-vacuity of the hypothesis on the id oracle. *)
Theorem C12_idf_invariant_satisfiable : idf_migration_invariant idf_c.
Proof. exact idf_c_invariant. Qed.
Print Assumptions C12_idf_invariant_satisfiable.

(* ---------------------------------------------------------------- table side conditions (third round) *)
(* The tables hard-coded in model/Codec.v equal the tables regenerated from
   /repo on every run.  The model does not mention the generated tables; a
   source change makes these theorems fail, not the model's build. *)

(* Per class: field names and order, type codes (str(f.type) normalised),
   default values (wire notation) and elided-when-None flags. *)
Theorem C12_schema_types_match_generated : forall c, map schema_row (schema c) = generated_schema c.
Proof. exact schema_types_match_generated. Qed.
Print Assumptions C12_schema_types_match_generated.

(* The 18 classes of the model, by name and in order, are the generated ones. *)
Theorem C12_model_schemas_match_generated :
  map (fun c => (class_name c, map schema_row (schema c))) all_classes = MODEL_SCHEMAS.
Proof. exact model_schemas_match_generated. Qed.
Print Assumptions C12_model_schemas_match_generated.

(* A type code determines the field type: ty_of_string inverts string_of_ty on
   every type used in a schema, so equal codes mean equal modelled types. *)
Theorem C12_type_codes_injective : forall t, In t schema_types -> ty_of_string (string_of_ty t) = Some t.
Proof. exact ty_of_string_of_ty. Qed.
Print Assumptions C12_type_codes_injective.

(* Which fields carry generic_type_validator. *)
Theorem C12_generic_validated_match_generated :
  forall c, map fname (filter fgeneric (schema c)) = generated_generic c.
Proof. exact generic_validated_match_generated. Qed.
Print Assumptions C12_generic_validated_match_generated.

(* Enum members (by value, declaration order) and the literal lists of the
   in_ validators used by the modelled custom validators. *)
Theorem C12_enums_match_generated :
  members ESnapshotTarget = SNAPSHOT_TARGET_TYPES /\ members EReleaseTarget = RELEASE_TARGET_TYPES /\
  members ERevisionType = REVISION_TYPES /\ members EAuthorityType = METADATA_AUTHORITY_TYPES /\
  visit_statuses = VISIT_STATUSES /\ dir_entry_types = DIR_ENTRY_TYPES /\
  content_statuses = CONTENT_STATUSES /\ skipped_content_statuses = SKIPPED_CONTENT_STATUSES /\
  content_statuses ++ skipped_content_statuses = BASE_CONTENT_STATUSES.
Proof. exact enums_match_generated. Qed.
Print Assumptions C12_enums_match_generated.

(* ---------------------------------------------------------------- from_dict is a function of the dictionary alone *)
(* Decoding the same dictionary twice gives the same outcome, for every class
   and every value: the first call leaves the argument as it was
   (C12_input_untouched), so the second call sees the same dictionary. *)
Theorem C12_decode_twice : forall idf swhid_str swhid_parse dateparse c v,
  from_dict idf swhid_str swhid_parse dateparse c (snd (from_dict idf swhid_str swhid_parse dateparse c v)) =
  from_dict idf swhid_str swhid_parse dateparse c v.
Proof. exact decode_twice. Qed.
Print Assumptions C12_decode_twice.

(* The same two statements for the dispatching route BaseContent.from_dict. *)
Theorem C12_input_untouched_BaseContent :
  forall idf (swhid_str : swhid_kind -> text -> bytes -> text) (swhid_parse : swhid_kind -> text -> result (text * bytes))
         dateparse v, snd (fd_BaseContent idf dateparse v) = v.
Proof. exact input_untouched_BaseContent. Qed.
Print Assumptions C12_input_untouched_BaseContent.

Theorem C12_decode_twice_BaseContent :
  forall idf (swhid_str : swhid_kind -> text -> bytes -> text) (swhid_parse : swhid_kind -> text -> result (text * bytes))
         dateparse v,
  fd_BaseContent idf dateparse (snd (fd_BaseContent idf dateparse v)) = fd_BaseContent idf dateparse v.
Proof. exact decode_twice_BaseContent. Qed.
Print Assumptions C12_decode_twice_BaseContent.

(* Content of those statements: SkippedContent.from_dict without its private
   copy pops "data" from the caller's dictionary (argument modified), and an
   invalid dictionary rejected by the first call is accepted by the second. *)
Theorem C12_skipped_nocopy_refuted :
  (exists v, snd (fd_SkippedContent_nocopy (fun _ _ => Ok []) v) <> v) /\
  (exists v, let r1 := fd_SkippedContent_nocopy (fun _ _ => Ok []) v in
             fst r1 = Err ValueError /\
             exists o, fst (fd_SkippedContent_nocopy (fun _ _ => Ok []) (snd r1)) = Ok o).
Proof. exact skipped_nocopy_refuted. Qed.
Print Assumptions C12_skipped_nocopy_refuted.
