(* C10 - Merkle nodes never report a stale hash, whatever the mutation history.
   Property theorems only: each is closed by `exact` of a lemma proved in
   proofs/Merkle*.v, with Print Assumptions beneath it.

   Vocabulary (model/Merkle.v): a heap of nodes addressed by handles; [step] runs
   one operation of {new node, set/replace, delete, bulk update, get, contains
   (all with Directory path keys), read hash, forced update, entries, to_model,
   collect, reset}; [Fresh NH s n h] = "h is the hash of n computed from
   scratch from the current structure of s"; NH is the user's node hash
   function (ANY function); [guard] = the structure stays
   a DAG ([acyclic]: some labelling of the handles by natural numbers strictly
   decreases along every child edge) and a bulk update receives a dict of plain names and existing nodes;
   [guarded [] h] = every step of history h from the empty heap is guarded;
   a delete is moreover guarded by "no Directory holds an entry named b''" (item
   assignment refuses that name, a bulk update of plain names never creates it;
   with such an entry d[b''] is d itself and `del d[b'']` raises after the
   invalidation - the model follows the code there, see raw_delitem).
   The two boolean arguments of step/guard select the code that is modelled:
   first, how a parent link is removed: true = by identity (the code as it is),
   false = with == (the code before commit 3287c19); second, how "no cached
   hash" is tested: false = `is None` (the code as it is), true = by truthiness
   (the code before commit eb927a2).  The theorems are about (true, false). *)
From Coq Require Import List NArith.
From SWH.lib Require Import Bytes.
From SWH.model Require Import Merkle.
From SWH.proofs Require Import MerkleBase MerkleAcyclic MerkleInv MerkleStep MerkleTotal MerkleForce MerkleChain MerkleWitness.
Import ListNotations.
Local Open Scope nat_scope.

(* The invariant (I1 a cached hash is fresh and all children of a cached node
   are cached; I2 every child edge has its back-link, with multiplicity; I3 the
   two derived caches of a Directory hold fresh entries; I4 collected => cached;
   handles valid; acyclic) holds of the empty heap. *)
Theorem C10_inv_init : forall NH : bytes -> list entry -> bytes, InvA NH [].
Proof. exact InvA_init. Qed.
Print Assumptions C10_inv_init.

(* Every operation, guarded, preserves the invariant - including forced
   updates at inner nodes of DAGs and operations that raise. *)
Theorem C10_inv_step : forall NH : bytes -> list entry -> bytes,
  forall (s : heap) (o : op), InvA NH s -> guard NH true false s o -> InvA NH (fst (step NH true false s o)).
Proof. exact step_inv. Qed.
Print Assumptions C10_inv_step.

(* Hence every state reached by a guarded history satisfies it. *)
Theorem C10_reachable : forall NH : bytes -> list entry -> bytes,
  forall (h : list op) (s : heap), InvA NH s -> guarded NH true false s h -> InvA NH (final NH true false s h).
Proof. exact reachable_inv. Qed.
Print Assumptions C10_reachable.

(* No stale value: after ANY guarded history from the empty heap, reading the
   hash of any node (lazily or with force=True) succeeds - the fuel of the
   recursive procedures is never exhausted - and returns the hash computed from
   scratch from the current structure; Directory.entries / to_model return
   entries built from the fresh hashes of the current children. *)
Theorem C10_no_stale : forall NH : bytes -> list entry -> bytes,
  forall (h : list op) (o : op),
  guarded NH true false [] h -> guard NH true false (final NH true false [] h) o ->
  let s := final NH true false [] h in
  let s' := fst (step NH true false s o) in
  (forall n, n < length s -> o = OHash n \/ o = OForce n ->
     exists hv, snd (step NH true false s o) = OutHash hv /\ Fresh NH s' n hv /\ Fresh NH s n hv) /\
  (forall n es, o = OEntries n \/ o = OToModel n -> snd (step NH true false s o) = OutEntries es ->
     exists x, nth_error s n = Some x /\ FreshKids NH s' (kids x) es).
Proof. exact no_stale. Qed.
Print Assumptions C10_no_stale.

(* The derived identifier: swhid() of a Directory / Content node answers with the
   hash as object id ([OSwhid n]; the generic classes have no such method), so
   after any guarded history it is the from-scratch hash - whichever of hash,
   swhid, entries, to_model, collect is read first after a mutation. *)
Theorem C10_swhid_fresh : forall (NH : bytes -> list entry -> bytes) (h : list op) (n : nat) (x : node),
  guarded NH true false [] h ->
  let s := final NH true false [] h in
  guard NH true false s (OSwhid n) -> nth_error s n = Some x -> kind x = KDir \/ kind x = KContent ->
  exists hv, snd (step NH true false s (OSwhid n)) = OutHash hv /\
             Fresh NH (fst (step NH true false s (OSwhid n))) n hv /\ Fresh NH s n hv.
Proof. exact swhid_fresh. Qed.
Print Assumptions C10_swhid_fresh.

(* Comparing two nodes (==, !=) computes no hash and changes nothing, whether
   or not their hashes have been computed. *)
Theorem C10_eq_is_pure : forall (NH : bytes -> list entry -> bytes) (s : heap) (a b : nat),
  fst (step NH true false s (OEq a b)) = s.
Proof. reflexivity. Qed.
Print Assumptions C10_eq_is_pure.

(* No operation of a guarded history can run out of fuel: the path-key lookups
   of Directory (__getitem__, __contains__) never do, in any state (each level
   of key.split(b"/", 1) strictly shortens the key), and after ANY guarded
   history NO operation - set, delete, bulk update, get, contains, read, forced
   update, entries, to_model, collect, reset, on valid or invalid handles -
   answers "out of fuel": the recursive procedures of the model are total
   there, errors are only KeyError / ValueError / AttributeError / bad handle. *)
Theorem C10_path_ops_total : forall NH : bytes -> list entry -> bytes,
  (forall s n key e, getitem_ s n key = Err e -> e <> EFuel) /\
  (forall s n key e, contains_ s n key = Err e -> e <> EFuel) /\
  (forall h o e, guarded NH true false [] h ->
     snd (step NH true false (final NH true false [] h) o) = OutErr e -> e <> EFuel).
Proof. exact path_ops_total. Qed.
Print Assumptions C10_path_ops_total.

(* "At any depth": the model has no depth limit.  [chain_heap d key n] is the
   chain of n nested nodes (node i holds node i+1 under [key]; it is what
   "create n nodes, link each under the previous one" builds).  For EVERY n it
   satisfies the invariant, node n-1 is n-1 levels below node 0, and after any
   guarded history run on it (a mutation at the bottom, ...) reading or forcing
   the hash of any node - the top in particular - succeeds with the from-scratch
   hash, and no operation answers "out of fuel" (the recursive procedures take
   their fuel from the heap size, not from a stack).  The implementation
   recurses one Python frame per level instead: known finding
   chain-deeper-than-recursion-limit. *)
Theorem C10_chain_any_depth : forall (NH : bytes -> list entry -> bytes) (d key : bytes) (n : nat),
  InvA NH (chain_heap d key n) /\
  (forall i j, i <= j -> j < n -> Reach (chain_heap d key n) i j) /\
  forall (h : list op) (o : op),
  guarded NH true false (chain_heap d key n) h ->
  guard NH true false (final NH true false (chain_heap d key n) h) o ->
  let s := final NH true false (chain_heap d key n) h in
  let s' := fst (step NH true false s o) in
  (forall m, m < length s -> o = OHash m \/ o = OForce m ->
     exists hv, snd (step NH true false s o) = OutHash hv /\ Fresh NH s' m hv /\ Fresh NH s m hv) /\
  (forall e, snd (step NH true false s o) = OutErr e -> e <> EFuel).
Proof.
  intros NH d key n. split; [apply chain_inv|]. split; [apply chain_reach|]. apply chain_any_depth.
Qed.
Print Assumptions C10_chain_any_depth.

(* On the untouched chain of any depth n > 0: the hash of the top is computed
   (from scratch), and a collect at the top returns all the n nodes. *)
Theorem C10_chain_top_ops : forall (NH : bytes -> list entry -> bytes) (d key : bytes) (n : nat), 0 < n ->
  let s := chain_heap d key n in
  (exists s' hv, step NH true false s (OHash 0) = (s', OutHash hv) /\ Fresh NH s 0 hv) /\
  (exists s' L, step NH true false s (OCollect 0) = (s', OutNodes L) /\ forall i, i < n -> In i L).
Proof. exact chain_top_ops. Qed.
Print Assumptions C10_chain_top_ops.

(* The acyclicity guard is the plain one: "some rank decreases along child
   edges" is equivalent to the same with the rank bounded by the number of
   nodes (the form the fuel arguments use; rank' n = 1 + number of nodes of
   smaller rank), and it implies that no node is reachable from one of its own
   children. *)
Theorem C10_acyclic_equiv : forall s : heap,
  (exists rank, forall n m, edge s n m -> rank m < rank n) <->
  (exists rank, (forall n m, edge s n m -> rank m < rank n) /\ (forall n, rank n <= length s)).
Proof. exact acyclic_equiv. Qed.
Print Assumptions C10_acyclic_equiv.

Theorem C10_acyclic_no_self_reach : forall s : heap, acyclic s ->
  forall n k, edge s n k -> ~ Reach s k n.
Proof. exact acyclic_no_self_reach. Qed.
Print Assumptions C10_acyclic_no_self_reach.

(* Out-of-band writes and forced updates.  [OWrite n d] is `node.data = d`: the
   library is not told, nothing is invalidated (a guarded history contains none:
   guard (OWrite _ _) = False, so the theorems above are about histories made
   of the library's own operations).  [InvS s] is the part of the invariant
   that does not speak of hash values (handles, back-links, cached => children
   cached, derived caches => children cached, collected => cached): a write
   does not disturb it.  [clean_at NH s m] = every cached value of node m
   (hash, entries, model object) is the from-scratch value.

   FORCE RESTORES.  From ANY state satisfying InvS - whatever was written behind
   the library's back - if every node that may hold a stale value is below r
   or above r, then update_hash(force=True) at r succeeds, returns the
   from-scratch hash of r, leaves every node below r hashed and un-collected,
   and re-establishes the whole invariant: all the theorems above apply again
   from there on.  (A node neither below nor above r - e.g. another root sharing
   the written node - is not touched and stays stale: nobody told it.) *)
Theorem C10_force_restores : forall (NH : bytes -> list entry -> bytes) (s : heap) (r : nat),
  InvS s -> acyclic s -> r < length s ->
  (forall m, m < length s -> clean_at NH s m \/ Reach s r m \/ Reach s m r) ->
  let s' := fst (step NH true false s (OForce r)) in
  InvA NH s' /\
  (exists hv, snd (step NH true false s (OForce r)) = OutHash hv /\ Fresh NH s' r hv) /\
  (forall m, Reach s r m -> notcoll s' m /\ hashed_at s' m) /\
  (forall a b, Reach s' a b <-> Reach s a b).
Proof. exact force_restores. Qed.
Print Assumptions C10_force_restores.

(* The invariant is exactly "InvS and every node clean". *)
Theorem C10_inv_split : forall (NH : bytes -> list entry -> bytes) (s : heap),
  Inv NH s <-> (InvS s /\ forall m, clean_at NH s m).
Proof. exact Inv_split. Qed.
Print Assumptions C10_inv_split.

(* Corollary: in a state of the invariant (e.g. reached by a guarded history),
   write the data of node n, then force at a node r that every ancestor-or-self
   of n is below or above (r dominates n: the unique root, ...): the forced hash
   is fresh, the invariant holds again, and after ANY guarded continuation every
   hash read / forced update / entries / to_model returns from-scratch values. *)
Theorem C10_write_force_fresh : forall (NH : bytes -> list entry -> bytes) (s : heap) (n : nat) (d : bytes) (r : nat),
  InvA NH s -> n < length s ->
  (forall a, Reach s a n -> Reach s r a \/ Reach s a r) ->
  let s1 := fst (step NH true false s (OWrite n d)) in
  let s2 := fst (step NH true false s1 (OForce r)) in
  (InvA NH s2 /\ exists hv, snd (step NH true false s1 (OForce r)) = OutHash hv /\ Fresh NH s2 r hv) /\
  forall h o, guarded NH true false s2 h -> guard NH true false (final NH true false s2 h) o ->
  let t := final NH true false s2 h in
  let t' := fst (step NH true false t o) in
  (forall m, m < length t -> o = OHash m \/ o = OForce m ->
     exists hv, snd (step NH true false t o) = OutHash hv /\ Fresh NH t' m hv /\ Fresh NH t m hv) /\
  (forall m es, o = OEntries m \/ o = OToModel m -> snd (step NH true false t o) = OutEntries es ->
     exists x, nth_error t m = Some x /\ FreshKids NH t' (kids x) es).
Proof.
  intros NH s n d r IA L Dom s1 s2. split.
  - destruct (write_force_restores NH s n d r IA L Dom) as (A & B & _). exact (conj A B).
  - exact (write_force_fresh NH s n d r IA L Dom).
Qed.
Print Assumptions C10_write_force_fresh.

(* Non-vacuity: chain a -> b -> c after a collect; c is written, a dominates. *)
Theorem C10_write_force_satisfiable :
  let s := final NH0 true false [] h_chain in
  guarded NH0 true false [] h_chain /\ 2 < length s /\ Reach s 0 2 /\
  (forall a, Reach s a 2 -> Reach s 0 a \/ Reach s a 0).
Proof. exact write_force_satisfiable. Qed.
Print Assumptions C10_write_force_satisfiable.

(* "The" value computed from scratch: Fresh is functional. *)
Theorem C10_fresh_unique : forall (NH : bytes -> list entry -> bytes) (s : heap),
  (forall n h, Fresh NH s n h -> forall h', Fresh NH s n h' -> h = h') /\
  (forall ks es, FreshKids NH s ks es -> forall es', FreshKids NH s ks es' -> es = es').
Proof. exact Fresh_det. Qed.
Print Assumptions C10_fresh_unique.

(* Removing a node from one parent never disturbs its link to another parent:
   after a delete (plain or nested key, successful or raising), every parent q
   that still holds a child c is still recorded in c.parents. *)
Theorem C10_delete_keeps_other_parent : forall NH : bytes -> list entry -> bytes,
  forall (h : list op) (p : nat) (key : bytes),
  guarded NH true false [] h -> guard NH true false (final NH true false [] h) (ODel p key) ->
  let s' := fst (step NH true false (final NH true false [] h) (ODel p key)) in
  forall q x name c y, nth_error s' q = Some x -> In (name, c) (kids x) -> nth_error s' c = Some y ->
    In q (parents y).
Proof. exact delete_keeps_other_parent. Qed.
Print Assumptions C10_delete_keeps_other_parent.

(* The previous code (parents.remove(self), which compares with ==) does NOT
   satisfy the property: a guarded 13-step history (child attached under two
   structurally equal parents, deleted from one, then mutated) after which the
   root reports a hash that is not the from-scratch hash. *)
Theorem C10_no_stale_refuted_old_remove :
  exists NH h n hv, (forall d es, NH d es <> []) /\ guarded NH false false [] h /\
    snd (step NH false false (final NH false false [] h) (OHash n)) = OutHash hv /\
    ~ Fresh NH (final NH false false [] h) n hv.
Proof. exact old_remove_refuted. Qed.
Print Assumptions C10_no_stale_refuted_old_remove.

(* The previous truthiness test (`if not self.__hash: return`) does NOT satisfy
   the property: with a compute_hash returning b"" for some node,
   invalidate_hash stopped at that node and its parents stayed stale (6-step
   witness; parent links removed by identity). *)
Theorem C10_falsy_hash_refuted_old :
  exists NH h n hv, guarded NH true true [] h /\
    snd (step NH true true (final NH true true [] h) (OHash n)) = OutHash hv /\
    ~ Fresh NH (final NH true true [] h) n hv.
Proof. exact falsy_hash_refuted_old. Qed.
Print Assumptions C10_falsy_hash_refuted_old.

(* Non-vacuity: a 29-step history building a diamond whose two middle nodes are
   structurally equal and share a child (parents recorded [p2; p1]), with bulk
   update, delete, forced update, collects, a reset and a partial reset, satisfies every guard. *)
Theorem C10_guards_satisfiable :
  guarded NH0 true false [] h_diamond /\
  length (final NH0 true false [] h_diamond) = 5 /\
  (let s := final NH0 true false [] (firstn 10 h_diamond) in
   (exists y, nth_error s 0 = Some y /\ parents y = [2; 1]) /\ node_eqb (S (length s)) s 1 2 = true).
Proof. exact guards_satisfiable. Qed.
Print Assumptions C10_guards_satisfiable.
