(* C03 - Revision ids are git commit ids for every field combination. *)
From Coq Require Import List NArith.
From SWH.lib Require Import Bytes Hex GitHeader Headers.
From SWH.model Require Import Time Rel Rev.
From SWH.proofs Require Import RevProofs.
Import ListNotations.

(* the id is the hash of the commit object (raw manifest taking precedence), for every hash function *)
Theorem C03_id_is_commit_hash : forall (H : bytes -> bytes) r,
  v_raw_manifest r = None -> rev_compute_hash H r = H (rev_manifest r).
Proof. intros H r R. unfold rev_compute_hash. rewrite R. reflexivity. Qed.
Print Assumptions C03_id_is_commit_hash.

(* PARTIAL (see C03_parse_full_refuted): for every revision whose effective
   extra-header KEYS are non-empty, contain neither space nor newline and are
   none of tree/parent/author/committer, an independent positional commit
   parser recovers tree, parents, author and committer lines, the ordered extra
   headers with their original multi-line VALUES, and the message (absent,
   empty or arbitrary) - any number of parents, every presence combination,
   arbitrary fullname / offset / value / message bytes. *)
Theorem C03_parse_partial : forall r, wf_extra (effective_extra r) = true ->
  parse_commit (rev_manifest r) = Some (commit_fields_of r).
Proof. exact parse_commit_ok. Qed.
Print Assumptions C03_parse_partial.

(* The full statement (arbitrary header keys) is FALSE of the faithful model and
   of git's format itself: different fields, same manifest.  Recorded as a
   known finding (class: not wf_extra). *)
Theorem C03_parse_full_refuted :
  (rev_manifest amb1 = rev_manifest amb2 /\ commit_fields_of amb1 <> commit_fields_of amb2) /\
  (rev_manifest amb3 = rev_manifest amb4 /\ commit_fields_of amb3 <> commit_fields_of amb4).
Proof. exact parse_commit_full_refuted. Qed.
Print Assumptions C03_parse_full_refuted.

Theorem C03_manifest_injective : forall r r',
  wf_extra (effective_extra r) = true -> wf_extra (effective_extra r') = true ->
  rev_manifest r = rev_manifest r' -> commit_fields_of r = commit_fields_of r'.
Proof. exact rev_manifest_injective. Qed.
Print Assumptions C03_manifest_injective.

(* origin type, synthetic flag, split name/email and metadata other than legacy
   extra headers never influence the manifest *)
Theorem C03_irrelevant_fields : forall r r',
  v_message r = v_message r' -> v_directory r = v_directory r' -> v_parents r = v_parents r' ->
  option_map fullname (v_author r) = option_map fullname (v_author r') ->
  option_map fullname (v_committer r) = option_map fullname (v_committer r') ->
  v_date r = v_date r' -> v_committer_date r = v_committer_date r' ->
  effective_extra r = effective_extra r' ->
  rev_manifest r = rev_manifest r'.
Proof. exact revision_irrelevant_fields. Qed.
Print Assumptions C03_irrelevant_fields.

(* extra headers given as the attribute or inside legacy metadata: same
   manifest; after construction the attribute holds them, the metadata does not *)
Theorem C03_legacy_extra_headers : forall r l,
  v_extra_headers r = [] -> v_meta_extra r = Some l ->
  rev_manifest (post_init r) = rev_manifest r /\
  v_extra_headers (post_init r) = l /\ v_meta_extra (post_init r) = None.
Proof. exact legacy_extra_headers_same. Qed.
Print Assumptions C03_legacy_extra_headers.
Theorem C03_post_init_keeps_manifest : forall r, rev_manifest (post_init r) = rev_manifest r.
Proof. exact post_init_manifest. Qed.
Print Assumptions C03_post_init_keeps_manifest.

(* the constructor accepts exactly (date => author) and (committer_date => committer) *)
Theorem C03_presence_matrix : forall r,
  revision_valid r = true <->
  ((v_date r <> None -> v_author r <> None) /\ (v_committer_date r <> None -> v_committer r <> None)).
Proof. exact revision_presence. Qed.
Print Assumptions C03_presence_matrix.

Theorem C03_satisfiable : revision_valid ex_revision = true /\ wf_extra (effective_extra ex_revision) = true.
Proof. exact ex_revision_ok. Qed.
Print Assumptions C03_satisfiable.
