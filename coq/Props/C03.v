(* C03 - Revision ids are git commit ids for every field combination. *)
From Coq Require Import List NArith.
From SWH.lib Require Import Bytes Hex GitHeader Headers.
From SWH.model Require Import Time Rel Rev.
From SWH.proofs Require Import RevProofs.
Import ListNotations.

(* the id is the hash of the commit object (raw manifest taking precedence), for every hash function *)
Theorem C03_id_is_commit_hash : forall (H : bytes -> bytes) r,
  v_raw_manifest r = None -> rev_compute_hash H r = H (rev_manifest r).
Proof. intros H r R. unfold rev_compute_hash. rewrite R. reflexivity. Qed.
Print Assumptions C03_id_is_commit_hash.

(* PARTIAL (see C03_parse_full_refuted): for every revision whose effective
   extra-header KEYS are non-empty, contain neither space nor newline and are
   none of tree/parent/author/committer, an independent positional commit
   parser recovers tree, parents, author and committer lines, the ordered extra
   headers with their original multi-line VALUES, and the message (absent,
   empty or arbitrary) - any number of parents, every presence combination,
   arbitrary fullname / offset / value / message bytes. *)
Theorem C03_parse_partial : forall r, wf_extra (effective_extra r) = true ->
  parse_commit (rev_manifest r) = Some (commit_fields_of r).
Proof. exact parse_commit_ok. Qed.
Print Assumptions C03_parse_partial.

(* The full statement (arbitrary header keys) is FALSE of the faithful model and
   of git's format itself: different fields, same manifest.  Recorded as a
   known finding (class: not wf_extra). *)
Theorem C03_parse_full_refuted :
  (rev_manifest amb1 = rev_manifest amb2 /\ commit_fields_of amb1 <> commit_fields_of amb2) /\
  (rev_manifest amb3 = rev_manifest amb4 /\ commit_fields_of amb3 <> commit_fields_of amb4).
Proof. exact parse_commit_full_refuted. Qed.
Print Assumptions C03_parse_full_refuted.

Theorem C03_manifest_injective : forall r r',
  wf_extra (effective_extra r) = true -> wf_extra (effective_extra r') = true ->
  rev_manifest r = rev_manifest r' -> commit_fields_of r = commit_fields_of r'.
Proof. exact rev_manifest_injective. Qed.
Print Assumptions C03_manifest_injective.

(* origin type, synthetic flag, split name/email and metadata other than legacy
   extra headers never influence the manifest *)
Theorem C03_irrelevant_fields : forall r r',
  v_message r = v_message r' -> v_directory r = v_directory r' -> v_parents r = v_parents r' ->
  option_map fullname (v_author r) = option_map fullname (v_author r') ->
  option_map fullname (v_committer r) = option_map fullname (v_committer r') ->
  v_date r = v_date r' -> v_committer_date r = v_committer_date r' ->
  effective_extra r = effective_extra r' ->
  rev_manifest r = rev_manifest r'.
Proof. exact revision_irrelevant_fields. Qed.
Print Assumptions C03_irrelevant_fields.

(* extra headers given as the attribute or inside legacy metadata: same
   manifest; after construction the attribute holds them, the metadata does not *)
Theorem C03_legacy_extra_headers : forall r l,
  v_extra_headers r = [] -> v_meta_extra r = Some l ->
  rev_manifest (post_init r) = rev_manifest r /\
  v_extra_headers (post_init r) = l /\ v_meta_extra (post_init r) = None.
Proof. exact legacy_extra_headers_same. Qed.
Print Assumptions C03_legacy_extra_headers.
Theorem C03_post_init_keeps_manifest : forall r, rev_manifest (post_init r) = rev_manifest r.
Proof. exact post_init_manifest. Qed.
Print Assumptions C03_post_init_keeps_manifest.

(* the constructor accepts exactly (date => author) and (committer_date => committer) *)
Theorem C03_presence_matrix : forall r,
  revision_valid r = true <->
  ((v_date r <> None -> v_author r <> None) /\ (v_committer_date r <> None -> v_committer r <> None)).
Proof. exact revision_presence. Qed.
Print Assumptions C03_presence_matrix.

Theorem C03_satisfiable : revision_valid ex_revision = true /\ wf_extra (effective_extra ex_revision) = true.
Proof. exact ex_revision_ok. Qed.
Print Assumptions C03_satisfiable.

(* a verbatim raw manifest (objects too corrupt for the data model) takes precedence for the id,
   whatever its bytes - the empty byte string included; the commit object of the fields
   (rev_manifest) never reads it *)
Theorem C03_raw_manifest_precedence : forall (H : bytes -> bytes) r m,
  v_raw_manifest r = Some m -> rev_compute_hash H r = H m.
Proof. exact rev_raw_manifest_precedence. Qed.
Print Assumptions C03_raw_manifest_precedence.

(* extra headers given BOTH as the attribute and inside legacy metadata: the attribute decides the
   manifest, and construction leaves the object - metadata key included - as it is *)
Theorem C03_attribute_wins : forall r, v_extra_headers r <> [] ->
  effective_extra r = v_extra_headers r /\ post_init r = r.
Proof. exact extra_attribute_wins. Qed.
Print Assumptions C03_attribute_wins.

(* ---- cross-model consistency C03 x C16 (proofs/CrossModelDates.v).  The author
   and committer lines are Rel.format_author = fullname followed by C16's
   Time.author_date_part, whose date text C16_format_date_exact characterises.
   For every revision with an author and a date whose microseconds are in
   [0, 10^6) (what Timestamp accepts: C16_range_rejected), the "author" header
   of the manifest - the one the independent commit parser returns - is EXACTLY
       fullname SP txt SP offset_bytes,    txt = Time.format_date (ts x),
   where Time.parse_date reads (seconds, microseconds) back from txt; txt is the
   decimal of the seconds when microseconds = 0, else that decimal, ".", and
   the 6-digit zero-padded microseconds without their trailing zeros; txt
   contains no space, so when the offset bytes contain none either the
   independent reader [parse_author_line] (split at the last two spaces, then
   parse_date) recovers fullname, (seconds, microseconds) and the offset bytes
   from the line.  The same for committer / committer_date
   ([date_line_exact fn x line] is, by definition, the conjunction spelled out
   for the author with fn for the fullname); without a date the line is the
   fullname alone. *)
From Coq Require Import ZArith Bool.
From SWH.lib Require Dec DecPad.
From SWH.proofs Require Import CrossModelDates.

Theorem C03_author_date_exact : forall (r : revision),
  (forall a x, v_author r = Some a -> v_date r = Some x ->
     (0 <= microseconds (ts x) < 1000000)%Z ->
     exists line,
       In (bs "author", line) (rev_headers r) /\
       (wf_extra (effective_extra r) = true ->
          option_map c_author (parse_commit (rev_manifest r)) = Some (Some line)) /\
       let s := seconds (ts x) in
       let us := microseconds (ts x) in
       let txt := format_date (ts x) in
       line = fullname a ++ [SP] ++ txt ++ [SP] ++ offset_bytes x /\
       parse_date txt = Some (s, us) /\
       (us = 0%Z -> txt = Dec.dec_Z s) /\
       (us <> 0%Z -> exists frac,
           txt = Dec.dec_Z s ++ [DOT] ++ frac /\ frac <> [] /\ forallb Dec.is_digit frac = true /\
           last frac 0%N <> ZERO /\ exists k, frac ++ repeat ZERO k = Dec.dec_pad 6 (Z.to_N us)) /\
       ~ In SP txt /\
       (~ In SP (offset_bytes x) -> parse_author_line line = Some (fullname a, (s, us), offset_bytes x))) /\
  (forall c y, v_committer r = Some c -> v_committer_date r = Some y ->
     (0 <= microseconds (ts y) < 1000000)%Z ->
     exists line,
       In (bs "committer", line) (rev_headers r) /\
       (wf_extra (effective_extra r) = true ->
          option_map c_committer (parse_commit (rev_manifest r)) = Some (Some line)) /\
       date_line_exact (fullname c) y line) /\
  (forall a, v_author r = Some a -> v_date r = None -> In (bs "author", fullname a) (rev_headers r)) /\
  (forall c, v_committer r = Some c -> v_committer_date r = None -> In (bs "committer", fullname c) (rev_headers r)).
Proof. exact rev_author_date_exact. Qed.
Print Assumptions C03_author_date_exact.
