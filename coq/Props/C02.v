(* C02 - Directory ids are git tree ids, order-free and collision-free by
   construction.  Property theorems only. *)
From Coq Require Import List NArith Permutation Sorted.
From SWH.lib Require Import Bytes Hex Order StableSort GitHeader.
From SWH.model Require Import Dir.
From SWH.proofs Require Import DirProofs.
From SWH Require Import Generated.
Import ListNotations.

(* The manifest (hence the id, for every hash function) does not depend on the
   order in which the entries were supplied. *)
Theorem C02_order_free : forall es es',
  valid_dir es = true -> Permutation es es' -> dir_manifest es = dir_manifest es'.
Proof. exact dir_manifest_order_free. Qed.
Print Assumptions C02_order_free.

(* The manifest is git's tree object: entries sorted with git's own
   base_name_compare rule (transcribed independently in Dir.v: a directory name
   compares as if followed by '/'), each encoded "<octal mode> <name>\0<id>". *)
Theorem C02_is_git_tree : forall es, WfNames es -> dir_manifest es = git_tree_object es.
Proof. exact dir_manifest_is_git_tree. Qed.
Print Assumptions C02_is_git_tree.

(* ... and the emitted order is STRICTLY increasing for git's comparison, for
   names that are prefixes of each other and bytes below/above '/' alike. *)
Theorem C02_git_order : forall es, Valid es -> WfNames es ->
  StronglySorted git_lt (sort entry_leb es).
Proof. exact sorted_entries_git_strict. Qed.
Print Assumptions C02_git_order.

(* Modes are written in git's octal form: parse(oct n) = n, no leading zero
   (that the five DentryPerms of the source print as git's five modes is part of C06). *)
Theorem C02_mode_octal : forall n, parse_oct (oct n) = Some n.
Proof. exact parse_oct_oct. Qed.
Print Assumptions C02_mode_octal.
Theorem C02_mode_no_leading_zero : forall n, n <> 0%N -> hd 0%N (oct n) <> 48%N.
Proof. exact oct_no_leading_zero. Qed.
Print Assumptions C02_mode_no_leading_zero.

(* An independent decoder recovers exactly the (mode, name, target) triples,
   in sorted order, from the manifest ... *)
Theorem C02_decode : forall es, Decodable es ->
  decode_tree_object (dir_manifest es) = Some (map triple_of (sort entry_leb es)).
Proof. exact decode_dir_manifest. Qed.
Print Assumptions C02_decode.

(* ... so two entry sets with the same manifest are the same entry set. *)
Theorem C02_manifest_injective : forall es es', Decodable es -> Decodable es' ->
  dir_manifest es = dir_manifest es' -> Permutation (map triple_of es) (map triple_of es').
Proof. exact dir_manifest_injective. Qed.
Print Assumptions C02_manifest_injective.

(* ... and, the other way round, entry sets whose (mode, name, target) triples differ
   (one target or mode changed, two targets swapped, an entry renamed, dropped or
   added) never share a manifest. *)
Theorem C02_distinct_sets_distinct_manifests : forall es es', Decodable es -> Decodable es' ->
  ~ Permutation (map triple_of es) (map triple_of es') -> dir_manifest es <> dir_manifest es'.
Proof. exact dir_manifest_separates. Qed.
Print Assumptions C02_distinct_sets_distinct_manifests.

(* Nothing but the entry set influences the id (for every hash function H). *)
Theorem C02_only_entries : forall (H : bytes -> bytes) d d',
  d_raw_manifest d = None -> d_raw_manifest d' = None ->
  valid_dir (d_entries d) = true -> Permutation (d_entries d) (d_entries d') ->
  dir_compute_hash H d = dir_compute_hash H d'.
Proof. exact dir_id_only_entries. Qed.
Print Assumptions C02_only_entries.

(* The one documented exception: a recorded raw_manifest (b"" included) replaces the
   entries in compute_hash; raw_manifest=None given explicitly is the default. *)
Theorem C02_raw_manifest_overrides : forall (H : bytes -> bytes) d m,
  d_raw_manifest d = Some m -> dir_compute_hash H d = H m.
Proof. exact dir_raw_manifest_wins. Qed.
Print Assumptions C02_raw_manifest_overrides.
Theorem C02_no_raw_manifest_is_default : forall (H : bytes -> bytes) es,
  dir_compute_hash H {| d_entries := es; d_raw_manifest := None |} = dir_id H es.
Proof. exact dir_no_raw_is_dir_id. Qed.
Print Assumptions C02_no_raw_manifest_is_default.

(* The boolean validator of the model is the stated domain. *)
Theorem C02_valid_iff : forall es, valid_dir es = true <-> Valid es.
Proof. exact valid_dir_Valid. Qed.
Print Assumptions C02_valid_iff.

(* Non-vacuity: a directory 'a' next to files 'a.b', 'a-' and a revision 'a0'
   meets every hypothesis, and sorts as git does: a-  a.b  a/  a0. *)
Theorem C02_satisfiable : valid_dir ex_entries = true /\ WfNames ex_entries /\ Decodable ex_entries /\
  map e_name (sort entry_leb ex_entries) = [bs "a-"; bs "a.b"; bs "a"; bs "a0"].
Proof. exact ex_entries_ok. Qed.
Print Assumptions C02_satisfiable.
