(* C09 - SWHID parsing accepts exactly the documented language and fails only
   cleanly.  Property theorems only: each is closed by `exact` of a lemma of
   proofs/Swhid*Proofs.v, with Print Assumptions beneath it.

   parse_core / parse_ext / parse_q model CoreSWHID / ExtendedSWHID /
   QualifiedSWHID.from_string (coq/model/Swhid.v); their result type is
   Ok value | Err e with e in {ValidationError, ValueError, TypeError,
   AssertionError}: every stdlib call that can raise (int(), bytes.fromhex,
   str.encode, the enum converters, tuple unpacking, the ** call) is given its
   raising condition in the model.  lang_core / lang_ext / lang_q are the
   recogniser written from the property statement and the BNF.  [lim] is the
   interpreter's int<->str digit limit (0 = none). *)
From Coq Require Import List NArith ZArith.
From SWH.lib Require Import Bytes Dec Hex Utf8 Percent.
From SWH Require Import Generated.
From SWH.model Require Import Swhid.
From SWH.proofs Require Import SwhidTables SwhidLib PercentProofs SwhidProofs SwhidParseProofs SwhidLinesProofs
  SwhidQProofs SwhidLangProofs SwhidProps.
From SWH.proofs Require SwhidExamples.
Import ListNotations.
Open Scope N_scope.

(* For every string and each class, parsing returns a value or fails with the
   library's ValidationError - no other error is reachable. *)
Theorem C09_total : forall (lim : N) (s : text),
  ((exists c, parse_core s = Ok c) \/ parse_core s = Err EValidation) /\
  ((exists c, parse_ext s = Ok c) \/ parse_ext s = Err EValidation) /\
  ((exists v, parse_q lim s = Ok v) \/ parse_q lim s = Err EValidation).
Proof. exact P_C09_total. Qed.
Print Assumptions C09_total.

(* Nothing outside the documented language is ever accepted (no hypothesis). *)
Theorem C09_accepts_sound : forall (lim : N) (s : text),
  ((exists c, parse_core s = Ok c) -> lang_core s = true) /\
  ((exists c, parse_ext s = Ok c) -> lang_ext s = true) /\
  ((exists v, parse_q lim s = Ok v) -> lang_q s = true).
Proof. exact P_C09_accepts_sound. Qed.
Print Assumptions C09_accepts_sound.

(* A string is accepted exactly when it is in the documented language.  For
   the qualified class the equivalence carries the interpreter limit: no run
   of more than lim consecutive digits in the string (within_limit); without
   it see C09_long_number_refuted. *)
Theorem C09_accepts_iff : forall (lim : N) (s : text),
  ((exists c, parse_core s = Ok c) <-> lang_core s = true) /\
  ((exists c, parse_ext s = Ok c) <-> lang_ext s = true) /\
  (within_limit lim s = true -> ((exists v, parse_q lim s = Ok v) <-> lang_q s = true)).
Proof. exact P_C09_accepts_iff. Qed.
Print Assumptions C09_accepts_iff.

(* An accepted string re-prints (no exception) to a string that parses to an
   equal value. *)
Theorem C09_reprint : forall (lim : N) (s : text) (v : qualified), parse_q lim s = Ok v ->
  exists s', print_q lim v = Ok s' /\ parse_q lim s' = Ok v.
Proof. exact reprint. Qed.
Print Assumptions C09_reprint.

(* On a qualifier-free string (no ';') QualifiedSWHID does exactly what
   CoreSWHID does (same value with no qualifiers, or both fail); Extended
   agrees with Core whenever the type is a core type. *)
Theorem C09_classes_agree : forall (lim : N) (s : text),
  (~ In 59 s ->
   parse_q lim s = match parse_core s with
                   | Ok c => Ok (mkQ (c_ty c) (c_oid c) None None None None None)
                   | Err e => Err e
                   end) /\
  (forall c, parse_core s = Ok c -> parse_ext s = Ok c) /\
  (forall c, parse_ext s = Ok c -> In (c_ty c) SWHID_TYPES -> parse_core s = Ok c).
Proof. exact P_C09_classes_agree. Qed.
Print Assumptions C09_classes_agree.

(* KNOWN FINDING int-max-str-digits: with the limit at 3 digits, `;lines=1000`
   is in the language, is not within_limit, and is rejected; with the limit
   at 4 it is accepted.  Real interpreter: 4300 / a 4301-digit number. *)
Theorem C09_long_number_refuted :
  lang_q (zero_id ++ bs ";lines=1000") = true /\ parse_q 3 (zero_id ++ bs ";lines=1000") = Err EValidation /\
  within_limit 3 (zero_id ++ bs ";lines=1000") = false /\
  exists v, parse_q 4 (zero_id ++ bs ";lines=1000") = Ok v.
Proof. exact long_number_refuted. Qed.
Print Assumptions C09_long_number_refuted.

(* The code before commit 31ea1eb (int() on the raw text, kept as the mutant
   parse_q_old): `;lines=+1` is outside the language and was accepted. *)
Theorem C09_lines_over_acceptance_refuted_old :
  lang_q (zero_id ++ bs ";lines=+1") = false /\
  (exists v, parse_q_old 4300 (zero_id ++ bs ";lines=+1") = Ok v /\ q_lines v = Some (1%Z, None)) /\
  parse_q 4300 (zero_id ++ bs ";lines=+1") = Err EValidation.
Proof. exact lines_over_acceptance_refuted_old. Qed.
Print Assumptions C09_lines_over_acceptance_refuted_old.

(* The code before commit 9a0ba15 (no whitespace escaping, kept as the mutant
   print_q_old): `;origin=a%20b` is accepted, its value re-printed to
   `;origin=a b`, which is rejected. *)
Theorem C09_reprint_refuted_old :
  exists v, parse_q 4300 (zero_id ++ bs ";origin=a%20b") = Ok v /\ q_origin v = Some (bs "a b") /\
            print_q_old 4300 v = Ok (zero_id ++ bs ";origin=a b") /\
            parse_q 4300 (zero_id ++ bs ";origin=a b") = Err EValidation /\
            print_q 4300 v = Ok (zero_id ++ bs ";origin=a%20b").
Proof. exact reprint_refuted_old. Qed.
Print Assumptions C09_reprint_refuted_old.

(* Interpretation made visible: a lone surrogate in the path is rejected
   (cleanly) and lang_q excludes it; in the origin it is accepted. *)
Theorem C09_surrogate_path_rejected :
  parse_q 4300 (zero_id ++ bs ";path=" ++ [55296]) = Err EValidation /\
  lang_q (zero_id ++ bs ";path=" ++ [55296]) = false /\
  exists v, parse_q 4300 (zero_id ++ bs ";origin=" ++ [55296]) = Ok v.
Proof. exact surrogate_path_rejected. Qed.
Print Assumptions C09_surrogate_path_rejected.

(* Side conditions on the tables read from /repo (incl.: every accepted
   qualifier key is a keyword argument of the constructor - no TypeError). *)
Theorem C09_tables :
  re_head = S_swh1 /\ EXTENDED_SWHID_TYPES = DOC_EXT_TYPES /\
  same_set_b (enum_values OBJECT_TYPES) DOC_CORE_TYPES = true /\
  same_set_b (enum_values EXTENDED_OBJECT_TYPES) DOC_EXT_TYPES = true /\
  TY_SNAPSHOT = S_snp /\ ANCHOR_TYPES = DOC_ANCHOR_TYPES /\
  same_set_b SWHID_QUALIFIERS DOC_KEYS = true /\ FIELD_KEYS = DOC_KEYS /\
  subset_b SWHID_QUALIFIERS (map field_name FIELDS_QualifiedSWHID) = true /\
  SWHID_SEP = [58] /\ SWHID_CTXT_SEP = [59].
Proof. exact P_C09_tables. Qed.
Print Assumptions C09_tables.

(* Non-vacuity: a sentence with all five qualifiers is within the limit, in
   the language and accepted; duplicates with a malformed first value are in
   the language; ori is extended-only. *)
Theorem C09_satisfiable :
  within_limit 4300 ex_q_text = true /\ lang_q ex_q_text = true /\ parse_q 4300 ex_q_text = Ok ex_q /\
  lang_q (zero_id ++ bs ";lines=x;lines=3") = true /\
  lang_core zero_id = true /\ lang_ext (S_swh1 ++ S_ori ++ S_colon ++ zero_hex) = true /\
  lang_core (S_swh1 ++ S_ori ++ S_colon ++ zero_hex) = false.
Proof. exact c09_satisfiable. Qed.
Print Assumptions C09_satisfiable.
