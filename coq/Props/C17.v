(* C17 - Archive discovery returns exactly the objects the archive lacks.
   Property theorems only: each is closed by `exact` of a lemma proved in
   proofs/DiscoveryProofs.v, with Print Assumptions beneath it.

   Reading guide.  [contents], [skipped] are the ids of the given contents and
   skipped contents, [dirs] the given directories as (id, targets of the
   entries) - targets may be outside the set; [objects contents skipped dirs]
   lists all the ids.  [missing] is the archive.  [closed] = a directory the
   archive knows has only known entries among the given objects.  [pick] is
   the element every set.pop() of _mark_entries returns, [sampler] what every
   random.sample call returns; [sampler_ok] = the result has SAMPLE_SIZE
   distinct elements of the population (all random.sample guarantees).
   The directory relation need not be acyclic and entries need not be in the
   set: the proofs use neither. *)
From Coq Require Import List NArith Permutation.
From SWH.model Require Import Discovery.
From SWH.proofs Require Import DiscoveryProofs.
Import ListNotations.

(* For every set of objects with distinct ids, every closed archive, every
   positive SAMPLE_SIZE, every sampling sequence random.sample may produce and
   every pop order: filter_known_objects ends (no OutOfFuel, no KeyError),
   nothing is left undecided, and each of the three returned lists is the
   input list filtered by "the archive lacks it" - input order kept, no missing
   object dropped, no known object kept. *)
Theorem C17_exact :
  forall (sample_size : N) (sampler : sampler_oracle) (pick : pick_oracle) (missing : N -> bool)
         (contents skipped : list N) (dirs : list dirent),
  NoDup (objects contents skipped dirs) ->
  closed missing contents skipped dirs ->
  (0 < sample_size)%N ->
  sampler_ok sample_size sampler ->
  exists st,
    filter_known_objects sample_size sampler pick missing contents skipped dirs =
      DiscOk (filter missing contents) (filter missing skipped)
             (map fst (filter (fun p => missing (fst p)) dirs)) st
    /\ undecided st = [].
Proof. exact discovery_exact. Qed.
Print Assumptions C17_exact.

(* The same with NO hypothesis on the sampler oracle (this is what the
   correspondence check uses when it feeds the implementation's own draws to
   the model): the run never loops for ever and never raises; either some draw
   is one random.sample cannot produce (reported as DiscBadSample, with the
   offending round), or the result is exact and every object got exactly one
   callback with flag = "not missing". *)
Theorem C17_exact_any_sampler :
  forall (sample_size : N) (sampler : sampler_oracle) (pick : pick_oracle) (missing : N -> bool)
         (contents skipped : list N) (dirs : list dirent),
  NoDup (objects contents skipped dirs) ->
  closed missing contents skipped dirs ->
  (0 < sample_size)%N ->
  match filter_known_objects sample_size sampler pick missing contents skipped dirs with
  | DiscOk c s d st =>
      undecided st = [] /\
      c = filter missing contents /\ s = filter missing skipped /\
      d = map fst (filter (fun p => missing (fst p)) dirs) /\
      Permutation (events st) (map (fun o => (o, negb (missing o))) (objects contents skipped dirs))
  | DiscBadSample => exists r ud, NoDup ud /\ (sample_size < N.of_nat (length ud))%N /\
                                  sample_contract sample_size ud (sampler r ud) = false
  | DiscOutOfFuel | DiscKeyError => False
  end.
Proof. exact discovery_any_sampler. Qed.
Print Assumptions C17_exact_any_sampler.

(* Termination: in every state the loop can reach, with something still
   undecided, one more round (whatever is drawn in it) succeeds and leaves
   strictly fewer undecided objects. *)
Theorem C17_progress :
  forall sample_size sampler pick missing contents skipped dirs,
  closed missing contents skipped dirs ->
  (0 < sample_size)%N -> sampler_ok sample_size sampler ->
  forall r st, reachable sample_size sampler pick missing contents skipped dirs st ->
  undecided st <> [] ->
  exists st', round sample_size sampler pick missing contents skipped dirs r st = RoundOk st' /\
              length (undecided st') < length (undecided st).
Proof. exact discovery_progress. Qed.
Print Assumptions C17_progress.

(* Callbacks: the sequence of update_info_callback(obj, known) calls is a
   permutation of [(o, not missing o) | o in objects]: each object exactly once,
   with the right flag. *)
Theorem C17_callbacks :
  forall sample_size sampler pick missing contents skipped dirs,
  NoDup (objects contents skipped dirs) -> closed missing contents skipped dirs ->
  (0 < sample_size)%N -> sampler_ok sample_size sampler ->
  exists c s d st,
    filter_known_objects sample_size sampler pick missing contents skipped dirs = DiscOk c s d st /\
    Permutation (events st) (map (fun o => (o, negb (missing o))) (objects contents skipped dirs)).
Proof. exact discovery_callbacks. Qed.
Print Assumptions C17_callbacks.

(* Non-vacuity: a 6-object DAG with a sub-directory shared by two roots, an
   entry outside the set and a partially known archive meets every hypothesis
   (and "take the first SAMPLE_SIZE" is an admissible sampler). *)
Theorem C17_satisfiable :
  exists contents skipped dirs missing sample_size sampler,
    NoDup (objects contents skipped dirs) /\ closed missing contents skipped dirs /\
    (0 < sample_size)%N /\ sampler_ok sample_size sampler /\
    length (objects contents skipped dirs) = 6 /\
    (exists d p1 p2 cs1 cs2, In d (dir_ids dirs) /\ p1 <> p2 /\ In (p1, cs1) dirs /\ In (p2, cs2) dirs /\
                             In d cs1 /\ In d cs2) /\
    (exists p cs c, In (p, cs) dirs /\ In c cs /\ ~ In c (objects contents skipped dirs)) /\
    (exists o, In o (objects contents skipped dirs) /\ missing o = true) /\
    (exists o, In o (objects contents skipped dirs) /\ missing o = false) /\
    (exists r1 r2, r1 <> r2 /\ In r1 (dir_ids dirs) /\ In r2 (dir_ids dirs) /\
                   forall p cs, In (p, cs) dirs -> ~ In r1 cs /\ ~ In r2 cs).
Proof. exact hyps_satisfiable. Qed.
Print Assumptions C17_satisfiable.
