(* C11 - stub while the proofs are in progress *)
From SWH.model Require Import Frozen.
