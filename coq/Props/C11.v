(* C11 - Model values are immutable and behave as values (equality, hashing).
   Property theorems only: each is closed by `exact` of a lemma proved in
   proofs/Frozen*Proofs.v / FrozenMain.v, with Print Assumptions beneath it.

   Vocabulary (model/Frozen.v): a store of mutable dicts/lists addressed by
   handles; frozen instances are values [VObj cls fields]; an ImmutableDict is
   [VIDict h] (its private _data is cell h).  [construct New ...] is the code
   as it is now, [construct Old ...] the code before the fix of
   ImmutableDict.__init__.  [observe] = (content read through the object's
   handles, to_dict, hash key, hash(), id == compute_hash()).  [Hid] (the id
   function) and [Hpy] (Python's hash) are arbitrary functions. *)
From Coq Require Import List NArith Bool Arith Permutation.
From SWH.lib Require Import Bytes.
From SWH Require Import Generated.
From SWH.model Require Import Frozen.
From SWH.proofs Require Import FrozenProofs FrozenAliasProofs FrozenEqProofs FrozenMappingProofs FrozenReadProofs FrozenMain.
From SWH.proofs Require FrozenExamples.
Import ListNotations.
Local Open Scope nat_scope.

(* For every class (every attrs class of model.py, the SWHID classes, bare
   ImmutableDict), both construction routes, all argument values, every store,
   every set [hs] of caller-held containers and EVERY sequence of caller
   mutations (item assignment / deletion, clear, append, element assignment,
   pop) of the containers in [hs]: if no container of [hs] is nested inside an
   argument or given to an unvalidated field ([separated]: the containers of
   [hs] are arguments themselves or unrelated), the whole observation of the
   constructed object is unchanged. *)
Theorem C11_no_alias : forall (hs : list handle) (Hid : rval -> atom) (Hpy : rval -> N)
    g f s0 rt cls args o s1 ms,
  separated (S g) s0 hs rt cls args = true ->
  construct Hid New f rt cls s0 args = Ok (o, s1) ->
  Forall (fun m => In (mut_target m) hs) ms ->
  observe Hid Hpy g (apply_muts s1 ms) o = observe Hid Hpy g s1 o.
Proof. exact no_alias. Qed.
Print Assumptions C11_no_alias.

(* the instance of the property text: [hs] = the containers passed as
   arguments to the constructor *)
Theorem C11_no_alias_args : forall Hid Hpy g f s0 cls args o s1 ms,
  separated (S g) s0 (arg_handles args) Ctor cls args = true ->
  construct Hid New f Ctor cls s0 args = Ok (o, s1) ->
  Forall (fun m => In (mut_target m) (arg_handles args)) ms ->
  observe Hid Hpy g (apply_muts s1 ms) o = observe Hid Hpy g s1 o.
Proof. exact no_alias_args. Qed.
Print Assumptions C11_no_alias_args.

(* from_dict(d): [hs] may contain d and every container directly under d *)
Theorem C11_no_alias_from_dict : forall Hid Hpy hs g f s0 cls d args o s1 ms,
  from_dict_reads s0 cls d = Some args ->
  separated (S g) s0 hs FromDict cls args = true ->
  from_dict Hid New f cls s0 d = Ok (o, s1) ->
  Forall (fun m => In (mut_target m) hs) ms ->
  observe Hid Hpy g (apply_muts s1 ms) o = observe Hid Hpy g s1 o.
Proof. exact no_alias_from_dict. Qed.
Print Assumptions C11_no_alias_from_dict.

(* every mutation channel on the object itself (setattr, delattr, item
   assignment, item deletion) is answered by an error; store and object are
   unchanged *)
Theorem C11_no_write_op : forall s o c,
  let '(e, s', o') := obj_mutate s o c in s' = s /\ o' = o.
Proof. exact no_write_op. Qed.
Print Assumptions C11_no_write_op.

(* objects that compare equal have equal hashes, for every class of the
   generated table, including the classes with eq=False fields *)
Theorem C11_eq_hash : forall (Hpy : rval -> N) g s x y a b,
  r_wf (resolve g s x) = true -> r_wf (resolve g s y) = true ->
  obj_eqb g s x y = true ->
  obj_hash Hpy (resolve g s x) = Ok a -> obj_hash Hpy (resolve g s y) = Ok b ->
  a = b.
Proof. exact eq_hash. Qed.
Print Assumptions C11_eq_hash.

(* side condition used by C11_eq_hash, evaluated on the tables generated from
   /repo: in every class the eq fields are exactly the hash fields *)
Theorem C11_eq_hash_fields_table : eq_hash_coherent ALL_CLASSES = true.
Proof. exact eq_hash_fields_table. Qed.
Print Assumptions C11_eq_hash_fields_table.

(* ... and it is necessary: a table with a compared-but-not-hashed field has
   unequal objects... (here: a hashed-not-compared direction is symmetrical) *)
Theorem C11_eq_hash_needs_table :
  eq_hash_coherent BAD_TABLE = false /\
  exists x y, r_eqb BAD_TABLE x y = false /\ norm BAD_TABLE x = norm BAD_TABLE y /\ norm BAD_TABLE x <> None.
Proof. exact eq_hash_needs_table. Qed.
Print Assumptions C11_eq_hash_needs_table.

(* the model's table of container-accepting fields agrees with the generated
   tables (converter kinds only on fields that have a converter in the source) *)
Theorem C11_arg_kinds_table : arg_kinds_coherent ALL_CLASSES = true.
Proof. exact arg_kinds_table. Qed.
Print Assumptions C11_arg_kinds_table.

(* two objects with the same content are equal and hash alike, whatever
   private cells they hold (objects built from the same arguments) *)
Theorem C11_same_args_equal : forall (Hpy : rval -> N) g s x y,
  resolve g s x = resolve g s y -> r_wf (resolve g s x) = true ->
  obj_eqb g s x y = true /\ obj_hash Hpy (resolve g s x) = obj_hash Hpy (resolve g s y).
Proof. exact same_content_equal. Qed.
Print Assumptions C11_same_args_equal.

Theorem C11_same_args_equal_example :
  match run_twins ex_Hid New 6 (bs "Snapshot") ex_store ex_args ex_args with
  | Ok (e12, e21, Some k1, Some k2) => e12 = true /\ e21 = true /\ k1 = k2
  | _ => False
  end.
Proof. exact same_args_equal_example. Qed.
Print Assumptions C11_same_args_equal_example.

(* frozen mappings compare and hash independently of insertion order *)
Theorem C11_idict_order_free : forall items items',
  NoDup (map fst items) -> Permutation items items' ->
  forallb (fun kv => r_wf (snd kv)) items = true ->
  r_eqb ALL_CLASSES (RMap false items) (RMap false items') = true /\
  norm ALL_CLASSES (RMap false items) = norm ALL_CLASSES (RMap false items').
Proof. exact (idict_order_free ALL_CLASSES). Qed.
Print Assumptions C11_idict_order_free.

Theorem C11_idict_order_free_satisfiable :
  let items := [(Ak "b", RAtom (Ak "1")); (Ak "a", RSeq false [RNone]); (Ak "c", RMap false [])] in
  let items' := [(Ak "c", RMap false []); (Ak "b", RAtom (Ak "1")); (Ak "a", RSeq false [RNone])] in
  NoDup (map fst items) /\ Permutation items items' /\ items <> items' /\
  forallb (fun kv => r_wf (snd kv)) items = true /\ norm ALL_CLASSES (RMap false items) <> None.
Proof. exact idict_order_free_satisfiable. Qed.
Print Assumptions C11_idict_order_free_satisfiable.

(* the code BEFORE the fix: same hypotheses, the observation changes and the
   id goes stale (Snapshot(branches=d); d[k2] = v) *)
Theorem C11_no_alias_refuted_old :
  exists g f s0 cls args o s1 ms,
    separated (S g) s0 (arg_handles args) Ctor cls args = true /\
    construct ex_Hid Old f Ctor cls s0 args = Ok (o, s1) /\
    Forall (fun m => In (mut_target m) (arg_handles args)) ms /\
    observe ex_Hid ex_Hpy g (apply_muts s1 ms) o <> observe ex_Hid ex_Hpy g s1 o /\
    id_ok ex_Hid (resolve g s1 o) = true /\
    id_ok ex_Hid (resolve g (apply_muts s1 ms) o) = false.
Proof. exact no_alias_refuted_old. Qed.
Print Assumptions C11_no_alias_refuted_old.

(* idem for Release(metadata=d): changes with Old, unchanged with New *)
Theorem C11_no_alias_refuted_old_release :
  exists ms,
    separated 6 ex_store [0] Ctor (bs "Release") (rel_args (VRef 0) VNone EMPTY_BYTES) = true /\
    match construct ex_Hid Old 5 Ctor (bs "Release") ex_store (rel_args (VRef 0) VNone EMPTY_BYTES) with
    | Ok (o, s1) => observe ex_Hid ex_Hpy 5 (apply_muts s1 ms) o <> observe ex_Hid ex_Hpy 5 s1 o
    | Err _ => False
    end /\
    match construct ex_Hid New 5 Ctor (bs "Release") ex_store (rel_args (VRef 0) VNone EMPTY_BYTES) with
    | Ok (o, s1) => observe ex_Hid ex_Hpy 5 (apply_muts s1 ms) o = observe ex_Hid ex_Hpy 5 s1 o
    | Err _ => False
    end.
Proof. exact no_alias_refuted_old_release. Qed.
Print Assumptions C11_no_alias_refuted_old_release.

(* current code, ill-typed argument: a list given as raw_manifest (a field
   with neither validator nor converter) is kept as is *)
Theorem C11_no_alias_refuted_unchecked_field :
  exists s0 args ms,
    separated 6 s0 (arg_handles args) Ctor (bs "Release") args = false /\
    Forall (fun m => In (mut_target m) (arg_handles args)) ms /\
    match construct ex_Hid New 5 Ctor (bs "Release") s0 args with
    | Ok (o, s1) => observe ex_Hid ex_Hpy 5 (apply_muts s1 ms) o <> observe ex_Hid ex_Hpy 5 s1 o
    | Err _ => False
    end.
Proof. exact no_alias_refuted_unchecked_field. Qed.
Print Assumptions C11_no_alias_refuted_unchecked_field.

(* the stricter reading of DESIGN section 7 kept visible: a list nested in a
   metadata dict stays shared; mutating the dict itself changes nothing *)
Theorem C11_nested_shared_example :
  let s0 := [PyDict false [(Ak "a", VRef 1)]; PyList [A "x"]] in
  let args := rel_args (VRef 0) VNone EMPTY_BYTES in
  separated 6 s0 [1] Ctor (bs "Release") args = false /\
  separated 6 s0 [0] Ctor (bs "Release") args = true /\
  match construct ex_Hid New 5 Ctor (bs "Release") s0 args with
  | Ok (o, s1) =>
      observe ex_Hid ex_Hpy 5 (apply_muts s1 [MAppend 1 (A "y")]) o <> observe ex_Hid ex_Hpy 5 s1 o /\
      observe ex_Hid ex_Hpy 5 (apply_muts s1 [MSetItem 0 (Ak "b") (A "y"); MDelItem 0 (Ak "a")]) o = observe ex_Hid ex_Hpy 5 s1 o
  | Err _ => False
  end.
Proof. exact nested_shared_example. Qed.
Print Assumptions C11_nested_shared_example.

(* non-vacuity *)
Theorem C11_no_alias_satisfiable :
  exists g f s0 cls args o s1 ms,
    separated (S g) s0 (arg_handles args) Ctor cls args = true /\
    construct ex_Hid New f Ctor cls s0 args = Ok (o, s1) /\
    Forall (fun m => In (mut_target m) (arg_handles args)) ms /\
    ms <> [] /\ arg_handles args <> [] /\
    apply_muts s1 ms <> s1.
Proof. exact no_alias_satisfiable. Qed.
Print Assumptions C11_no_alias_satisfiable.

Theorem C11_eq_hash_satisfiable :
  let x := person "Ann" "a" in
  let y := person "Ann" "b" in
  x <> y /\ obj_eqb 5 [] x y = true /\
  (exists a, obj_hash (fun r => match r with RObj _ [RAtom l] => N.of_nat (length l) | _ => 0%N end) (resolve 5 [] x) = Ok a /\
             obj_hash (fun r => match r with RObj _ [RAtom l] => N.of_nat (length l) | _ => 0%N end) (resolve 5 [] y) = Ok a) /\
  obj_eqb 5 [] x (person "Bob" "a") = false.
Proof. exact eq_hash_satisfiable. Qed.
Print Assumptions C11_eq_hash_satisfiable.

(* A frozen mapping (more generally: any value) that exists never changes.
   For EVERY sequence of operations of the current code - constructor calls of
   any class by either route with any arguments (ImmutableDict(x) included,
   which shares the cell of an ImmutableDict argument), from_dict calls,
   copy_pop calls on any ImmutableDict (also the one Revision.__attrs_post_init__
   makes on the caller's frozen metadata), mutations of containers the caller
   owns - the whole observation of [v] is the same afterwards, provided that
   reading [v] does not go through a container that the script mutates
   (for v = VIDict h: the caller does not hold h, and no mutated container is
   nested in the mapping). *)
Theorem C11_frozen_mapping_never_changes : forall (Hid : rval -> atom) (Hpy : rval -> N) g f ops s v,
  safe g s (op_mut_targets ops) v = true ->
  observe Hid Hpy g (run_ops Hid New f s ops) v = observe Hid Hpy g s v.
Proof. exact frozen_mapping_never_changes. Qed.
Print Assumptions C11_frozen_mapping_never_changes.

(* no hypothesis at all on what is nested where: the cell of a frozen mapping
   is never written (literally the same items), as long as the caller's own
   mutations do not name that very cell *)
Theorem C11_frozen_cell_never_written : forall (Hid : rval -> atom) f ops s h c,
  lookup s h = Some c -> ~ In h (op_mut_targets ops) ->
  lookup (run_ops Hid New f s ops) h = Some c.
Proof. exact frozen_cell_never_written. Qed.
Print Assumptions C11_frozen_cell_never_written.

Theorem C11_frozen_mapping_satisfiable :
  safe 6 cp_store (op_mut_targets cp_ops) (VIDict 0) = true /\
  run_ops ex_Hid New 6 cp_store cp_ops <> cp_store /\
  length (run_ops ex_Hid New 6 cp_store cp_ops) = 7 /\
  observe ex_Hid ex_Hpy 6 (run_ops ex_Hid New 6 cp_store cp_ops) (VIDict 0) = observe ex_Hid ex_Hpy 6 cp_store (VIDict 0).
Proof. exact frozen_mapping_satisfiable. Qed.
Print Assumptions C11_frozen_mapping_satisfiable.

(* the mutant copy_pop that pops from a new ImmutableDict sharing the receiver's
   _data: (a) copy_pop(present key) changes the receiver, (b) so does building a
   Revision from an already frozen metadata holding "extra_headers", and two
   Revisions built from the same arguments differ; the current code: neither *)
Theorem C11_copy_pop_refuted_inplace :
  safe 6 cp_store (op_mut_targets [OCopyPop (VIDict 0) (Ak "a")]) (VIDict 0) = true /\
  observe ex_Hid ex_Hpy 6 (run_ops ex_Hid PopInPlace 6 cp_store [OCopyPop (VIDict 0) (Ak "a")]) (VIDict 0)
    <> observe ex_Hid ex_Hpy 6 cp_store (VIDict 0) /\
  observe ex_Hid ex_Hpy 6 (run_ops ex_Hid New 6 cp_store [OCopyPop (VIDict 0) (Ak "a")]) (VIDict 0)
    = observe ex_Hid ex_Hpy 6 cp_store (VIDict 0) /\
  observe ex_Hid ex_Hpy 6 (run_ops ex_Hid PopInPlace 6 cp_store [OConstruct Ctor (bs "Revision") (rev_args (VIDict 0))]) (VIDict 0)
    <> observe ex_Hid ex_Hpy 6 cp_store (VIDict 0) /\
  match run_twins ex_Hid PopInPlace 6 (bs "Revision") cp_store (rev_args (VIDict 0)) (rev_args (VIDict 0)) with
  | Ok (e12, e21, _, _) => e12 = false /\ e21 = false
  | Err _ => False
  end /\
  match run_twins ex_Hid New 6 (bs "Revision") cp_store (rev_args (VIDict 0)) (rev_args (VIDict 0)) with
  | Ok (e12, e21, Some k1, Some k2) => e12 = true /\ e21 = true /\ k1 = k2
  | _ => False
  end.
Proof. exact copy_pop_refuted_inplace. Qed.
Print Assumptions C11_copy_pop_refuted_inplace.

(* READ OPERATIONS ARE PURE.  [plain s v]: if v is an ImmutableDict, its stored
   dict is a plain dict (every ImmutableDict made by the current code is; a
   dict / list / tuple / atom argument satisfies it trivially, WHATEVER dict
   subclass a dict argument is an instance of).  After building an object of
   any class by the constructor from any such arguments, no sequence of read
   operations (k in m, m.get(k), m[k] - on the object or on any of its fields -
   iteration, len, items(), to_dict(), hash(), ==) changes the store. *)
Theorem C11_reads_are_pure : forall (Hid : rval -> atom) f rt cls s0 args o s1 reads,
  Forall (plain s0) args ->
  construct Hid New f rt cls s0 args = Ok (o, s1) ->
  run_reads s1 o reads = s1.
Proof. exact reads_are_pure. Qed.
Print Assumptions C11_reads_are_pure.

Theorem C11_reads_are_pure_from_dict : forall (Hid : rval -> atom) f cls s0 d args o s1 reads,
  from_dict_reads s0 cls d = Some args -> Forall (plain s0) args ->
  from_dict Hid New f cls s0 d = Ok (o, s1) ->
  run_reads s1 o reads = s1.
Proof. exact reads_are_pure_from_dict. Qed.
Print Assumptions C11_reads_are_pure_from_dict.

(* the mapping returned by copy_pop is plain as well *)
Theorem C11_reads_are_pure_copy_pop : forall f s v k x md s' reads,
  copy_pop New f s v k = Ok (x, md, s') -> run_reads s' md reads = s'.
Proof. exact reads_are_pure_copy_pop. Qed.
Print Assumptions C11_reads_are_pure_copy_pop.

(* one read, stated on the store: a keyed lookup through a plain mapping *)
Theorem C11_read_pure_step : forall s v fld r,
  (forall t, read_target v fld = Some t -> plain s t) -> fst (do_read s v fld r) = s.
Proof. exact do_read_pure. Qed.
Print Assumptions C11_read_pure_step.

Theorem C11_reads_are_pure_satisfiable :
  Forall (plain dd_store) ex_args /\
  match construct ex_Hid New 5 Ctor (bs "Snapshot") dd_store ex_args with
  | Ok (o, s1) => run_reads s1 o dd_reads = s1 /\ length s1 = 2 /\
                  do_read s1 o (Some (bs "branches")) (RdGetItem (Ak "missing")) = (s1, Some EKeyError) /\
                  do_read s1 o (Some (bs "branches")) (RdGetItem (Ak "k1")) = (s1, None)
  | Err _ => False
  end.
Proof. exact reads_are_pure_satisfiable. Qed.
Print Assumptions C11_reads_are_pure_satisfiable.

(* the mutant ImmutableDict.__init__ that copies with data.copy() (keeps the
   class of a dict subclass): Snapshot(branches=<defaultdict>) then
   `k in snapshot.branches` for a missing k inserts k - store, content, hash key
   change, the id goes stale; idem ImmutableDict(<defaultdict>).get(k).  The
   current code on the same input: nothing changes. *)
Theorem C11_reads_pure_refuted_subclass_copy :
  Forall (plain dd_store) ex_args /\
  match construct ex_Hid SubclassCopy 5 Ctor (bs "Snapshot") dd_store ex_args with
  | Ok (o, s1) =>
      let s2 := run_reads s1 o [(Some (bs "branches"), RdContains (Ak "missing"))] in
      s2 <> s1 /\ observe ex_Hid ex_Hpy 5 s2 o <> observe ex_Hid ex_Hpy 5 s1 o /\
      id_ok ex_Hid (resolve 5 s1 o) = true /\ id_ok ex_Hid (resolve 5 s2 o) = false
  | Err _ => False
  end /\
  match construct ex_Hid SubclassCopy 5 Ctor IDICT dd_store [VRef 0] with
  | Ok (o, s1) =>
      let s2 := run_reads s1 o [(None, RdGet (Ak "missing"))] in
      observe ex_Hid ex_Hpy 5 s2 o <> observe ex_Hid ex_Hpy 5 s1 o
  | Err _ => False
  end /\
  match construct ex_Hid New 5 Ctor (bs "Snapshot") dd_store ex_args with
  | Ok (o, s1) => run_reads s1 o [(Some (bs "branches"), RdContains (Ak "missing"))] = s1
  | Err _ => False
  end.
Proof. exact reads_pure_refuted_subclass_copy. Qed.
Print Assumptions C11_reads_pure_refuted_subclass_copy.

(* TRANSPORT (pickle / copy / deepcopy, also into another process): the identity
   on the model's values; the hash is a function of the abstract content only.
   After any number of transport steps an object is observed exactly as a fresh
   twin with the same content, hashes like it and is equal to it.  (That the
   implementation's pickle / copy round trips ARE the identity on the observed
   behaviour, across processes with different string-hash seeds, is what the
   transport cases of the correspondence check.) *)
Theorem C11_transport_hash : forall (Hid : rval -> atom) (Hpy : rval -> N) g s n v twin,
  resolve g s v = resolve g s twin -> r_wf (resolve g s twin) = true ->
  observe Hid Hpy g s (transports n v) = observe Hid Hpy g s twin /\
  obj_hash Hpy (resolve g s (transports n v)) = obj_hash Hpy (resolve g s twin) /\
  obj_eqb g s (transports n v) twin = true.
Proof. exact transport_hash. Qed.
Print Assumptions C11_transport_hash.

(* ACCESSORS are pure functions of the abstract content returning fresh
   values: calling one changes nothing in any store, and its value is
   determined by the content (so it is the same for a twin, and the same after
   the caller has mutated what an earlier call returned: a returned [rval]
   holds no handle through which the store could be written). *)
Theorem C11_accessors_pure : forall s v fld r, content_read r = true -> do_read s v fld r = (s, None).
Proof. exact accessors_pure. Qed.
Print Assumptions C11_accessors_pure.

Theorem C11_accessor_value_function_of_content : forall g s s' x y,
  resolve g s x = resolve g s' y ->
  to_dict ALL_CLASSES (resolve g s x) = to_dict ALL_CLASSES (resolve g s' y) /\
  norm ALL_CLASSES (resolve g s x) = norm ALL_CLASSES (resolve g s' y).
Proof. exact accessor_value_function_of_content. Qed.
Print Assumptions C11_accessor_value_function_of_content.
