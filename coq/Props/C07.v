(* C07 - An object's id is the hash of its manifest, and integrity checking is
   exact.  Property theorems only: each is closed by `exact` of a lemma proved
   in proofs/IdentProofs.v, with Print Assumptions beneath it.

   H is the hash (_compute_hash_from_manifest = SHA-1 in the code).  It is
   universally quantified in every theorem and NOTHING is assumed about it.
   An object [o : hobj] is (kind, manifest of the attributes, raw manifest, id);
   [h_attrs o = Some a] says that the class's own manifest function
   (git_objects.<kind>_git_object / url.encode()) returns a - it returns
   nothing (TypeError) only for a Release whose target is None. *)
From Coq Require Import List NArith Bool Arith.
From SWH.lib Require Import Bytes.
From SWH Require Import Generated.
From SWH.model Require Import Ident.
From SWH.model Require Dir Snap Rel Rev.
From SWH.proofs Require Import IdentProofs.
From SWH.proofs Require IdentExamples.
Import ListNotations.

(* Built without an explicit id (id = b"" on entry of __attrs_post_init__):
   the object carries H(manifest) - of the stored raw manifest when one is
   given, of the attributes' manifest otherwise -; nothing else changes;
   recomputing the hash later gives the same value; running the
   initialisation again changes nothing. *)
Theorem C07_init_id : forall (H : bytes -> bytes) (o : hobj) (a : bytes),
  h_id o = [] -> h_attrs o = Some a ->
  exists o', init H o = Ok o'
    /\ h_kind o' = h_kind o /\ h_attrs o' = h_attrs o /\ h_raw o' = h_raw o
    /\ h_id o' = H (manifest_of a (h_raw o))
    /\ compute_hash H o' = Ok (h_id o')
    /\ init H o' = Ok o'.
Proof. exact init_id. Qed.
Print Assumptions C07_init_id.

(* The same through the constructor call <Class>(..., [raw_manifest=r]) without
   id, for every kind (a raw_manifest keyword only for the classes that have
   the field); the object built is well formed. *)
Theorem C07_construct_id : forall (H : bytes -> bytes) (k : kind) (a : bytes) (raw_arg : option (option bytes)),
  raw_arg_allowed k raw_arg ->
  exists o', construct H k (Some a) raw_arg [] = Ok o'
    /\ h_kind o' = k /\ h_attrs o' = Some a /\ h_raw o' = raw_of_arg raw_arg
    /\ h_id o' = H (manifest_of a (raw_of_arg raw_arg))
    /\ compute_hash H o' = Ok (h_id o')
    /\ wf o'.
Proof. exact construct_id. Qed.
Print Assumptions C07_construct_id.

(* An explicit (non-empty) id is kept as given - whatever it is. *)
Theorem C07_explicit_id_kept : forall (H : bytes -> bytes) (k : kind) (attrs : option bytes)
    (raw_arg : option (option bytes)) (i : bytes),
  raw_arg_allowed k raw_arg -> i <> [] ->
  construct H k attrs raw_arg i
  = Ok {| h_kind := k; h_attrs := attrs; h_raw := raw_of_arg raw_arg; h_id := i |}.
Proof. exact construct_explicit_id. Qed.
Print Assumptions C07_explicit_id_kept.

(* check() accepts an object if and only if its id equals the recomputed one
   and its raw manifest, if any, is not one that the attributes alone would
   reproduce. *)
Theorem C07_check_iff : forall (H : bytes -> bytes) (o : hobj) (a : bytes), h_attrs o = Some a ->
  (check H o = Ok tt <->
   compute_hash H o = Ok (h_id o) /\ ~ (h_raw o <> None /\ h_id o = H a)).
Proof. exact check_iff. Qed.
Print Assumptions C07_check_iff.

(* The same for every object, including those whose attributes have no manifest
   (these are never accepted). *)
Theorem C07_check_ok_iff : forall (H : bytes -> bytes) (o : hobj),
  check H o = Ok tt <->
  exists a, h_attrs o = Some a
    /\ h_id o = H (manifest_of a (h_raw o))
    /\ ~ (h_raw o <> None /\ h_id o = H a).
Proof. exact check_ok_iff. Qed.
Print Assumptions C07_check_ok_iff.

(* check() has exactly three outcomes: accept, ValueError, and - only when the
   manifest function of the attributes itself raises - its TypeError. *)
Theorem C07_check_verdicts : forall (H : bytes -> bytes) (o : hobj),
  check H o = Ok tt \/ check H o = Err ValueError \/ (h_attrs o = None /\ check H o = Err TypeError).
Proof. exact check_verdicts. Qed.
Print Assumptions C07_check_verdicts.

(* ANY other id is rejected: every single-bit flip, truncation, extension,
   random id, the empty id, ... uniformly, with no assumption on H. *)
Theorem C07_wrong_id_rejected : forall (H : bytes -> bytes) (o : hobj) (i : bytes),
  compute_hash H o <> Ok i -> check H (set_id i o) <> Ok tt.
Proof. exact wrong_id_rejected. Qed.
Print Assumptions C07_wrong_id_rejected.

(* ... and the rejection is a ValueError. *)
Theorem C07_wrong_id_value_error : forall (H : bytes -> bytes) (o : hobj) (a i : bytes),
  h_attrs o = Some a -> i <> H (manifest_of a (h_raw o)) -> check H (set_id i o) = Err ValueError.
Proof. exact wrong_id_value_error. Qed.
Print Assumptions C07_wrong_id_value_error.

(* The right id is accepted (when the raw manifest, if any, is needed). *)
Theorem C07_right_id_accepted : forall (H : bytes -> bytes) (o : hobj) (a : bytes),
  h_attrs o = Some a -> ~ unneeded_raw H a (h_raw o) ->
  check H (set_id (H (manifest_of a (h_raw o))) o) = Ok tt.
Proof. exact right_id_accepted. Qed.
Print Assumptions C07_right_id_accepted.

(* A raw manifest that the attributes alone would reproduce (the same bytes, or
   bytes with the same hash) is rejected, whatever the id. *)
Theorem C07_unneeded_raw_rejected : forall (H : bytes -> bytes) (o : hobj) (a i : bytes),
  h_attrs o = Some a -> unneeded_raw H a (h_raw o) -> check H (set_id i o) = Err ValueError.
Proof. exact unneeded_raw_rejected. Qed.
Print Assumptions C07_unneeded_raw_rejected.

(* A needed raw manifest with its own hash as id is accepted. *)
Theorem C07_needed_raw_accepted : forall (H : bytes -> bytes) (o : hobj) (a m : bytes),
  h_attrs o = Some a -> h_raw o = Some m -> H m <> H a -> check H (set_id (H m) o) = Ok tt.
Proof. exact needed_raw_accepted. Qed.
Print Assumptions C07_needed_raw_accepted.

(* An object built without id passes its own check unless its raw manifest is
   unneeded, in which case it is rejected. *)
Theorem C07_built_checks : forall (H : bytes -> bytes) (k : kind) (a : bytes) (raw_arg : option (option bytes)) (o' : hobj),
  raw_arg_allowed k raw_arg ->
  construct H k (Some a) raw_arg [] = Ok o' ->
  (~ unneeded_raw H a (raw_of_arg raw_arg) -> check H o' = Ok tt)
  /\ (unneeded_raw H a (raw_of_arg raw_arg) -> check H o' = Err ValueError).
Proof. exact built_checks. Qed.
Print Assumptions C07_built_checks.

(* evolve: for every well-formed object (whatever its old id: right, wrong or
   empty) and every change of attributes and/or raw manifest, the copy is the
   changed object with id = H(manifest of the NEW content), equal to
   recomputing it on the changed object and on the copy; the copy passes check
   iff its raw manifest is not unneeded. *)
Theorem C07_evolve : forall (H : bytes -> bytes) (o : hobj) (c : change) (a' : bytes),
  wf o -> ch_id c = None ->
  (ch_raw c <> None -> has_raw_field (h_kind o) = true) ->
  new_attrs o c = Some a' ->
  exists o', evolve H o c = Ok o'
    /\ o' = set_id (H (manifest_of a' (new_raw o c))) (changed o c)
    /\ compute_hash H (changed o c) = Ok (h_id o')
    /\ compute_hash H o' = Ok (h_id o')
    /\ (~ unneeded_raw H a' (new_raw o c) -> check H o' = Ok tt)
    /\ (unneeded_raw H a' (new_raw o c) -> check H o' = Err ValueError)
    /\ wf o'.
Proof. exact evolve_spec. Qed.
Print Assumptions C07_evolve.

(* evolve(id=...) is refused with TypeError. *)
Theorem C07_evolve_id_refused : forall (H : bytes -> bytes) (o : hobj) (c : change) (i : bytes),
  ch_id c = Some i -> evolve H o c = Err TypeError.
Proof. exact evolve_id_refused. Qed.
Print Assumptions C07_evolve_id_refused.

(* evolve(raw_manifest=...) on a class without that field: TypeError. *)
Theorem C07_evolve_raw_refused : forall (H : bytes -> bytes) (o : hobj) (c : change) (r : option bytes),
  has_raw_field (h_kind o) = false -> ch_raw c = Some r -> evolve H o c = Err TypeError.
Proof. exact evolve_raw_refused. Qed.
Print Assumptions C07_evolve_raw_refused.

(* evolve towards attributes without a manifest and without raw manifest: TypeError. *)
Theorem C07_evolve_no_manifest : forall (H : bytes -> bytes) (o : hobj) (c : change),
  wf o -> ch_id c = None ->
  (ch_raw c <> None -> has_raw_field (h_kind o) = true) ->
  new_attrs o c = None -> new_raw o c = None -> evolve H o c = Err TypeError.
Proof. exact evolve_no_manifest. Qed.
Print Assumptions C07_evolve_no_manifest.

(* swhid(): for a kind with a SWHID type, the SWHID carries exactly the id and
   the kind's type tag; the SWHID constructor refuses ids that are not 20 bytes. *)
Theorem C07_swhid : forall (o : hobj) (t : bytes), swhid_tag (h_kind o) = Some t ->
  swhid o = if Nat.eqb (length (h_id o)) 20 then Ok (t, h_id o) else Err ValidationError.
Proof. exact swhid_spec. Qed.
Print Assumptions C07_swhid.

(* ... so the SWHID of an object built without id carries H(manifest). *)
Theorem C07_swhid_of_built : forall (H : bytes -> bytes) (k : kind) (a : bytes) (raw_arg : option (option bytes))
    (o' : hobj) (t : bytes),
  raw_arg_allowed k raw_arg ->
  construct H k (Some a) raw_arg [] = Ok o' -> swhid_tag k = Some t ->
  length (H (manifest_of a (raw_of_arg raw_arg))) = 20%nat ->
  swhid o' = Ok (t, H (manifest_of a (raw_of_arg raw_arg))).
Proof. exact swhid_of_built. Qed.
Print Assumptions C07_swhid_of_built.

(* The kind -> SWHID type table (side condition on the tables regenerated from
   swhids.py): origin ori, snapshot snp, release rel, revision rev, directory
   dir, raw extrinsic metadata emd - pairwise distinct, all legal extended
   SWHID types, the core ones legal core types.  ExtID has no swhid() in the
   code (there is no SWHID type for external ids). *)
Theorem C07_swhid_table :
  map swhid_tag all_kinds
  = [Some (bs "ori"); Some (bs "snp"); Some (bs "rel"); Some (bs "rev"); Some (bs "dir"); Some (bs "emd"); None]
  /\ NoDup (map swhid_tag all_kinds)
  /\ (forall k t, swhid_tag k = Some t -> In t EXTENDED_SWHID_TYPES)
  /\ (forall k nm t, swhid_member k = Some (true, nm) -> swhid_tag k = Some t -> In t SWHID_TYPES).
Proof. exact swhid_table. Qed.
Print Assumptions C07_swhid_table.

Theorem C07_swhid_extid_none : forall (o : hobj), h_kind o = KExtID -> swhid o = Err AttributeError.
Proof. exact swhid_extid_none. Qed.
Print Assumptions C07_swhid_extid_none.

(* ---- the concrete kinds: the generic theorems instantiated with the manifest
   models of C02 (directory), C05 (snapshot), C04 (release), C03 (revision) and
   the encoded URL (origin).  ExtID and RawExtrinsicMetadata are covered by the
   generic theorems above (any manifest bytes). *)
Theorem C07_init_id_directory : forall (H : bytes -> bytes) (es : list Dir.entry) (raw : option bytes),
  exists o, construct H KDirectory (Some (Dir.dir_manifest es)) (Some raw) [] = Ok o
    /\ h_id o = H (manifest_of (Dir.dir_manifest es) raw)
    /\ h_id o = Dir.dir_compute_hash H {| Dir.d_entries := es; Dir.d_raw_manifest := raw |}
    /\ compute_hash H o = Ok (h_id o)
    /\ swhid_tag (h_kind o) = Some (bs "dir").
Proof. exact init_id_directory. Qed.
Print Assumptions C07_init_id_directory.

Theorem C07_init_id_snapshot : forall (H : bytes -> bytes) (br : Snap.branches),
  exists o, construct H KSnapshot (Some (Snap.snap_manifest br)) None [] = Ok o
    /\ h_id o = H (Snap.snap_manifest br)
    /\ h_id o = Snap.snap_id H br
    /\ compute_hash H o = Ok (h_id o)
    /\ check H o = Ok tt
    /\ swhid_tag (h_kind o) = Some (bs "snp").
Proof. exact init_id_snapshot. Qed.
Print Assumptions C07_init_id_snapshot.

Theorem C07_init_id_release : forall (H : bytes -> bytes) (r : Rel.release) (m : bytes),
  Rel.release_git_object r = Rel.MOk m ->
  exists o, construct H KRelease (release_attrs r) (Some (Rel.r_raw_manifest r)) [] = Ok o
    /\ h_id o = H (manifest_of m (Rel.r_raw_manifest r))
    /\ Rel.rel_compute_hash H r = Some (h_id o)
    /\ compute_hash H o = Ok (h_id o)
    /\ swhid_tag (h_kind o) = Some (bs "rel").
Proof. exact init_id_release. Qed.
Print Assumptions C07_init_id_release.

(* a Release whose target is None has no manifest: it cannot be built without
   id (TypeError) and check never accepts it *)
Theorem C07_release_no_target : forall (H : bytes -> bytes) (r : Rel.release), Rel.r_target r = None ->
  release_attrs r = None
  /\ construct H KRelease (release_attrs r) (Some None) [] = Err TypeError
  /\ forall raw i, check H {| h_kind := KRelease; h_attrs := release_attrs r; h_raw := raw; h_id := i |} <> Ok tt.
Proof. exact release_no_target. Qed.
Print Assumptions C07_release_no_target.

Theorem C07_init_id_revision : forall (H : bytes -> bytes) (r : Rev.revision),
  exists o, construct H KRevision (Some (Rev.rev_manifest r)) (Some (Rev.v_raw_manifest r)) [] = Ok o
    /\ h_id o = H (manifest_of (Rev.rev_manifest r) (Rev.v_raw_manifest r))
    /\ h_id o = Rev.rev_compute_hash H r
    /\ compute_hash H o = Ok (h_id o)
    /\ swhid_tag (h_kind o) = Some (bs "rev").
Proof. exact init_id_revision. Qed.
Print Assumptions C07_init_id_revision.

Theorem C07_init_id_origin : forall (H : bytes -> bytes) (url_utf8 : bytes),
  exists o, construct H KOrigin (Some url_utf8) None [] = Ok o
    /\ h_id o = H url_utf8
    /\ compute_hash H o = Ok (h_id o)
    /\ check H o = Ok tt
    /\ swhid_tag (h_kind o) = Some (bs "ori").
Proof. exact init_id_origin. Qed.
Print Assumptions C07_init_id_origin.

(* ---- non-vacuity: concrete objects (toy injective hash toyH m = length m :: m)
   meeting the hypotheses above, including an object with a NEEDED raw manifest
   that passes check and one with an unneeded one that fails. *)
Theorem C07_needed_raw_passes_example :
  exists o, construct toyH KDirectory (Some [1;2;3]%N) (Some (Some [7;7]%N)) [] = Ok o
    /\ h_id o = toyH [7;7]%N /\ ~ unneeded_raw toyH [1;2;3]%N (h_raw o) /\ check toyH o = Ok tt.
Proof. exact ex_needed_raw_passes. Qed.
Print Assumptions C07_needed_raw_passes_example.

Theorem C07_unneeded_raw_fails_example :
  exists o, construct toyH KDirectory (Some [1;2;3]%N) (Some (Some [1;2;3]%N)) [] = Ok o
    /\ unneeded_raw toyH [1;2;3]%N (h_raw o) /\ check toyH o = Err ValueError.
Proof. exact ex_unneeded_raw_fails. Qed.
Print Assumptions C07_unneeded_raw_fails_example.

Theorem C07_satisfiable :
  (exists o a, h_id o = [] /\ h_attrs o = Some a /\ h_raw o <> None /\ wf o)
  /\ (exists o i, compute_hash toyH o <> Ok i)
  /\ (exists o a, h_attrs o = Some a /\ unneeded_raw toyH a (h_raw o))
  /\ (exists o a m, h_attrs o = Some a /\ h_raw o = Some m /\ toyH m <> toyH a)
  /\ (exists o c a', wf o /\ ch_id c = None /\ (ch_raw c <> None -> has_raw_field (h_kind o) = true)
        /\ new_attrs o c = Some a' /\ ch_attrs c <> None /\ ch_raw c <> None
        /\ ~ unneeded_raw toyH a' (new_raw o c)).
Proof. exact hyps_satisfiable. Qed.
Print Assumptions C07_satisfiable.

(* ---- cross-model consistency C07 x C15 (proofs/CrossModelIdentMeta.v): the two
   remaining kinds, instantiated with the manifests of model/Meta.v.
   ExtID: whenever git_objects.extid_git_object yields a manifest m (it raises
   UnicodeEncodeError for non-ASCII type strings: then nothing is built, in
   either model), the object built without id carries H m, which is Meta's own
   extid_id; it passes check; it has no SWHID.  [extid_attrs e] is [Some m]
   exactly when extid_git_object e = Ok m. *)
From SWH.model Require Meta.
From SWH.proofs Require Import CrossModelIdentMeta.

Theorem C07_init_id_extid : forall (H : bytes -> bytes) (e : Meta.extid) (m : bytes),
  Meta.extid_git_object e = Meta.Ok m ->
  exists o, construct H KExtID (extid_attrs e) None [] = Ok o
    /\ h_id o = H m
    /\ Meta.extid_id H e = Meta.Ok (h_id o)
    /\ compute_hash H o = Ok (h_id o)
    /\ check H o = Ok tt
    /\ swhid_tag (h_kind o) = None
    /\ swhid o = Err AttributeError.
Proof. exact init_id_extid. Qed.
Print Assumptions C07_init_id_extid.

(* RawExtrinsicMetadata: the object built without id carries H of Meta's
   manifest of its fields, which is Meta's emd_id - also of the object the
   constructor returns after normalising the discovery date; it passes check;
   its SWHID type is emd. *)
Theorem C07_init_id_emd : forall (H : bytes -> bytes) (md : Meta.emd),
  exists o, construct H KRawExtrinsicMetadata (Some (Meta.emd_git_object md)) None [] = Ok o
    /\ h_id o = H (Meta.emd_git_object md)
    /\ h_id o = Meta.emd_id H md
    /\ (forall a, Meta.mk_emd md = Meta.Ok a -> h_id o = Meta.emd_id H a)
    /\ compute_hash H o = Ok (h_id o)
    /\ check H o = Ok tt
    /\ swhid_tag (h_kind o) = Some (bs "emd").
Proof. exact init_id_emd. Qed.
Print Assumptions C07_init_id_emd.
