(* C05 - Snapshot ids come from a canonical, decodable manifest of the branch
   map.  Property theorems only. *)
From Coq Require Import List NArith Permutation Sorted.
From SWH.lib Require Import Bytes Order StableSort GitHeader.
From SWH.model Require Import Snap.
From SWH.proofs Require Import SnapProofs.
From SWH Require Import Generated.
Import ListNotations.

(* The manifest (hence the id, for every hash function) does not depend on the
   order in which the branches were inserted. *)
Theorem C05_order_free : forall b b',
  NoDup (map fst b) -> Permutation b b' -> snap_manifest b = snap_manifest b'.
Proof. exact snap_manifest_order_free. Qed.
Print Assumptions C05_order_free.

(* Branches are written in strictly increasing byte order of their names. *)
Theorem C05_sorted : forall b, NoDup (map fst b) ->
  StronglySorted (fun x y => bltb (fst x) (fst y) = true) (sort name_leb b).
Proof. exact snap_sorted_strict. Qed.
Print Assumptions C05_sorted.

(* An independent decoder recovers, for NUL-free names and targets of ANY
   length and content (alias targets may contain NUL, ':' and digits: the
   length prefix delimits them), exactly one (kind, name, target) record per
   branch, in name order. *)
Theorem C05_decode : forall b, NulFreeNames b ->
  decode_snapshot_object (snap_manifest b) = Some (map record_of (sort name_leb b)).
Proof. exact decode_snap_manifest. Qed.
Print Assumptions C05_decode.

(* a record determines its branch (kind word -> target type; "dangling" -> None) *)
Theorem C05_record_determines_branch : forall p, branch_of_record (record_of p) = Some p.
Proof. exact branch_of_record_of. Qed.
Print Assumptions C05_record_determines_branch.

(* ... so different branch maps never share a manifest. *)
Theorem C05_injective : forall b b', NulFreeNames b -> NulFreeNames b' ->
  snap_manifest b = snap_manifest b' -> Permutation b b'.
Proof. exact snap_manifest_injective. Qed.
Print Assumptions C05_injective.

(* Formatting reports exactly the aliases that point to a missing branch or to
   themselves (a chain a -> b -> c reports only the link whose own target is
   missing) ... *)
Theorem C05_unresolved_exact : forall b n t,
  In (n, t) (unresolved b) <->
  exists br, In (n, Some br) b /\ b_type br = BAlias /\ b_target br = t /\ (~ In t (map fst b) \/ t = n).
Proof. exact unresolved_exact. Qed.
Print Assumptions C05_unresolved_exact.

(* ... raises exactly when there is one and it was not asked to ignore them,
   carrying that list ... *)
Theorem C05_raise_iff : forall b ignore,
  (exists u, snapshot_git_object b ignore = SnapUnresolved u) <-> (unresolved b <> [] /\ ignore = false).
Proof. exact snapshot_raise_iff. Qed.
Print Assumptions C05_raise_iff.
Theorem C05_raise_carries_list : forall b u,
  snapshot_git_object b false = SnapUnresolved u -> u = unresolved b.
Proof. exact snapshot_raise_carries_unresolved. Qed.
Print Assumptions C05_raise_carries_list.

(* ... and the id is computed with ignore_unresolved=True: total, and the same
   manifest as any successful formatting. *)
Theorem C05_id_ignores : forall b, snapshot_git_object b true = SnapOk (snap_manifest b).
Proof. exact snapshot_ignore_total. Qed.
Print Assumptions C05_id_ignores.
Theorem C05_ok_same_manifest : forall b i m, snapshot_git_object b i = SnapOk m -> m = snap_manifest b.
Proof. exact snapshot_ok_same_manifest. Qed.
Print Assumptions C05_ok_same_manifest.

(* the target-kind words are the enum values of the source (regenerated table) *)
Theorem C05_target_types_table : SNAPSHOT_TARGET_TYPES = map btype_bytes all_btypes.
Proof. exact snapshot_target_types_table. Qed.
Print Assumptions C05_target_types_table.

(* Non-vacuity: HEAD -> existing branch, a dangling branch whose name extends
   another, a self-alias and an alias to a missing branch whose target
   contains NUL, ':' and a digit. *)
Theorem C05_satisfiable :
  NoDup (map fst ex_branches) /\ NulFreeNames ex_branches /\ valid_snapshot ex_branches = true /\
  unresolved ex_branches = [(bs "lost", [0; 58; 49]%N); (bs "self", bs "self")].
Proof. exact ex_branches_ok. Qed.
Print Assumptions C05_satisfiable.
