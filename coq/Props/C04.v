(* C04 - Release ids are git tag ids for every field combination. *)
From Coq Require Import List NArith.
From SWH.lib Require Import Bytes Hex GitHeader Headers.
From SWH.model Require Import Time Rel.
From SWH.proofs Require Import RelProofs.
From SWH Require Import Generated.
Import ListNotations.

(* the id is the hash of the tag object (raw manifest taking precedence), for every hash function *)
Theorem C04_id_is_tag_hash : forall (H : bytes -> bytes) r m,
  r_raw_manifest r = None -> release_git_object r = MOk m -> rel_compute_hash H r = Some (H m).
Proof. intros H r m R E. unfold rel_compute_hash. rewrite R, E. reflexivity. Qed.
Print Assumptions C04_id_is_tag_hash.

(* An independent tag parser recovers exactly object, type, tag name, tagger
   line and message, for arbitrary name / message / fullname / offset bytes
   (newlines, leading spaces, empty) and all five target types. *)
Theorem C04_parse : forall r t m, r_target r = Some t -> release_git_object r = MOk m ->
  parse_tag m = Some {| t_object := hexlify t; t_type := git_type (r_ttype r); t_tag := r_name r;
                        t_tagger := tagger_line r; t_message := r_message r |}.
Proof. exact parse_tag_ok. Qed.
Print Assumptions C04_parse.

Theorem C04_object_hex_roundtrip : forall t, wf_bytes t = true -> unhex (hexlify t) = Some t.
Proof. exact parse_tag_target. Qed.
Print Assumptions C04_object_hex_roundtrip.

(* the five target types map to five distinct git type words: the target type is recoverable *)
Theorem C04_type_map_injective : forall a b, git_type a = git_type b -> a = b.
Proof. exact git_type_injective. Qed.
Print Assumptions C04_type_map_injective.
Theorem C04_type_recoverable : forall t, rtt_of_git_type (git_type t) = Some t.
Proof. exact rtt_of_git_type_ok. Qed.
Print Assumptions C04_type_recoverable.

(* hence two releases with the same manifest have the same tag fields *)
Theorem C04_manifest_injective : forall r r' t t' m,
  r_target r = Some t -> r_target r' = Some t' -> wf_bytes t = true -> wf_bytes t' = true ->
  release_git_object r = MOk m -> release_git_object r' = MOk m ->
  t = t' /\ r_ttype r = r_ttype r' /\ r_name r = r_name r' /\ tagger_line r = tagger_line r' /\ r_message r = r_message r'.
Proof. exact release_manifest_injective. Qed.
Print Assumptions C04_manifest_injective.

(* synthetic flag, metadata, split name/email never influence the manifest *)
Theorem C04_irrelevant_fields : forall r r',
  r_name r = r_name r' -> r_message r = r_message r' -> r_target r = r_target r' -> r_ttype r = r_ttype r' ->
  option_map fullname (r_author r) = option_map fullname (r_author r') -> r_date r = r_date r' ->
  release_git_object r = release_git_object r'.
Proof. exact release_irrelevant_fields. Qed.
Print Assumptions C04_irrelevant_fields.

(* the constructor accepts exactly (date => author) *)
Theorem C04_presence : forall r,
  release_valid r = true <-> (r_date r <> None -> r_author r <> None).
Proof. exact release_presence. Qed.
Print Assumptions C04_presence.

(* error branch: a release without target cannot be formatted (TypeError) *)
Theorem C04_no_target : forall r, r_target r = None -> release_git_object r = MTypeError.
Proof. exact release_no_target_typeerror. Qed.
Print Assumptions C04_no_target.

(* the target-type -> git-type map of the source (regenerated table) is the modelled one *)
Theorem C04_type_table : RELEASE_TARGET_TO_GIT = map (fun t => (rtt_value t, git_type t)) all_rtt.
Proof. exact release_target_table. Qed.
Print Assumptions C04_type_table.

Theorem C04_satisfiable : release_valid ex_release = true /\ exists m, release_git_object ex_release = MOk m.
Proof. exact ex_release_ok. Qed.
Print Assumptions C04_satisfiable.

(* a verbatim raw manifest takes precedence for the id, whatever its bytes (the empty byte string included) *)
Theorem C04_raw_manifest_precedence : forall (H : bytes -> bytes) r m,
  r_raw_manifest r = Some m -> rel_compute_hash H r = Some (H m).
Proof. exact rel_raw_manifest_precedence. Qed.
Print Assumptions C04_raw_manifest_precedence.

(* ---- cross-model consistency C04 x C16 (proofs/CrossModelDates.v).  The tagger
   line is Rel.format_author = fullname followed by C16's
   Time.author_date_part, whose date text C16_format_date_exact characterises.
   For every release with a target, an author and a date whose microseconds
   are in [0, 10^6) (what Timestamp accepts: C16_range_rejected), the "tagger"
   header of the manifest - the one the independent tag parser returns - is
   EXACTLY
       fullname SP txt SP offset_bytes,    txt = Time.format_date (ts x),
   where Time.parse_date reads (seconds, microseconds) back from txt; txt is the
   decimal of the seconds when microseconds = 0, else that decimal, ".", and
   the 6-digit zero-padded microseconds without their trailing zeros; txt
   contains no space, so when the offset bytes contain none either the
   independent reader [parse_author_line] (split at the last two spaces, then
   parse_date) recovers fullname, (seconds, microseconds) and the offset bytes.
   Without a date the line is the fullname alone; without author there is none. *)
From Coq Require Import ZArith Bool.
From SWH.lib Require Dec DecPad.
From SWH.proofs Require Import CrossModelDates.

Theorem C04_tagger_date_exact : forall (r : release) (t m : bytes),
  r_target r = Some t -> release_git_object r = MOk m ->
  (forall a x, r_author r = Some a -> r_date r = Some x ->
     (0 <= microseconds (ts x) < 1000000)%Z ->
     exists line,
       In (bs "tagger", line) (rel_headers r t) /\
       option_map t_tagger (parse_tag m) = Some (Some line) /\
       let s := seconds (ts x) in
       let us := microseconds (ts x) in
       let txt := format_date (ts x) in
       line = fullname a ++ [SP] ++ txt ++ [SP] ++ offset_bytes x /\
       parse_date txt = Some (s, us) /\
       (us = 0%Z -> txt = Dec.dec_Z s) /\
       (us <> 0%Z -> exists frac,
           txt = Dec.dec_Z s ++ [DOT] ++ frac /\ frac <> [] /\ forallb Dec.is_digit frac = true /\
           last frac 0%N <> ZERO /\ exists k, frac ++ repeat ZERO k = Dec.dec_pad 6 (Z.to_N us)) /\
       ~ In SP txt /\
       (~ In SP (offset_bytes x) -> parse_author_line line = Some (fullname a, (s, us), offset_bytes x))) /\
  (forall a, r_author r = Some a -> r_date r = None ->
     option_map t_tagger (parse_tag m) = Some (Some (fullname a))) /\
  (r_author r = None -> option_map t_tagger (parse_tag m) = Some None).
Proof. exact rel_tagger_date_exact. Qed.
Print Assumptions C04_tagger_date_exact.
