(* C14 - Merkle collection reports every new or changed node, once.
   Property theorems only (lemmas in proofs/MerkleStep.v, MerkleCollect.v).

   Vocabulary: as in Props/C10.v.  Ghost state: the list [rep] of reports
   (representative kept by the returned Python set, hash, node it stands for)
   made by all collects so far; [rp] is the set oracle - which of several nodes
   that are == and hash alike the set keeps - universally quantified;
   [greach NH rp s rep] = (s, rep) is reached from the empty heap by a guarded
   history; [gstep] = one step, reports appended. *)
From Coq Require Import List NArith Arith.
From SWH.lib Require Import Bytes.
From SWH.model Require Import Merkle.
From SWH.proofs Require Import MerkleBase MerkleInv MerkleStep MerkleWitness.
Import ListNotations.
Local Open Scope nat_scope.

(* The invariant - C10's, plus (I5): every collected node has a report carrying
   its current cached (hence fresh) hash - is preserved by every guarded
   operation of {new, set, replace, delete, bulk update, read hash, forced
   update, entries, to_model, collect, reset}, for every set oracle. *)
Theorem C14_inv_step : forall NH : bytes -> list entry -> bytes,
  forall (rp : set_oracle) (s : heap) (rep : list report) (o : op),
  InvC NH s rep -> guard NH true false s o ->
  InvC NH (fst (gstep NH rp s rep o)) (snd (gstep NH rp s rep o)).
Proof. exact gstep_inv. Qed.
Print Assumptions C14_inv_step.

(* Completeness: at any point of any guarded history, right after collect(root)
   every node n in the sub-DAG of root has a report (m, hv, n) where hv is the
   from-scratch hash of n in the current structure (m is the node the set kept
   for n: n itself or a node that was == n with the same hash when reported). *)
Theorem C14_complete : forall NH : bytes -> list entry -> bytes,
  forall (rp : set_oracle) (s : heap) (rep : list report) (root : nat),
  greach NH rp s rep -> guard NH true false s (OCollect root) ->
  let s' := fst (gstep NH rp s rep (OCollect root)) in
  let rep' := snd (gstep NH rp s rep (OCollect root)) in
  forall n, Reach s' root n -> exists hv m, Fresh NH s' n hv /\ In (m, hv, n) rep'.
Proof. exact collect_complete. Qed.
Print Assumptions C14_complete.

(* Once: collecting again without an intervening change returns nothing and
   changes nothing. *)
Theorem C14_idempotent : forall NH : bytes -> list entry -> bytes,
  forall (rp : set_oracle) (s : heap) (rep : list report) (root : nat),
  greach NH rp s rep -> guard NH true false s (OCollect root) -> root < length s ->
  let s' := fst (step NH true false s (OCollect root)) in
  step NH true false s' (OCollect root) = (s', OutNodes []).
Proof. exact collect_idempotent. Qed.
Print Assumptions C14_idempotent.

(* After reset_collect(root), collect(root) succeeds and returns every node of
   the sub-DAG of root (before the set's deduplication). *)
Theorem C14_reset : forall NH : bytes -> list entry -> bytes,
  forall (rp : set_oracle) (s : heap) (rep : list report) (root : nat),
  greach NH rp s rep -> guard NH true false s (OReset root) -> root < length s ->
  let s1 := fst (step NH true false s (OReset root)) in
  exists L, snd (step NH true false s1 (OCollect root)) = OutNodes L /\
            forall n, Reach s1 root n -> In n L.
Proof. exact reset_then_collect. Qed.
Print Assumptions C14_reset.

(* Meaning of a report under a legitimate set oracle: the representative was
   in the returned collection, == the node it stands for, with the same hash. *)
Theorem C14_reports_sound : forall rp : set_oracle, oracle_ok rp ->
  forall (s' : heap) (L : list nat) (m : nat) (hv : bytes) (n : nat),
  In (m, hv, n) (reports rp s' (OutNodes L)) ->
  In m L /\ In n L /\ node_eqb (S (length s')) s' m n = true /\ hash_of s' m = hv /\ hash_of s' n = hv.
Proof. exact reports_sound. Qed.
Print Assumptions C14_reports_sound.

(* Non-vacuity: the identity is a legitimate set oracle; the 23-step diamond
   history (4 collects, 1 reset, mutations in between) is guarded and produces
   at least 10 reports. *)
Theorem C14_guards_satisfiable :
  oracle_ok id_oracle /\ guarded NH0 true false [] h_diamond /\
  10 <=? length (snd (grun NH0 true false id_oracle [] [] h_diamond)) = true.
Proof. exact c14_satisfiable. Qed.
Print Assumptions C14_guards_satisfiable.
