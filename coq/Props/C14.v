(* C14 - Merkle collection reports every new or changed node, once.
   Property theorems only (lemmas in proofs/MerkleStep.v, MerkleCollect.v).

   Vocabulary: as in Props/C10.v.  Ghost state: the list [rep] of reports
   (representative kept by the returned Python set, hash, node it stands for)
   made by all collects so far; [rp] is the set oracle - which of several nodes
   that are == and hash alike the set keeps - universally quantified;
   [greach NH rp s rep] = (s, rep) is reached from the empty heap by a guarded
   history; [gstep] = one step, reports appended. *)
From Coq Require Import List NArith Arith.
From SWH.lib Require Import Bytes.
From SWH.model Require Import Merkle.
From SWH.proofs Require Import MerkleBase MerkleInv MerkleStep MerkleForce MerkleWitness.
Import ListNotations.
Local Open Scope nat_scope.

(* The invariant - C10's, plus (I5): every collected node has a report carrying
   its current cached (hence fresh) hash - is preserved by every guarded
   operation of {new, set, replace, delete, bulk update, read hash, forced
   update, entries, to_model, collect, reset}, for every set oracle. *)
Theorem C14_inv_step : forall NH : bytes -> list entry -> bytes,
  forall (rp : set_oracle) (s : heap) (rep : list report) (o : op),
  InvC NH s rep -> guard NH true false s o ->
  InvC NH (fst (gstep NH rp s rep o)) (snd (gstep NH rp s rep o)).
Proof. exact gstep_inv. Qed.
Print Assumptions C14_inv_step.

(* Completeness: at any point of any guarded history, right after collect(root)
   every node n in the sub-DAG of root has a report (m, hv, n) where hv is the
   from-scratch hash of n in the current structure (m is the node the set kept
   for n: n itself or a node that was == n with the same hash when reported). *)
Theorem C14_complete : forall NH : bytes -> list entry -> bytes,
  forall (rp : set_oracle) (s : heap) (rep : list report) (root : nat),
  greach NH rp s rep -> guard NH true false s (OCollect root) ->
  let s' := fst (gstep NH rp s rep (OCollect root)) in
  let rep' := snd (gstep NH rp s rep (OCollect root)) in
  forall n, Reach s' root n -> exists hv m, Fresh NH s' n hv /\ In (m, hv, n) rep'.
Proof. exact collect_complete. Qed.
Print Assumptions C14_complete.

(* Once: collecting again without an intervening change returns nothing and
   changes nothing. *)
Theorem C14_idempotent : forall NH : bytes -> list entry -> bytes,
  forall (rp : set_oracle) (s : heap) (rep : list report) (root : nat),
  greach NH rp s rep -> guard NH true false s (OCollect root) -> root < length s ->
  let s' := fst (step NH true false s (OCollect root)) in
  step NH true false s' (OCollect root) = (s', OutNodes []).
Proof. exact collect_idempotent. Qed.
Print Assumptions C14_idempotent.

(* After reset_collect(root), collect(root) succeeds and returns every node of
   the sub-DAG of root (before the set's deduplication). *)
Theorem C14_reset : forall NH : bytes -> list entry -> bytes,
  forall (rp : set_oracle) (s : heap) (rep : list report) (root : nat),
  greach NH rp s rep -> guard NH true false s (OReset root) -> root < length s ->
  let s1 := fst (step NH true false s (OReset root)) in
  exists L, snd (step NH true false s1 (OCollect root)) = OutNodes L /\
            forall n, Reach s1 root n -> In n L.
Proof. exact reset_then_collect. Qed.
Print Assumptions C14_reset.

(* A node flagged collected has a cached hash, and that hash is the from-scratch
   one: collect() computes the hash of every node it reports (putting a node in
   the returned set hashes it through .hash).  invalidate_hash's early exit at
   a node without a cached hash relies on it. *)
Theorem C14_collected_has_hash : forall (NH : bytes -> list entry -> bytes) (rp : set_oracle)
  (s : heap) (rep : list report), greach NH rp s rep ->
  forall n x, nth_error s n = Some x -> collected x = true ->
  exists h, cached x = Some h /\ Fresh NH s n h.
Proof. exact collected_has_hash. Qed.
Print Assumptions C14_collected_has_hash.

(* The mutant collect_nohash (flag the reported nodes without computing their
   hashes) breaks it, and with it completeness: a -> b, collect a as the very
   first operation, attach c under b, collect a again: the code reports a, b
   and c; the mutant reports c only - the new hashes of b and a are never
   reported. *)
Theorem C14_collect_nohash_refuted :
  exists NH h, guarded NH true false [] h /\
    let s := final NH true false [] h in
    (let s1 := fst (step NH true false s (OCollect 0)) in
     let s2 := fst (step NH true false s1 (OSet 1 nc 2)) in
     (forall x, nth_error s1 0 = Some x -> collected x = true -> hashed x = true) /\
     exists L, snd (step NH true false s2 (OCollect 0)) = OutNodes L /\ In 0 L /\ In 1 L /\ In 2 L) /\
    exists s1 L1 s3 L, collect_nohash (S (length s)) 0 s = Ok (s1, L1) /\
      (exists x, nth_error s1 0 = Some x /\ collected x = true /\ hashed x = false) /\
      collect_nohash (S (length s1)) 0 (fst (step NH true false s1 (OSet 1 nc 2))) = Ok (s3, L) /\
      ~ In 0 L /\ ~ In 1 L.
Proof. exact collect_nohash_refuted. Qed.
Print Assumptions C14_collect_nohash_refuted.

(* A failed operation is not a change: whenever a guarded operation answers an
   error (KeyError for a missing name, ValueError for a path through a leaf or
   an assignment under a Content, AttributeError ...), the heap is exactly what
   it was - no cached hash dropped, no collected flag cleared, no link touched -
   so with C14_idempotent a collect that follows a collect of the same root,
   with only failed operations in between, still reports nothing. *)
Theorem C14_failed_op_is_noop : forall (NH : bytes -> list entry -> bytes) (s : heap) (o : op) (e : err),
  InvA NH s -> guard NH true false s o ->
  snd (step NH true false s o) = OutErr e -> fst (step NH true false s o) = s.
Proof. exact failed_op_is_noop. Qed.
Print Assumptions C14_failed_op_is_noop.

(* Partial resets, arbitrary later collections.  [notcoll s x] = the collected
   flag of x is false; [quiet s1 h x] = no collect of history h (run from s1) is
   issued at a node that has x below it at that moment.

   (a) reset_collect n un-collects everything below n. *)
Theorem C14_reset_uncollects : forall (NH : bytes -> list entry -> bytes) (s : heap) (n x : nat),
  InvA NH s -> Reach s n x -> notcoll (fst (step NH true false s (OReset n))) x.
Proof. exact reset_uncollects. Qed.
Print Assumptions C14_reset_uncollects.

(* (b) Frame: nothing but collect_node sets collected := true - an uncollected
   node stays uncollected through every guarded operation (mutations, reads,
   forced updates, entries, resets, collects elsewhere ...) except a collect
   issued at a node that has it below. *)
Theorem C14_uncollected_frame : forall (NH : bytes -> list entry -> bytes) (s : heap) (o : op) (x : nat),
  InvA NH s -> guard NH true false s o -> notcoll s x ->
  (forall r, o = OCollect r -> ~ Reach s r x) -> notcoll (fst (step NH true false s o)) x.
Proof. exact uncollected_frame. Qed.
Print Assumptions C14_uncollected_frame.

(* (c) collect r succeeds and returns EVERY node below r whose collected flag is
   false (before the set's deduplication); the node then has a report with its
   from-scratch hash.  This is the fact an early exit of collect() on an
   already-collected start node breaks. *)
Theorem C14_collect_reports_uncollected :
  forall (NH : bytes -> list entry -> bytes) (rp : set_oracle) (s : heap) (r x : nat),
  InvA NH s -> Reach s r x -> notcoll s x ->
  exists s' L, step NH true false s (OCollect r) = (s', OutNodes L) /\ In x L /\
    exists hv, Fresh NH s' x hv /\ In (rp s' L x, hv, x) (reports rp s' (OutNodes L)).
Proof. exact collect_reports_uncollected. Qed.
Print Assumptions C14_collect_reports_uncollected.

(* Hence: at any point of any guarded history, after reset_collect(n) - n the
   root, a strict descendant, a node shared in the DAG - every node x below n
   is owed to the first later collect that has it below its root: whatever
   guarded operations h happen in between (none of them a collect with x below
   its root), if x is below r when collect(r) is issued, x is in the list it
   returns, and the reports gain (representative, from-scratch hash of x, x). *)
Theorem C14_reset_partial : forall (NH : bytes -> list entry -> bytes) (rp : set_oracle)
  (s : heap) (rep : list report) (n : nat),
  greach NH rp s rep -> guard NH true false s (OReset n) ->
  forall (h : list op) (x r : nat),
  let s1 := fst (step NH true false s (OReset n)) in
  Reach s n x -> guarded NH true false s1 h -> quiet NH true false s1 h x ->
  let s2 := final NH true false s1 h in
  Reach s2 r x ->
  exists s3 L, step NH true false s2 (OCollect r) = (s3, OutNodes L) /\ In x L /\
    exists hv, Fresh NH s3 x hv /\ In (rp s3 L x, hv, x) (reports rp s3 (OutNodes L)).
Proof. exact reset_partial. Qed.
Print Assumptions C14_reset_partial.

(* Non-vacuity of C14_reset_partial: in the diamond, reset at the inner node 2,
   x = 0 below it, then a read, a collect at a leaf that does not have x below
   it, a mutation that makes x shared again, then collect(3) from the root:
   every hypothesis holds and x is returned. *)
Theorem C14_reset_partial_satisfiable :
  let s := fst (grun NH0 true false id_oracle [] [] h_diamond0) in
  let rep := snd (grun NH0 true false id_oracle [] [] h_diamond0) in
  let s1 := fst (step NH0 true false s (OReset 2)) in
  let s2 := final NH0 true false s1 h_mid in
  greach NH0 id_oracle s rep /\ guard NH0 true false s (OReset 2) /\ Reach s 2 0 /\
  guarded NH0 true false s1 h_mid /\ quiet NH0 true false s1 h_mid 0 /\ Reach s2 3 0 /\
  exists s3 L, step NH0 true false s2 (OCollect 3) = (s3, OutNodes L) /\ In 0 L.
Proof. exact reset_partial_satisfiable. Qed.
Print Assumptions C14_reset_partial_satisfiable.

(* The seeded mutant collect_early (collect returning at once when the node it
   is called on is already collected) does NOT satisfy (c): a -> b -> c, collect
   a, reset b, then from a: the real collect returns c (and b), the mutant
   returns nothing although c is below a and not collected. *)
Theorem C14_collect_early_refuted :
  exists NH h n r x,
    guarded NH true false [] (h ++ [OReset n]) /\
    let s := final NH true false [] h in
    let s1 := fst (step NH true false s (OReset n)) in
    Reach s n x /\ Reach s1 r x /\
    (forall y, nth_error s1 x = Some y -> collected y = false) /\
    (exists L, collect NH false (S (length s1)) r s1 = Ok (fst (step NH true false s1 (OCollect r)), L) /\ In x L) /\
    exists s' L, collect_early NH false (S (length s1)) r s1 = Ok (s', L) /\ ~ In x L.
Proof. exact collect_early_refuted. Qed.
Print Assumptions C14_collect_early_refuted.

(* Out-of-band changes made visible by a forced update (see Props/C10.v for
   OWrite / C10_force_restores).  In a state of the invariant - all nodes
   possibly collected - write the data of node n, force at a node r that every
   ancestor-or-self of n is below or above; then collect(r) succeeds and returns
   EVERY node below r (the written node and the nodes between it and r, whose
   hashes changed, in particular), and each gets a report carrying its
   from-scratch hash. *)
Theorem C14_write_force_collect : forall (NH : bytes -> list entry -> bytes) (rp : set_oracle)
  (s : heap) (n : nat) (d : bytes) (r : nat),
  InvA NH s -> n < length s ->
  (forall a, Reach s a n -> Reach s r a \/ Reach s a r) ->
  let s1 := fst (step NH true false s (OWrite n d)) in
  let s2 := fst (step NH true false s1 (OForce r)) in
  forall x, Reach s r x ->
  exists s3 L, step NH true false s2 (OCollect r) = (s3, OutNodes L) /\ In x L /\
    exists hv, Fresh NH s3 x hv /\ In (rp s3 L x, hv, x) (reports rp s3 (OutNodes L)).
Proof. exact write_force_collect. Qed.
Print Assumptions C14_write_force_collect.

(* The seeded mutant force_lazy (update_hash(force=True) that invalidates only
   the node it is called on and recomputes the subtree without invalidating it)
   does NOT satisfy this: a -> b -> c, collect a, write c, force a, collect a:
   the code's second collect returns c; the mutant's returns a only, although
   the hash of c changed (and is the from-scratch hash): never reported. *)
Theorem C14_force_lazy_refuted :
  exists NH h n r d,
    guarded NH true false [] h /\
    let s := final NH true false [] h in
    let s1 := fst (step NH true false s (OWrite n d)) in
    Reach s r n /\
    (exists L, snd (step NH true false (fst (step NH true false s1 (OForce r))) (OCollect r)) = OutNodes L /\ In n L) /\
    exists s2 hv s3 L, force_lazy NH false r s1 = Ok (s2, hv) /\
      collect NH false (S (length s2)) r s2 = Ok (s3, L) /\ ~ In n L /\
      hash_of s3 n <> hash_of s n /\ fresh_fn NH 10 s3 n = Some (hash_of s3 n).
Proof. exact force_lazy_refuted. Qed.
Print Assumptions C14_force_lazy_refuted.

(* Meaning of a report under a legitimate set oracle: the representative was
   in the returned collection, == the node it stands for, with the same hash. *)
Theorem C14_reports_sound : forall rp : set_oracle, oracle_ok rp ->
  forall (s' : heap) (L : list nat) (m : nat) (hv : bytes) (n : nat),
  In (m, hv, n) (reports rp s' (OutNodes L)) ->
  In m L /\ In n L /\ node_eqb (S (length s')) s' m n = true /\ hash_of s' m = hv /\ hash_of s' n = hv.
Proof. exact reports_sound. Qed.
Print Assumptions C14_reports_sound.

(* Non-vacuity: the identity is a legitimate set oracle; the 29-step diamond
   history (6 collects, a reset at the root and a PARTIAL reset at an inner
   node, mutations in between) is guarded and produces at least 10 reports. *)
Theorem C14_guards_satisfiable :
  oracle_ok id_oracle /\ guarded NH0 true false [] h_diamond /\
  10 <=? length (snd (grun NH0 true false id_oracle [] [] h_diamond)) = true.
Proof. exact c14_satisfiable. Qed.
Print Assumptions C14_guards_satisfiable.
