(* Proofs about the decision-table model of `swh identify` (model/Cli.v).
   The domain is finite (2640 configurations): every universally quantified
   statement is proved by evaluating a boolean check over the enumeration
   [all_cfgs] inside the kernel (vm_compute) and lifting it with
   [forallb_forall] and the completeness of the enumeration. *)
From Coq Require Import List Bool Arith NArith Lia.
From SWH.model Require Import Cli.
Import ListNotations.

(* ------------------------------------------------------------------ *)
(* The enumeration is complete                                         *)

Lemma all_kinds_complete : forall k, In k all_kinds.
Proof. intros k; destruct k; cbn; tauto. Qed.
Lemma all_types_complete : forall t, In t all_types.
Proof. intros t; destruct t; cbn; tauto. Qed.
Lemma all_bools_complete : forall b, In b all_bools.
Proof. intros b; destruct b; cbn; tauto. Qed.
Lemma all_verifies_complete : forall v, In v all_verifies.
Proof. intros v; destruct v; cbn; tauto. Qed.

Theorem all_cfgs_complete : forall c : cfg, In c all_cfgs.
Proof.
  intros [k t d f r v x]. unfold all_cfgs.
  apply in_flat_map; exists k; split; [apply all_kinds_complete|].
  apply in_flat_map; exists t; split; [apply all_types_complete|].
  apply in_flat_map; exists d; split; [apply all_bools_complete|].
  apply in_flat_map; exists f; split; [apply all_bools_complete|].
  apply in_flat_map; exists r; split; [apply all_bools_complete|].
  apply in_flat_map; exists v; split; [apply all_verifies_complete|].
  apply in_map. apply all_bools_complete.
Qed.

(* an injection of configurations into N: the index in the enumeration *)
Definition cfg_code (c : cfg) : N :=
  (let k : N := match arg c with AFile => 0 | ADir => 1 | ALinkFile => 2 | ALinkDir => 3 | AStdin => 4 | AUrl => 5 | AGitRepo => 6 | AMissing => 7 | ABadUrl => 8 | ARefusedUrl => 9 | ABadRefsRepo => 10 end in
  let t : N := match ty c with TAuto => 0 | TContent => 1 | TDirectory => 2 | TOrigin => 3 | TSnapshot => 4 end in
  let d : N := if deref c then 0 else 1 in
  let f : N := if fname c then 0 else 1 in
  let r : N := if recur c then 0 else 1 in
  let v : N := match ver c with VNone => 0 | VMatch => 1 | VNonMatch => 2 end in
  let x : N := if excl c then 0 else 1 in
  (((((k * 5 + t) * 2 + d) * 2 + f) * 2 + r) * 3 + v) * 2 + x)%N.

Fixpoint nodupb (l : list N) : bool :=
  match l with
  | [] => true
  | x :: l' => negb (existsb (N.eqb x) l') && nodupb l'
  end.

Lemma nodupb_sound : forall l, nodupb l = true -> NoDup l.
Proof.
  induction l as [|x l IH]; cbn [nodupb]; intros H.
  - constructor.
  - apply andb_prop in H as [Hx Hl]. constructor.
    + intros Hin. rewrite negb_true_iff in Hx.
      assert (Hex : existsb (N.eqb x) l = true).
      { apply existsb_exists. exists x. split; [exact Hin|apply N.eqb_refl]. }
      congruence.
    + apply IH. exact Hl.
Qed.

Theorem all_cfgs_count : length all_cfgs = 2640 /\ NoDup all_cfgs.
Proof.
  split; [vm_compute; reflexivity|].
  apply (NoDup_map_inv cfg_code). apply nodupb_sound. vm_compute. reflexivity.
Qed.

(* lifting a boolean sweep to a universally quantified statement *)
Lemma sweep : forall (P : cfg -> bool), forallb P all_cfgs = true -> forall c, P c = true.
Proof.
  intros P Hall c. rewrite forallb_forall in Hall. apply Hall. apply all_cfgs_complete.
Qed.

(* ------------------------------------------------------------------ *)
(* Boolean equality of outcomes is equality                             *)

Lemma obj_eqb_eq : forall a b, obj_eqb a b = true <-> a = b.
Proof. intros a b; destruct a, b; cbn; split; intros H; try reflexivity; try discriminate. Qed.

Lemma crash_eqb_eq : forall a b, crash_eqb a b = true <-> a = b.
Proof. intros a b; destruct a, b; cbn; split; intros H; try reflexivity; try discriminate. Qed.

Lemma outcome_eqb_eq : forall a b, outcome_eqb a b = true <-> a = b.
Proof.
  intros a b; split.
  - destruct a as [o e s l| | | | |c], b as [o' e' s' l'| | | | |c']; cbn; intros H;
      try reflexivity; try discriminate.
    + apply andb_prop in H as [H Hl]. apply andb_prop in H as [H Hs]. apply andb_prop in H as [Ho He].
      apply obj_eqb_eq in Ho. apply eqb_prop in He. apply eqb_prop in Hs. apply eqb_prop in Hl.
      subst. reflexivity.
    + apply crash_eqb_eq in H. subst. reflexivity.
  - intros ->. destruct b as [o e s l| | | | |c]; cbn; try reflexivity.
    + rewrite !eqb_reflx. destruct o; reflexivity.
    + destruct c; reflexivity.
Qed.

Lemma outcome_eqb_neq : forall a b, outcome_eqb a b = false <-> a <> b.
Proof.
  intros a b; split.
  - intros H Heq. apply outcome_eqb_eq in Heq. congruence.
  - intros H. destruct (outcome_eqb a b) eqn:E; [|reflexivity]. apply outcome_eqb_eq in E. contradiction.
Qed.

(* ------------------------------------------------------------------ *)
(* Agreement of the code with the specification                         *)

Theorem agree : forall c, in_scope c = true -> identify_model c = spec c.
Proof.
  intros c Hs. apply outcome_eqb_eq.
  assert (H : implb (in_scope c) (outcome_eqb (identify_model c) (spec c)) = true).
  { revert c Hs. intros c _. revert c. apply sweep. vm_compute. reflexivity. }
  rewrite Hs in H. exact H.
Qed.

(* the scope used here contains the literal reading of the quantifier except
   `-t directory --no-dereference <link->dir>` *)
Theorem scope_covers_literal : forall c, in_scope_literal c = true ->
  in_scope c = true \/ (arg c = ALinkDir /\ ty c = TDirectory /\ deref c = false).
Proof.
  intros c Hl.
  assert (H : implb (in_scope_literal c)
                (in_scope c || (match arg c, ty c with ALinkDir, TDirectory => negb (deref c) | _, _ => false end)) = true).
  { revert c Hl. intros c _. revert c. apply sweep. vm_compute. reflexivity. }
  rewrite Hl in H. cbn in H. apply orb_prop in H as [H|H]; [left; exact H|right].
  destruct c as [k t d f r v x]; cbn in *. destruct k, t; try discriminate. destruct d; try discriminate. auto.
Qed.

(* ------------------------------------------------------------------ *)
(* No unhandled exception                                              *)

Theorem no_crash : forall c, in_scope c = true -> forall cr, identify_model c <> Crash cr.
Proof.
  intros c Hs cr Heq.
  assert (H : implb (in_scope c) (negb (is_crash (identify_model c))) = true).
  { revert c Hs Heq. intros c _ _. revert c. apply sweep. vm_compute. reflexivity. }
  rewrite Hs, Heq in H. cbn in H. discriminate.
Qed.

(* out of scope the code does crash: -t directory <regular file> *)
Theorem crash_out_of_scope : exists c, in_scope c = false /\ identify_model c = Crash CrNotADirectory.
Proof. exists (mkCfg AFile TDirectory true true false VNone false). split; vm_compute; reflexivity. Qed.

(* ------------------------------------------------------------------ *)
(* Verification                                                        *)

(* verification is "supported" for a configuration when the specification
   does not name it as a documented unsupported combination *)
Definition verify_supported (c : cfg) : bool :=
  negb (is_nothing_obj (fst (designated c))) && negb (rec_effective c)
  && negb (is_origin_obj (fst (designated c)) && match ver c with VMatch => true | _ => false end).

Definition verify_exit_check (c : cfg) : bool :=
  implb (in_scope c)
    (match ver c with
     | VNone => negb (outcome_eqb (identify_model c) Exit0) && negb (outcome_eqb (identify_model c) Exit1)
     | VMatch => if verify_supported c then outcome_eqb (identify_model c) Exit0 else outcome_eqb (identify_model c) Usage
     | VNonMatch => if verify_supported c then outcome_eqb (identify_model c) Exit1 else outcome_eqb (identify_model c) Usage
     end).

Theorem verify_exit : forall c, in_scope c = true ->
  (identify_model c = Exit0 -> ver c = VMatch) /\
  (identify_model c = Exit1 -> ver c = VNonMatch) /\
  (ver c = VMatch -> verify_supported c = true -> identify_model c = Exit0) /\
  (ver c = VNonMatch -> verify_supported c = true -> identify_model c = Exit1) /\
  (ver c <> VNone -> verify_supported c = false -> identify_model c = Usage).
Proof.
  intros c Hs.
  assert (H : verify_exit_check c = true) by (revert c Hs; intros c _; revert c; apply sweep; vm_compute; reflexivity).
  unfold verify_exit_check in H. rewrite Hs in H. cbn [negb andb implb] in H.
  destruct (ver c) eqn:Ev.
  - apply andb_prop in H as [H0 H1]. rewrite negb_true_iff in H0, H1.
    apply outcome_eqb_neq in H0. apply outcome_eqb_neq in H1.
    repeat split; intros; try contradiction; try discriminate; congruence.
  - destruct (verify_supported c) eqn:Es; apply outcome_eqb_eq in H; rewrite H;
      repeat split; intros; try reflexivity; try discriminate; try congruence.
  - destruct (verify_supported c) eqn:Es; apply outcome_eqb_eq in H; rewrite H;
      repeat split; intros; try reflexivity; try discriminate; try congruence.
Qed.

(* whatever the scope: the code exits 0 only when the object it computed is the
   one whose identifier was given *)
Theorem exit0_only_if_equal : forall c, identify_model c = Exit0 -> ver c = VMatch.
Proof.
  intros c H.
  assert (Hc : implb (outcome_eqb (identify_model c) Exit0) (match ver c with VMatch => true | _ => false end) = true)
    by (revert c H; intros c _; revert c; apply sweep; vm_compute; reflexivity).
  apply outcome_eqb_eq in H. rewrite H in Hc. cbn in Hc. destruct (ver c); try discriminate. reflexivity.
Qed.

(* ------------------------------------------------------------------ *)
(* What is printed                                                     *)

Definition print_check (c : cfg) : bool :=
  implb (in_scope c)
    (match identify_model c with
     | Print o ex sh ls =>
         obj_eqb o (fst (designated c)) && Bool.eqb ex (snd (designated c)) && Bool.eqb sh (fname c)
         && Bool.eqb ls (rec_effective c) && implb ls (is_dir_obj o) && implb ex (is_dir_obj o && excl c)
     | _ => true
     end).

Theorem print_designated : forall c o ex sh ls, in_scope c = true ->
  identify_model c = Print o ex sh ls ->
  (o, ex) = designated c /\ sh = fname c /\ ls = rec_effective c /\
  (ls = true -> is_dir_obj o = true) /\ (ex = true -> is_dir_obj o = true /\ excl c = true).
Proof.
  intros c o ex sh ls Hs Hp.
  assert (H : print_check c = true) by (revert c Hs Hp; intros c _ _; revert c; apply sweep; vm_compute; reflexivity).
  unfold print_check in H. rewrite Hs, Hp in H. cbn [negb andb implb] in H.
  apply andb_prop in H as [H H6]. apply andb_prop in H as [H H5]. apply andb_prop in H as [H H4].
  apply andb_prop in H as [H H3]. apply andb_prop in H as [H1 H2].
  apply obj_eqb_eq in H1. apply eqb_prop in H2. apply eqb_prop in H3. apply eqb_prop in H4.
  repeat split.
  - rewrite (surjective_pairing (designated c)). congruence.
  - exact H3.
  - exact H4.
  - intros Hl. rewrite Hl in H5. exact H5.
  - rewrite H in H6 by assumption. apply andb_prop in H6. apply H6.
  - rewrite H in H6 by assumption. apply andb_prop in H6. apply H6.
Qed.

(* ------------------------------------------------------------------ *)
(* The four repaired behaviours, as refutations of the old code         *)

Theorem agree_refuted_old_realpath : exists c, in_scope c = true /\
  nondefault c = 0 /\ identify_old_realpath c = Crash CrTypeError /\
  spec c = Print ODirAtLinkTarget false true false /\ identify_model c = spec c.
Proof. exists (mkCfg ALinkDir TAuto true true false VNone false). repeat split; vm_compute; reflexivity. Qed.

Theorem agree_refuted_old_rectype : exists c, in_scope c = true /\
  identify_old_rectype c = Usage /\
  spec c = Print ODirAtPath false true true /\ identify_model c = spec c.
Proof. exists (mkCfg ADir TDirectory true true true VNone false). repeat split; vm_compute; reflexivity. Qed.

Theorem agree_refuted_old_autolink : exists c, in_scope c = true /\
  identify_old_autolink c = Print ODirAtLinkTarget false true false /\
  spec c = Print OLinkText false true false /\ identify_model c = spec c.
Proof. exists (mkCfg ALinkDir TAuto false true false VNone false). repeat split; vm_compute; reflexivity. Qed.

(* swh identify -r --no-dereference <link->dir>: the directory behind the link was listed *)
Theorem agree_refuted_old_recfollows : exists c, in_scope c = true /\ in_scope_literal c = true /\
  identify_old_recfollows c = Print ODirAtLinkTarget false true true /\
  spec c = Print OLinkText false true false /\ identify_model c = spec c.
Proof. exists (mkCfg ALinkDir TAuto false true true VNone false). repeat split; vm_compute; reflexivity. Qed.

(* swh identify https://example.org/<2100 characters>: the library's ValueError escaped *)
Theorem agree_refuted_old_originuncaught : exists c, in_scope c = true /\ in_scope_literal c = true /\
  nondefault c = 0 /\ identify_old_originuncaught c = Crash CrValueError /\
  spec c = Usage /\ identify_model c = spec c.
Proof. exists (mkCfg ARefusedUrl TAuto true true false VNone false). repeat split; vm_compute; reflexivity. Qed.

(* swh identify -t snapshot <repository with an empty packed-refs file>: dulwich's StopIteration was taken for
   the end of the results: nothing printed, exit code 0 *)
Theorem agree_refuted_old_stopswallowed : exists c, in_scope c = true /\ in_scope_literal c = true /\
  identify_old_stopswallowed c = Silent /\ spec c = Usage /\ identify_model c = spec c.
Proof. exists (mkCfg ABadRefsRepo TSnapshot true true false VNone false). repeat split; vm_compute; reflexivity. Qed.

(* ... and in an invocation with several arguments the run stopped WITHOUT an error, dropping that argument and all
   the following ones:  swh identify -t snapshot REPO1 BADREPO REPO2  printed one line and exited 0 *)
Theorem many_refuted_old_stopswallowed :
  let c := mkCfg AFile TSnapshot true true false VNone false in
  let ks := [AGitRepo; ABadRefsRepo; AGitRepo] in
  in_scope_many c ks = true /\
  identify_many_gen old_stopswallowed c ks = MOut [(OSnapshot, false, true, false)] MDone /\
  identify_many c ks = MOut [(OSnapshot, false, true, false)] MUsageEnd /\
  spec_many c ks = identify_many c ks.
Proof. repeat split; vm_compute; reflexivity. Qed.

(* each old behaviour broke exactly its class of in-scope configurations *)
Definition old_exact_check (c : cfg) : bool :=
  implb (in_scope c)
    (Bool.eqb (negb (outcome_eqb (identify_old_realpath c) (spec c))) (old_realpath_class c)
     && Bool.eqb (negb (outcome_eqb (identify_old_rectype c) (spec c))) (old_rectype_class c)
     && Bool.eqb (negb (outcome_eqb (identify_old_autolink c) (spec c))) (old_autolink_class c)
     && Bool.eqb (negb (outcome_eqb (identify_old_recfollows c) (spec c))) (old_recfollows_class c)
     && Bool.eqb (negb (outcome_eqb (identify_old_originuncaught c) (spec c))) (old_originuncaught_class c)
     && Bool.eqb (negb (outcome_eqb (identify_old_stopswallowed c) (spec c))) (old_stopswallowed_class c)).

Theorem old_deviations_exact : forall c, in_scope c = true ->
  (identify_old_realpath c <> spec c <-> old_realpath_class c = true) /\
  (identify_old_rectype c <> spec c <-> old_rectype_class c = true) /\
  (identify_old_autolink c <> spec c <-> old_autolink_class c = true) /\
  (identify_old_recfollows c <> spec c <-> old_recfollows_class c = true) /\
  (identify_old_originuncaught c <> spec c <-> old_originuncaught_class c = true) /\
  (identify_old_stopswallowed c <> spec c <-> old_stopswallowed_class c = true).
Proof.
  intros c Hs.
  assert (H : old_exact_check c = true) by (revert c Hs; intros c _; revert c; apply sweep; vm_compute; reflexivity).
  unfold old_exact_check in H. rewrite Hs in H. cbn [negb andb implb] in H.
  apply andb_prop in H as [H H6]. apply andb_prop in H as [H H5]. apply andb_prop in H as [H H4].
  apply andb_prop in H as [H H3]. apply andb_prop in H as [H1 H2].
  apply eqb_prop in H1. apply eqb_prop in H2. apply eqb_prop in H3. apply eqb_prop in H4. apply eqb_prop in H5.
  apply eqb_prop in H6.
  rewrite <- H1, <- H2, <- H3, <- H4, <- H5, <- H6. rewrite !negb_true_iff.
  repeat split; intros H; apply outcome_eqb_neq; exact H.
Qed.

Theorem old_classes_sizes :
  length (filter (fun c => in_scope c && old_realpath_class c) all_cfgs) = 24 /\
  length (filter (fun c => in_scope c && old_rectype_class c) all_cfgs) = 28 /\
  length (filter (fun c => in_scope c && old_autolink_class c) all_cfgs) = 16 /\
  length (filter (fun c => in_scope c && old_recfollows_class c) all_cfgs) = 24 /\
  length (filter (fun c => in_scope c && old_originuncaught_class c) all_cfgs) = 96 /\
  length (filter (fun c => in_scope c && old_stopswallowed_class c) all_cfgs) = 24.
Proof. repeat split; vm_compute; reflexivity. Qed.

(* ------------------------------------------------------------------ *)
(* The stricter reading                                                *)

Definition origin_id_given (c : cfg) : bool :=
  is_origin_obj (fst (designated c)) && match ver c with VMatch => true | _ => false end.

Definition strict_class (c : cfg) : bool :=
  negb (is_nothing_obj (fst (designated c)))
  && ((recur c && negb (rec_effective c) && (has_verify c || negb (type_is_auto_or_directory (ty c)))
       && negb (origin_id_given c))
      || (origin_id_given c && negb (recur c))).

(* [spec_strict] and [spec] differ exactly on: -r on a non-directory together
   with --verify or an explicit non-directory type (the code ignores -r with a
   warning), and verification of an origin's identifier (click refuses it) *)
Theorem strict_reading_differs : forall c, in_scope c = true ->
  (spec_strict c <> spec c <-> strict_class c = true).
Proof.
  intros c Hs.
  assert (H : implb (in_scope c) (Bool.eqb (negb (outcome_eqb (spec_strict c) (spec c))) (strict_class c)) = true)
    by (revert c Hs; intros c _; revert c; apply sweep; vm_compute; reflexivity).
  rewrite Hs in H. cbn in H. apply eqb_prop in H. rewrite <- H. rewrite negb_true_iff.
  split; intros H'; apply outcome_eqb_neq; exact H'.
Qed.

Theorem strict_reading_witnesses :
  (* swh identify -r --verify <id of f> f  ->  "SWHID match", exit 0 *)
  (let c := mkCfg AFile TAuto true true true VMatch false in
   in_scope c = true /\ identify_model c = Exit0 /\ spec_strict c = Usage) /\
  (* swh identify --verify swh:1:ori:<id of url> url  ->  usage error *)
  (let c := mkCfg AUrl TAuto true true false VMatch false in
   in_scope c = true /\ identify_model c = Usage /\ spec_strict c = Exit0).
Proof. repeat split; vm_compute; reflexivity. Qed.

(* ------------------------------------------------------------------ *)
(* Non-vacuity                                                         *)

Theorem in_scope_satisfiable :
  (exists c, in_scope c = true /\ nondefault c >= 3 /\
             identify_model c = Print ODirAtLinkTarget true false true /\ spec c = identify_model c) /\
  (exists c, in_scope c = true /\ nondefault c >= 3 /\
             identify_model c = Exit0 /\ spec c = Exit0) /\
  length (filter in_scope all_cfgs) = 1056 /\
  length (filter in_scope_literal all_cfgs) = 960.
Proof.
  split; [|split; [|split]].
  - exists (mkCfg ALinkDir TDirectory true false true VNone true). repeat split; vm_compute; try reflexivity. lia.
  - exists (mkCfg AGitRepo TSnapshot false false false VMatch true). repeat split; vm_compute; try reflexivity. lia.
  - vm_compute; reflexivity.
  - vm_compute; reflexivity.
Qed.

(* ------------------------------------------------------------------ *)
(* Several OBJECTS in one invocation                                   *)

Definition crash_eq_dec (a b : crash) : {a = b} + {a <> b}.
Proof. decide equality. Defined.
Definition obj_eq_dec (a b : obj) : {a = b} + {a <> b}.
Proof. decide equality. Defined.
Definition res_eq_dec (a b : res) : {a = b} + {a <> b}.
Proof. decide equality; try apply bool_dec; try apply obj_eq_dec; apply crash_eq_dec. Defined.
Definition line_eq_dec (a b : line) : {a = b} + {a <> b}.
Proof. repeat decide equality. Defined.
Definition mend_eq_dec (a b : mend) : {a = b} + {a <> b}.
Proof. decide equality. apply crash_eq_dec. Defined.
Definition mout_eq_dec (a b : mout) : {a = b} + {a <> b}.
Proof. decide equality; [apply mend_eq_dec|apply (list_eq_dec line_eq_dec)]. Defined.

Definition decb {A} (dec : forall a b : A, {a = b} + {a <> b}) (a b : A) : bool :=
  if dec a b then true else false.
Lemma decb_eq : forall A (dec : forall a b : A, {a = b} + {a <> b}) a b, decb dec a b = true -> a = b.
Proof. intros A dec a b. unfold decb. destruct (dec a b); [auto|discriminate]. Qed.

(* the options of [c] do not depend on its [arg] *)
Lemma with_arg_with_arg : forall c k k', with_arg (with_arg c k) k' = with_arg c k'.
Proof. intros [k0 t d f r v x] k k'. reflexivity. Qed.

Lemma with_arg_self : forall c, with_arg c (arg c) = c.
Proof. intros [k0 t d f r v x]. reflexivity. Qed.

(* one argument: the run is the outcome of the one-argument table, for EVERY
   configuration (in scope or not) *)
Theorem many_single : forall c k, identify_many c [k] = embed (identify_model (with_arg c k)).
Proof.
  assert (H : forall c, identify_many c [arg c] = embed (identify_model c)).
  { intros c. apply (decb_eq _ mout_eq_dec). revert c. apply sweep. vm_compute. reflexivity. }
  intros c k. rewrite <- (H (with_arg c k)).
  destruct c as [k0 t d f r v x]. reflexivity.
Qed.

(* in scope, without --recursive and --verify, identify_object returns the
   designated object, or refuses an argument that designates nothing *)
Definition object_check (c : cfg) : bool :=
  implb (in_scope c && negb (recur c) && negb (has_verify c))
    (match spec c with
     | Print o ex sh ls => decb res_eq_dec (identify_object current c) (ROk o ex) && Bool.eqb sh (fname c) && negb ls
     | Usage => decb res_eq_dec (identify_object current c) RUsage
     | _ => false
     end).

Lemma identify_object_spec : forall c, in_scope c = true -> recur c = false -> ver c = VNone ->
  match spec c with
  | Print o ex sh ls => identify_object current c = ROk o ex /\ sh = fname c /\ ls = false
  | Usage => identify_object current c = RUsage
  | _ => False
  end.
Proof.
  intros c Hs Hr Hv.
  assert (H : object_check c = true) by (revert c Hs Hr Hv; intros c _ _ _; revert c; apply sweep; vm_compute; reflexivity).
  unfold object_check, has_verify in H. rewrite Hs, Hr, Hv in H. cbn [negb andb implb] in H.
  destruct (spec c) as [o ex sh ls| | | | |cr]; try discriminate.
  - apply andb_prop in H as [H H3]. apply andb_prop in H as [H1 H2].
    apply (decb_eq _ res_eq_dec) in H1. apply eqb_prop in H2. rewrite negb_true_iff in H3. auto.
  - apply (decb_eq _ res_eq_dec) in H. exact H.
Qed.

Lemma run_objects_in_scope : forall c ks, recur c = false -> ver c = VNone ->
  (forall k, In k ks -> in_scope (with_arg c k) = true) ->
  run_objects current c ks = spec_run c ks.
Proof.
  intros c ks Hr Hv. induction ks as [|k ks IH]; intros Hin.
  - reflexivity.
  - cbn [run_objects spec_run].
    assert (Hk : in_scope (with_arg c k) = true) by (apply Hin; left; reflexivity).
    pose proof (identify_object_spec (with_arg c k) Hk) as Ho.
    assert (Hr' : recur (with_arg c k) = false) by (destruct c; exact Hr).
    assert (Hv' : ver (with_arg c k) = VNone) by (destruct c; exact Hv).
    specialize (Ho Hr' Hv').
    destruct (spec (with_arg c k)) as [o ex sh ls| | | | |cr]; try contradiction.
    + destruct Ho as [Ho [Hsh Hls]]. rewrite Ho. rewrite IH by (intros k' Hk'; apply Hin; right; exact Hk').
      subst sh ls. destruct c; reflexivity.
    + rewrite Ho. reflexivity.
Qed.

(* Any number of arguments: in scope, one invocation prints, in the order of
   the arguments, exactly the line each argument gets when given alone - the
   options (type, dereference, exclusion patterns, filename) reach every
   argument alike - and --verify with several arguments is the documented
   usage error. *)
Theorem many_agree : forall c ks, in_scope_many c ks = true -> identify_many c ks = spec_many c ks.
Proof.
  intros c ks Hs. destruct ks as [|k1 [|k2 ks]].
  - discriminate.
  - cbn [in_scope_many] in Hs. rewrite many_single. cbn [spec_many]. f_equal. apply agree. exact Hs.
  - cbn [in_scope_many] in Hs. apply andb_prop in Hs as [Hall Hr]. rewrite negb_true_iff in Hr.
    rewrite forallb_forall in Hall.
    unfold identify_many, identify_many_gen. cbn [spec_many length Nat.eqb negb].
    destruct (has_verify c) eqn:Hv; [reflexivity|].
    assert (Hver : ver c = VNone) by (unfold has_verify in Hv; destruct (ver c); [reflexivity|discriminate|discriminate]).
    cbn [andb].
    assert (Hp : verify_param_ok (with_arg c k1) = true) by (unfold verify_param_ok; destruct c; cbn in *; rewrite Hver; reflexivity).
    rewrite Hp. cbn [negb]. rewrite Hr. cbn [andb].
    rewrite (run_objects_in_scope c (k1 :: k2 :: ks) Hr Hver Hall). reflexivity.
Qed.

(* --recursive with several arguments (out of scope): only the first argument
   is listed, the others are silently ignored:  swh identify -r DIR1 DIR2 *)
Theorem many_recursive_first_only :
  let c := mkCfg ADir TAuto true true true VNone false in
  identify_many c [ADir; ADir] = MOut [(ODirAtPath, false, true, true)] MDone /\
  spec_many c [ADir; ADir] = MOut [(ODirAtPath, false, true, true); (ODirAtPath, false, true, true)] MDone /\
  in_scope_many c [ADir; ADir] = false.
Proof. repeat split; vm_compute; reflexivity. Qed.

(* an argument that cannot be identified ends the run with a usage error, after the lines of the ones before it *)
Theorem many_usage_after_lines :
  let c := mkCfg AFile TAuto true true false VNone false in
  in_scope_many c [AFile; ABadUrl; ADir] = true /\
  identify_many c [AFile; ABadUrl; ADir] = MOut [(OPathContent, false, true, false)] MUsageEnd /\
  identify_many c [AMissing; AFile] = MOut [] MUsageEnd.
Proof. repeat split; vm_compute; reflexivity. Qed.

(* non-vacuity: `swh identify --no-dereference -x PAT dir dir link->dir file - url gitrepo` *)
Theorem many_satisfiable :
  let c := mkCfg AFile TAuto false true false VNone true in
  let ks := [ADir; ADir; ALinkDir; AFile; AStdin; AUrl; AGitRepo] in
  in_scope_many c ks = true /\
  identify_many c ks = MOut [(ODirAtPath, true, true, false); (ODirAtPath, true, true, false);
                             (OLinkText, false, true, false); (OPathContent, false, true, false);
                             (OStdin, false, true, false); (OOrigin, false, true, false);
                             (ODirAtPath, true, true, false)] MDone.
Proof. split; vm_compute; reflexivity. Qed.
